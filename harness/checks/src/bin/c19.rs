//! C19 — values that do not fit the binary format are rejected, never wrapped.
//!
//! Bounded-exhaustive boundary sweep: ONE source field at a time is pushed to each value of a
//! stated boundary alphabet of its target type, on a small valid base design (static, and a
//! 2-master variable base where the field varies). Every case is compiled by BOTH product
//! binaries (optimised as shipped, and the overflow-checked twin). Oracle:
//!   * the two outcomes agree (both error, or both exit 0 with byte-identical fonts);
//!   * exit != 0 is a clean error exit (code 1 with a message); signal / abort / timeout / other
//!     exit codes are crashes;
//!   * exit 0: the field is decoded from the emitted font (read-fonts typed tables, a raw GPOS
//!     reader, own gvar/IVS evaluation) and must equal the source value after OpenType rounding,
//!     or the glyph was decomposed to an equal resolved shape.
//! The oracle is computed from the `Design` only.

use dgen::plist::Plist;
use dgen::*;
use serde::{Deserialize, Serialize};
use serde_json::{Value, json};
use std::collections::BTreeMap;
use write_fonts::read::{
    FontRef, TableProvider,
    tables::glyf::{Anchor as GAnchor, Glyph as RGlyph},
    tables::variations::ItemVariationStore,
    types::GlyphId,
};

// ------------------------------------------------------------------------------------------
// raw big-endian reader + GPOS subset (PairPos 1/2, MarkBasePos 1, Extension, Anchor 1-3)
// ------------------------------------------------------------------------------------------

#[derive(Clone, Copy)]
struct R<'a>(&'a [u8]);

impl<'a> R<'a> {
    fn u16(&self, o: usize) -> Option<u16> {
        self.0.get(o..o + 2).map(|b| u16::from_be_bytes([b[0], b[1]]))
    }
    fn i16(&self, o: usize) -> Option<i16> {
        self.u16(o).map(|v| v as i16)
    }
    fn u32(&self, o: usize) -> Option<u32> {
        self.0
            .get(o..o + 4)
            .map(|b| u32::from_be_bytes([b[0], b[1], b[2], b[3]]))
    }
    fn sub(&self, o: usize) -> Option<R<'a>> {
        self.0.get(o..).map(R)
    }
}

fn coverage_index(c: R, gid: u16) -> Option<usize> {
    match c.u16(0)? {
        1 => {
            let n = c.u16(2)? as usize;
            (0..n).find(|i| c.u16(4 + 2 * i) == Some(gid))
        }
        2 => {
            let n = c.u16(2)? as usize;
            for i in 0..n {
                let (s, e, st) = (c.u16(4 + 6 * i)?, c.u16(6 + 6 * i)?, c.u16(8 + 6 * i)?);
                if gid >= s && gid <= e {
                    return Some((st + (gid - s)) as usize);
                }
            }
            None
        }
        _ => None,
    }
}

fn class_of(c: R, gid: u16) -> Option<u16> {
    match c.u16(0)? {
        1 => {
            let (s, n) = (c.u16(2)?, c.u16(4)?);
            if gid >= s && gid < s.saturating_add(n) {
                c.u16(6 + 2 * (gid - s) as usize)
            } else {
                Some(0)
            }
        }
        2 => {
            let n = c.u16(2)? as usize;
            for i in 0..n {
                let (s, e, k) = (c.u16(4 + 6 * i)?, c.u16(6 + 6 * i)?, c.u16(8 + 6 * i)?);
                if gid >= s && gid <= e {
                    return Some(k);
                }
            }
            Some(0)
        }
        _ => None,
    }
}

/// a value plus its optional VariationIndex (outer, inner)
#[derive(Debug, Clone, Copy, Default, PartialEq)]
struct VarVal {
    v: i16,
    var: Option<(u16, u16)>,
}

fn value_record_size(fmt: u16) -> usize {
    2 * (fmt & 0xff).count_ones() as usize
}

fn variation_index(parent: R, off: u16) -> Option<(u16, u16)> {
    if off == 0 {
        return None;
    }
    let d = parent.sub(off as usize)?;
    if d.u16(4)? == 0x8000 {
        Some((d.u16(0)?, d.u16(2)?))
    } else {
        None
    }
}

/// xAdvance (+ xPlacement, reported separately) of a value record at `o` in `parent`
fn value_record_xadv(parent: R, o: usize, fmt: u16) -> Option<(VarVal, VarVal)> {
    let mut pos = o;
    let mut vals = [0i16; 4];
    for (bit, slot) in vals.iter_mut().enumerate() {
        if fmt & (1 << bit) != 0 {
            *slot = parent.i16(pos)?;
            pos += 2;
        }
    }
    let mut devs = [0u16; 4];
    for (bit, slot) in devs.iter_mut().enumerate() {
        if fmt & (0x10 << bit) != 0 {
            *slot = parent.u16(pos)?;
            pos += 2;
        }
    }
    Some((
        VarVal { v: vals[2], var: variation_index(parent, devs[2]) },
        VarVal { v: vals[0], var: variation_index(parent, devs[0]) },
    ))
}

/// all subtables of GPOS lookups of type `want`, extension lookups unwrapped
fn gpos_subtables<'a>(gpos: R<'a>, want: u16) -> Vec<Vec<R<'a>>> {
    let mut out = vec![];
    let Some(ll) = gpos.u16(8).and_then(|o| gpos.sub(o as usize)) else {
        return out;
    };
    let n = ll.u16(0).unwrap_or(0) as usize;
    for i in 0..n {
        let Some(lk) = ll.u16(2 + 2 * i).and_then(|o| ll.sub(o as usize)) else {
            continue;
        };
        let ty = lk.u16(0).unwrap_or(0);
        let sc = lk.u16(4).unwrap_or(0) as usize;
        let mut subs = vec![];
        for s in 0..sc {
            let Some(st) = lk.u16(6 + 2 * s).and_then(|o| lk.sub(o as usize)) else {
                continue;
            };
            if ty == want {
                subs.push(st);
            } else if ty == 9 && st.u16(2) == Some(want) {
                if let Some(inner) = st.u32(4).and_then(|o| st.sub(o as usize)) {
                    subs.push(inner);
                }
            }
        }
        if !subs.is_empty() {
            out.push(subs);
        }
    }
    out
}

/// xAdvance adjustments of the pair (g1, g2), one entry per pair lookup that has the pair
fn gpos_pair(gpos: R, g1: u16, g2: u16) -> Vec<(VarVal, VarVal)> {
    let mut found = vec![];
    for lookup in gpos_subtables(gpos, 2) {
        for st in lookup {
            let hit = (|| -> Option<(VarVal, VarVal)> {
                let cov = st.sub(st.u16(2)? as usize)?;
                let ci = coverage_index(cov, g1)?;
                let (f1, f2) = (st.u16(4)?, st.u16(6)?);
                match st.u16(0)? {
                    1 => {
                        let ps = st.sub(st.u16(10 + 2 * ci)? as usize)?;
                        let n = ps.u16(0)? as usize;
                        let rs = 2 + value_record_size(f1) + value_record_size(f2);
                        for k in 0..n {
                            let o = 2 + k * rs;
                            if ps.u16(o)? == g2 {
                                return value_record_xadv(ps, o + 2, f1);
                            }
                        }
                        None
                    }
                    2 => {
                        let cd1 = st.sub(st.u16(8)? as usize)?;
                        let cd2 = st.sub(st.u16(10)? as usize)?;
                        let (_c1n, c2n) = (st.u16(12)? as usize, st.u16(14)? as usize);
                        let (k1, k2) = (class_of(cd1, g1)? as usize, class_of(cd2, g2)? as usize);
                        let rs = value_record_size(f1) + value_record_size(f2);
                        let o = 16 + (k1 * c2n + k2) * rs;
                        value_record_xadv(st, o, f1)
                    }
                    _ => None,
                }
            })();
            if let Some(h) = hit {
                found.push(h);
                break; // first matching subtable of a lookup wins
            }
        }
    }
    found
}

#[derive(Debug, Clone, Copy, Default, PartialEq)]
struct AnchorVal {
    x: VarVal,
    y: VarVal,
}

fn anchor_at(a: R) -> Option<AnchorVal> {
    let fmt = a.u16(0)?;
    let (x, y) = (a.i16(2)?, a.i16(4)?);
    let (mut xv, mut yv) = (None, None);
    if fmt == 3 {
        xv = variation_index(a, a.u16(6)?);
        yv = variation_index(a, a.u16(8)?);
    }
    Some(AnchorVal { x: VarVal { v: x, var: xv }, y: VarVal { v: y, var: yv } })
}

/// (base anchor, mark anchor) of the first mark-to-base subtable attaching `mark` to `base`
fn gpos_mark_base(gpos: R, base: u16, mark: u16) -> Vec<(AnchorVal, AnchorVal)> {
    let mut found = vec![];
    for lookup in gpos_subtables(gpos, 4) {
        for st in lookup {
            let hit = (|| -> Option<(AnchorVal, AnchorVal)> {
                if st.u16(0)? != 1 {
                    return None;
                }
                let mcov = st.sub(st.u16(2)? as usize)?;
                let bcov = st.sub(st.u16(4)? as usize)?;
                let ncls = st.u16(6)? as usize;
                let marr = st.sub(st.u16(8)? as usize)?;
                let barr = st.sub(st.u16(10)? as usize)?;
                let mi = coverage_index(mcov, mark)?;
                let bi = coverage_index(bcov, base)?;
                let cls = marr.u16(2 + 4 * mi)? as usize;
                let ma = anchor_at(marr.sub(marr.u16(4 + 4 * mi)? as usize)?)?;
                let bo = barr.u16(2 + 2 * (bi * ncls + cls))?;
                if bo == 0 {
                    return None;
                }
                let ba = anchor_at(barr.sub(bo as usize)?)?;
                Some((ba, ma))
            })();
            if let Some(h) = hit {
                found.push(h);
                break;
            }
        }
    }
    found
}

// ------------------------------------------------------------------------------------------
// variation evaluation (own implementation; f64, no 16.16 intermediates that could overflow)
// ------------------------------------------------------------------------------------------

fn axis_scalar(c: f64, start: f64, peak: f64, end: f64) -> f64 {
    if peak == 0.0 {
        return 1.0;
    }
    if start > peak || peak > end || (start < 0.0 && end > 0.0) {
        return 1.0;
    }
    if c == peak {
        return 1.0;
    }
    if c <= start || c >= end {
        return 0.0;
    }
    if c < peak { (c - start) / (peak - start) } else { (end - c) / (end - peak) }
}

fn ivs_delta(ivs: &ItemVariationStore, outer: u16, inner: u16, coords: &[f64]) -> Option<f64> {
    let data = ivs.item_variation_data().get(outer as usize)?.ok()?;
    if inner >= data.item_count() {
        return None;
    }
    let regions = ivs.variation_region_list().ok()?.variation_regions();
    let idx = data.region_indexes();
    let mut sum = 0.0;
    for (i, d) in data.delta_set(inner).enumerate() {
        let ri = idx.get(i)?.get() as usize;
        let region = regions.get(ri).ok()?;
        let mut s = 1.0;
        for (k, ax) in region.region_axes().iter().enumerate() {
            let c = coords.get(k).copied().unwrap_or(0.0);
            s *= axis_scalar(
                c,
                ax.start_coord().to_f32() as f64,
                ax.peak_coord().to_f32() as f64,
                ax.end_coord().to_f32() as f64,
            );
        }
        sum += s * d as f64;
    }
    Some(sum)
}

/// TrueType IUP of one coordinate over one contour
fn iup_contour(coords: &[f64], deltas: &[Option<f64>]) -> Vec<f64> {
    let n = coords.len();
    let refs: Vec<usize> = (0..n).filter(|i| deltas[*i].is_some()).collect();
    if refs.is_empty() {
        return vec![0.0; n];
    }
    let mut out: Vec<f64> = deltas.iter().map(|d| d.unwrap_or(0.0)).collect();
    if refs.len() == n {
        return out;
    }
    for (ri, &r1) in refs.iter().enumerate() {
        let r2 = refs[(ri + 1) % refs.len()];
        // untouched points strictly between r1 and r2 (cyclically)
        let mut i = (r1 + 1) % n;
        while i != r2 {
            let (c1, c2, d1, d2) = (coords[r1], coords[r2], deltas[r1].unwrap(), deltas[r2].unwrap());
            let c = coords[i];
            out[i] = if c1 == c2 {
                if d1 == d2 { d1 } else { 0.0 }
            } else {
                let (lo, hi, dlo, dhi) = if c1 < c2 { (c1, c2, d1, d2) } else { (c2, c1, d2, d1) };
                if c <= lo {
                    dlo
                } else if c >= hi {
                    dhi
                } else {
                    dlo + (dhi - dlo) * (c - lo) / (hi - lo)
                }
            };
            i = (i + 1) % n;
            if refs.len() == 1 && i == r1 {
                break;
            }
        }
    }
    out
}

// ------------------------------------------------------------------------------------------
// decoding the emitted font
// ------------------------------------------------------------------------------------------

type Pts = Vec<(f64, f64)>;

struct Decoded {
    /// resolved contours (components flattened with their stored transform / offset)
    contours: Vec<Pts>,
    /// was the glyph itself stored as a composite
    composite: bool,
    /// glyph header bbox (xMin, yMin, xMax, yMax); None for an empty glyph
    bbox: Option<(f64, f64, f64, f64)>,
    /// horizontal advance according to the gvar phantom points (only when `var`)
    phantom_advance: Option<f64>,
}

/// explicit gvar deltas of glyph `gid` at `coords`, summed over tuples, after IUP for simple glyphs.
/// `n` = number of points incl. 4 phantoms; `ends` = contour end indices (simple) or None (composite)
fn gvar_deltas(
    font: &FontRef,
    gid: u16,
    coords: &[f64],
    n: usize,
    xs: &[f64],
    ys: &[f64],
    ends: Option<&[usize]>,
) -> Result<(Vec<f64>, Vec<f64>), String> {
    let mut dx = vec![0.0; n];
    let mut dy = vec![0.0; n];
    let Ok(gvar) = font.gvar() else {
        return Ok((dx, dy));
    };
    let Some(data) = gvar
        .glyph_variation_data(GlyphId::new(gid as u32))
        .map_err(|e| format!("gvar data: {e}"))?
    else {
        return Ok((dx, dy));
    };
    for t in data.tuples() {
        let peak = t.peak();
        let (is, ie) = (t.intermediate_start(), t.intermediate_end());
        let mut s = 1.0;
        for k in 0..coords.len() {
            let p = peak.get(k).map(|v| v.to_f32() as f64).unwrap_or(0.0);
            let (a, b) = match (&is, &ie) {
                (Some(a), Some(b)) => (
                    a.get(k).map(|v| v.to_f32() as f64).unwrap_or(0.0),
                    b.get(k).map(|v| v.to_f32() as f64).unwrap_or(0.0),
                ),
                _ => (p.min(0.0), p.max(0.0)),
            };
            s *= axis_scalar(coords[k], a, p, b);
        }
        if s == 0.0 {
            continue;
        }
        let mut ex: Vec<Option<f64>> = vec![None; n];
        let mut ey: Vec<Option<f64>> = vec![None; n];
        for d in t.deltas() {
            let i = d.position as usize;
            if i >= n {
                return Err(format!("gvar delta for point {i} of {n}"));
            }
            ex[i] = Some(d.x_delta as f64);
            ey[i] = Some(d.y_delta as f64);
        }
        let (fx, fy): (Vec<f64>, Vec<f64>) = match ends {
            Some(ends) => {
                // contours, then each phantom point as a contour of its own
                let mut fx = vec![0.0; n];
                let mut fy = vec![0.0; n];
                let mut start = 0;
                let mut all_ends: Vec<usize> = ends.to_vec();
                for p in n - 4..n {
                    all_ends.push(p);
                }
                for e in all_ends {
                    let r = start..=e;
                    let ix = iup_contour(&xs[r.clone()], &ex[r.clone()]);
                    let iy = iup_contour(&ys[r.clone()], &ey[r.clone()]);
                    fx[r.clone()].copy_from_slice(&ix);
                    fy[r].copy_from_slice(&iy);
                    start = e + 1;
                }
                (fx, fy)
            }
            None => (
                ex.iter().map(|d| d.unwrap_or(0.0)).collect(),
                ey.iter().map(|d| d.unwrap_or(0.0)).collect(),
            ),
        };
        for i in 0..n {
            dx[i] += s * fx[i];
            dy[i] += s * fy[i];
        }
    }
    Ok((dx, dy))
}

/// points (absolute, accumulated in i64) and contour end indices of a simple glyph record
fn parse_simple_glyph(data: &[u8]) -> Result<(Vec<(f64, f64)>, Vec<usize>), String> {
    let r = R(data);
    let bad = || "truncated simple glyph".to_string();
    let nc = r.i16(0).ok_or_else(bad)?;
    if nc < 0 {
        return Err("not a simple glyph".into());
    }
    let nc = nc as usize;
    let mut ends = vec![];
    for i in 0..nc {
        ends.push(r.u16(10 + 2 * i).ok_or_else(bad)? as usize);
    }
    let np = ends.last().map(|e| e + 1).unwrap_or(0);
    let il = r.u16(10 + 2 * nc).ok_or_else(bad)? as usize;
    let mut pos = 12 + 2 * nc + il;
    let mut flags = Vec::with_capacity(np);
    while flags.len() < np {
        let f = *data.get(pos).ok_or_else(bad)?;
        pos += 1;
        flags.push(f);
        if f & 0x08 != 0 {
            let rep = *data.get(pos).ok_or_else(bad)?;
            pos += 1;
            for _ in 0..rep {
                flags.push(f);
            }
        }
    }
    flags.truncate(np);
    let mut read_axis = |short: u8, same: u8| -> Result<Vec<f64>, String> {
        let mut out = Vec::with_capacity(np);
        let mut v: i64 = 0;
        for f in &flags {
            if f & short != 0 {
                let d = *data.get(pos).ok_or_else(bad)? as i64;
                pos += 1;
                v += if f & same != 0 { d } else { -d };
            } else if f & same == 0 {
                v += r.i16(pos).ok_or_else(bad)? as i64;
                pos += 2;
            }
            out.push(v as f64);
        }
        Ok(out)
    };
    let xs = read_axis(0x02, 0x10)?;
    let ys = read_axis(0x04, 0x20)?;
    Ok((xs.into_iter().zip(ys).collect(), ends))
}

fn decode_glyph(font: &FontRef, gid: u16, coords: Option<&[f64]>, depth: usize) -> Result<Decoded, String> {
    if depth > 8 {
        return Err("component nesting deeper than 8".into());
    }
    let loca = font.loca(None).map_err(|e| format!("loca: {e}"))?;
    let glyf = font.glyf().map_err(|e| format!("glyf: {e}"))?;
    let g = loca
        .get_glyf(GlyphId::new(gid as u32), &glyf)
        .map_err(|e| format!("glyph {gid}: {e}"))?;
    let adv = font
        .hmtx()
        .ok()
        .and_then(|h| h.advance(GlyphId::new(gid as u32)))
        .unwrap_or(0) as f64;
    match g {
        None => Ok(Decoded { contours: vec![], composite: false, bbox: None, phantom_advance: Some(adv) }),
        Some(RGlyph::Simple(s)) => {
            // own reader with wide accumulators (as FreeType does): a coordinate difference that was
            // wrapped to int16 by the writer must not be un-wrapped by a wrapping reader
            let (pts, ends) = parse_simple_glyph(s.offset_data().as_bytes())?;
            let mut xs: Vec<f64> = pts.iter().map(|p| p.0).collect();
            let mut ys: Vec<f64> = pts.iter().map(|p| p.1).collect();
            // phantom points: lsb origin, advance, top, bottom
            let xmin = s.x_min() as f64;
            let lsb = font
                .hmtx()
                .ok()
                .and_then(|h| h.side_bearing(GlyphId::new(gid as u32)))
                .unwrap_or(0) as f64;
            xs.extend([xmin - lsb, xmin - lsb + adv, 0.0, 0.0]);
            ys.extend([0.0, 0.0, 0.0, 0.0]);
            let n = xs.len();
            let mut phantom_advance = None;
            if let Some(c) = coords {
                let (dx, dy) = gvar_deltas(font, gid, c, n, &xs, &ys, Some(&ends))?;
                for i in 0..n {
                    xs[i] += dx[i];
                    ys[i] += dy[i];
                }
                phantom_advance = Some(xs[n - 3] - xs[n - 4]);
            }
            let mut contours = vec![];
            let mut start = 0;
            for e in &ends {
                contours.push((start..=*e).map(|i| (xs[i], ys[i])).collect());
                start = e + 1;
            }
            Ok(Decoded {
                contours,
                composite: false,
                bbox: Some((s.x_min() as f64, s.y_min() as f64, s.x_max() as f64, s.y_max() as f64)),
                phantom_advance,
            })
        }
        Some(RGlyph::Composite(cg)) => {
            let comps: Vec<_> = cg.components().collect();
            let mut xs = vec![];
            let mut ys = vec![];
            for c in &comps {
                match c.anchor {
                    GAnchor::Offset { x, y } => {
                        xs.push(x as f64);
                        ys.push(y as f64);
                    }
                    GAnchor::Point { .. } => return Err("point-anchored component".into()),
                }
            }
            xs.extend([0.0, adv, 0.0, 0.0]);
            ys.extend([0.0, 0.0, 0.0, 0.0]);
            let n = xs.len();
            let mut phantom_advance = None;
            if let Some(c) = coords {
                let (dx, dy) = gvar_deltas(font, gid, c, n, &xs, &ys, None)?;
                for i in 0..n {
                    xs[i] += dx[i];
                    ys[i] += dy[i];
                }
                phantom_advance = Some(xs[n - 3] - xs[n - 4]);
            }
            let mut contours = vec![];
            for (i, c) in comps.iter().enumerate() {
                let child = decode_glyph(font, c.glyph.to_u32() as u16, coords, depth + 1)?;
                let t = &c.transform;
                let (xx, yx, xy, yy) = (
                    t.xx.to_f32() as f64,
                    t.yx.to_f32() as f64,
                    t.xy.to_f32() as f64,
                    t.yy.to_f32() as f64,
                );
                for ct in child.contours {
                    contours.push(
                        ct.iter()
                            .map(|(x, y)| (xx * x + xy * y + xs[i], yx * x + yy * y + ys[i]))
                            .collect(),
                    );
                }
            }
            Ok(Decoded {
                contours,
                composite: true,
                bbox: Some((cg.x_min() as f64, cg.y_min() as f64, cg.x_max() as f64, cg.y_max() as f64)),
                phantom_advance,
            })
        }
    }
}

fn gid_for(font: &FontRef, cp: u32) -> Result<u16, String> {
    font.cmap()
        .map_err(|e| format!("cmap: {e}"))?
        .map_codepoint(cp)
        .map(|g| g.to_u32() as u16)
        .ok_or_else(|| format!("U+{cp:04X} not in cmap"))
}

/// a scalar header/OS2/... field by name
fn table_field(font: &FontRef, name: &str) -> Result<f64, String> {
    let e = |t: &str, e: write_fonts::read::ReadError| format!("{t}: {e}");
    let v: f64 = match name {
        "head.unitsPerEm" => font.head().map_err(|x| e("head", x))?.units_per_em() as f64,
        "head.flags" => font.head().map_err(|x| e("head", x))?.flags().bits() as f64,
        "head.lowestRecPPEM" => font.head().map_err(|x| e("head", x))?.lowest_rec_ppem() as f64,
        "hhea.ascender" => font.hhea().map_err(|x| e("hhea", x))?.ascender().to_i16() as f64,
        "hhea.descender" => font.hhea().map_err(|x| e("hhea", x))?.descender().to_i16() as f64,
        "hhea.lineGap" => font.hhea().map_err(|x| e("hhea", x))?.line_gap().to_i16() as f64,
        "hhea.caretOffset" => font.hhea().map_err(|x| e("hhea", x))?.caret_offset() as f64,
        "hhea.caretSlopeRise" => font.hhea().map_err(|x| e("hhea", x))?.caret_slope_rise() as f64,
        "hhea.caretSlopeRun" => font.hhea().map_err(|x| e("hhea", x))?.caret_slope_run() as f64,
        "vhea.ascender" => font.vhea().map_err(|x| e("vhea", x))?.ascender().to_i16() as f64,
        "vhea.descender" => font.vhea().map_err(|x| e("vhea", x))?.descender().to_i16() as f64,
        "vhea.lineGap" => font.vhea().map_err(|x| e("vhea", x))?.line_gap().to_i16() as f64,
        "post.underlinePosition" => font.post().map_err(|x| e("post", x))?.underline_position().to_i16() as f64,
        "post.underlineThickness" => font.post().map_err(|x| e("post", x))?.underline_thickness().to_i16() as f64,
        "maxp.maxPoints" => font.maxp().map_err(|x| e("maxp", x))?.max_points().ok_or("maxp 0.5")? as f64,
        "maxp.maxCompositePoints" => font.maxp().map_err(|x| e("maxp", x))?.max_composite_points().ok_or("maxp 0.5")? as f64,
        "maxp.numGlyphs" => font.maxp().map_err(|x| e("maxp", x))?.num_glyphs() as f64,
        "gasp.rangeMaxPPEM0" | "gasp.behavior0" => {
            let gasp = font.gasp().map_err(|x| e("gasp", x))?;
            let r = gasp.gasp_ranges().first().ok_or("gasp has no range")?;
            if name == "gasp.rangeMaxPPEM0" { r.range_max_ppem() as f64 } else { r.range_gasp_behavior().bits() as f64 }
        }
        _ => {
            let os2 = font.os2().map_err(|x| e("OS/2", x))?;
            match name {
                "OS/2.usWeightClass" => os2.us_weight_class() as f64,
                "OS/2.usWidthClass" => os2.us_width_class() as f64,
                "OS/2.fsType" => os2.fs_type() as f64,
                "OS/2.fsSelection" => os2.fs_selection().bits() as f64,
                "OS/2.sFamilyClass" => os2.s_family_class() as f64,
                "OS/2.panose0" => os2.panose_10()[0] as f64,
                "OS/2.sTypoAscender" => os2.s_typo_ascender() as f64,
                "OS/2.sTypoDescender" => os2.s_typo_descender() as f64,
                "OS/2.sTypoLineGap" => os2.s_typo_line_gap() as f64,
                "OS/2.usWinAscent" => os2.us_win_ascent() as f64,
                "OS/2.usWinDescent" => os2.us_win_descent() as f64,
                "OS/2.sxHeight" => os2.sx_height().ok_or("no sxHeight")? as f64,
                "OS/2.sCapHeight" => os2.s_cap_height().ok_or("no sCapHeight")? as f64,
                "OS/2.ySubscriptXSize" => os2.y_subscript_x_size() as f64,
                "OS/2.ySubscriptYSize" => os2.y_subscript_y_size() as f64,
                "OS/2.ySubscriptXOffset" => os2.y_subscript_x_offset() as f64,
                "OS/2.ySubscriptYOffset" => os2.y_subscript_y_offset() as f64,
                "OS/2.ySuperscriptXSize" => os2.y_superscript_x_size() as f64,
                "OS/2.ySuperscriptYSize" => os2.y_superscript_y_size() as f64,
                "OS/2.ySuperscriptXOffset" => os2.y_superscript_x_offset() as f64,
                "OS/2.ySuperscriptYOffset" => os2.y_superscript_y_offset() as f64,
                "OS/2.yStrikeoutSize" => os2.y_strikeout_size() as f64,
                "OS/2.yStrikeoutPosition" => os2.y_strikeout_position() as f64,
                other => return Err(format!("unknown field {other}")),
            }
        }
    };
    Ok(v)
}

fn mvar_delta(font: &FontRef, tag: &str, coords: &[f64]) -> Result<f64, String> {
    let Ok(mvar) = font.mvar() else {
        return Ok(0.0);
    };
    for r in mvar.value_records() {
        if r.value_tag().to_string() == tag {
            let Some(Ok(ivs)) = mvar.item_variation_store() else {
                return Err("MVAR without store".into());
            };
            return ivs_delta(&ivs, r.delta_set_outer_index(), r.delta_set_inner_index(), coords)
                .ok_or_else(|| "MVAR index out of range".to_string());
        }
    }
    Ok(0.0)
}

fn hvar_delta(font: &FontRef, gid: u16, coords: &[f64]) -> Result<Option<f64>, String> {
    let Ok(hvar) = font.hvar() else {
        return Ok(None);
    };
    let ivs = hvar.item_variation_store().map_err(|e| format!("HVAR store: {e}"))?;
    let (outer, inner) = match hvar.advance_width_mapping() {
        Some(Ok(m)) => {
            let i = m.get(gid as u32).map_err(|e| format!("HVAR map: {e}"))?;
            (i.outer, i.inner)
        }
        Some(Err(e)) => return Err(format!("HVAR map: {e}")),
        None => (0, gid),
    };
    ivs_delta(&ivs, outer, inner, coords)
        .map(Some)
        .ok_or_else(|| "HVAR index out of range".to_string())
}

fn gdef_delta(font: &FontRef, idx: Option<(u16, u16)>, coords: &[f64]) -> Result<f64, String> {
    let Some((o, i)) = idx else {
        return Ok(0.0);
    };
    let gdef = font.gdef().map_err(|e| format!("GDEF: {e}"))?;
    let Some(Ok(ivs)) = gdef.item_var_store() else {
        return Err("variation index without a GDEF store".into());
    };
    ivs_delta(&ivs, o, i, coords).ok_or_else(|| "GDEF store index out of range".to_string())
}

// ------------------------------------------------------------------------------------------
// case model
// ------------------------------------------------------------------------------------------

#[derive(Serialize, Deserialize, Clone, Debug)]
enum Expect {
    /// resolved outline of the glyph at U+cp (default location, and at master 1 = normalized 1.0)
    Outline { cp: u32, default: Vec<Pts>, m1: Option<Vec<Pts>>, tol: f64, src_composite: bool },
    Advance { cp: u32, default: f64, m1: Option<f64> },
    Height { cp: u32, default: f64 },
    Kern { l: u32, r: u32, default: f64, m1: Option<f64> },
    /// base x, base y, mark x, mark y
    Anchors { base: u32, mark: u32, default: [f64; 4], m1: Option<[f64; 4]> },
    Field { name: String, default: f64, m1: Option<(String, f64)> },
    /// bit `bit` of the 16-bit field `name` must be set
    Bit { name: String, bit: u32 },
    NumGlyphs { n: f64 },
}

#[derive(Serialize, Deserialize, Clone, Debug)]
struct Case {
    field: String,
    /// canonical text of the pushed value ("40000", "-20000..20000")
    value: String,
    /// the pushed number (or the derived difference) used to classify a mismatch
    raw: f64,
    /// representable range of the target field and its width in bits
    lo: f64,
    hi: f64,
    bits: u32,
    /// metadata integer (a modular result is called `truncated`) vs geometry (`wrapped`)
    meta: bool,
    /// does the pushed value (and every derived difference) fit the target field
    fits: bool,
    base: String,
    variable: bool,
    flags: Vec<String>,
    design: Option<Design>,
    /// generated instead of embedded: a design with this many glyphs
    big_glyphs: Option<u32>,
    expect: Expect,
}

impl Case {
    fn id(&self) -> String {
        format!("{}:field={}:value={}{}", self.base, self.field, self.value,
            if self.flags.is_empty() { String::new() } else { format!(":flags={}", self.flags.join(",")) })
    }
}

const CP_A: u32 = 0x61;
const CP_B: u32 = 0x62;
const CP_C: u32 = 0x63;
const CP_D: u32 = 0x64;
const CP_MARK: u32 = 0x301;

fn layer_for(name: &str) -> Layer {
    match name {
        "a" => Layer {
            advance: 500.0,
            contours: vec![shapes::rect(50.0, 0.0, 450.0, 700.0)],
            anchors: vec![Anchor { name: "top".into(), x: 250.0, y: 700.0 }],
            ..Default::default()
        },
        "b" => Layer {
            advance: 400.0,
            contours: vec![shapes::rect(60.0, 0.0, 300.0, 500.0)],
            ..Default::default()
        },
        "c" => Layer {
            advance: 900.0,
            components: vec![Component::at("a", 10.0, 20.0), Component::at("b", 520.0, 0.0)],
            ..Default::default()
        },
        "d" => Layer {
            advance: 520.0,
            contours: vec![shapes::rect(40.0, 10.0, 460.0, 690.0)],
            ..Default::default()
        },
        "acutecomb" => Layer {
            advance: 300.0,
            contours: vec![shapes::rect(20.0, 550.0, 120.0, 650.0)],
            anchors: vec![Anchor { name: "_top".into(), x: 70.0, y: 550.0 }],
            ..Default::default()
        },
        _ => unreachable!(),
    }
}

const VHEA_KEYS: [&str; 3] = [
    "openTypeVheaVertTypoAscender",
    "openTypeVheaVertTypoDescender",
    "openTypeVheaVertTypoLineGap",
];

fn base_design(variable: bool, vertical: bool) -> Design {
    let mut d = if variable {
        Design::skeleton(
            "Edge",
            vec![Axis::new("wght", "Weight", 400.0, 400.0, 700.0)],
            vec![vec![400.0], vec![700.0]],
        )
    } else {
        Design::static_font("Edge")
    };
    let nm = d.masters.len();
    for (name, cp) in [("a", CP_A), ("b", CP_B), ("c", CP_C), ("d", CP_D), ("acutecomb", CP_MARK)] {
        let mut g = Glyph::new(name, &[cp]);
        for m in 0..nm {
            let mut l = layer_for(name);
            if vertical {
                l.height = Some(1000.0);
            }
            g.layers.insert(m, l);
        }
        d.glyphs.push(g);
    }
    d.glyph_order = Some(d.glyphs.iter().map(|g| g.name.clone()).collect());
    d.categories.insert("a".into(), "base".into());
    d.categories.insert("b".into(), "base".into());
    d.categories.insert("c".into(), "base".into());
    d.categories.insert("d".into(), "base".into());
    d.categories.insert("acutecomb".into(), "mark".into());
    for m in d.masters.iter_mut() {
        m.kerning.insert(("a".into(), "b".into()), -30.0);
        if vertical {
            m.info.extra.push((VHEA_KEYS[0].into(), Plist::Int(500)));
            m.info.extra.push((VHEA_KEYS[1].into(), Plist::Int(-500)));
            m.info.extra.push((VHEA_KEYS[2].into(), Plist::Int(0)));
        }
    }
    d
}

/// resolved outline of `name` in master `m`, exactly as the source says, with OpenType rounding of
/// point coordinates and component offsets (the only roundings the format requires)
fn design_outline(d: &Design, m: usize, name: &str, depth: usize) -> Vec<Pts> {
    let mut out = vec![];
    if depth > 8 {
        return out;
    }
    let Some(l) = d.glyph(name).and_then(|g| g.layers.get(&m)) else {
        return out;
    };
    for c in &l.contours {
        out.push(c.points.iter().map(|p| (ot_round(p.x), ot_round(p.y))).collect());
    }
    for comp in &l.components {
        let [a, b, c, dd, e, f] = comp.xform;
        let (e, f) = (ot_round(e), ot_round(f));
        for ct in design_outline(d, m, &comp.base, depth + 1) {
            out.push(ct.iter().map(|(x, y)| (a * x + c * y + e, b * x + dd * y + f)).collect());
        }
    }
    out
}

fn fmt_num(v: f64) -> String {
    num(v)
}

fn set_info(d: &mut Design, master: Option<usize>, key: &str, v: Plist) {
    for (i, m) in d.masters.iter_mut().enumerate() {
        if master.is_some_and(|x| x != i) {
            continue;
        }
        match (key, &v) {
            ("ascender", Plist::Int(x)) => m.info.ascender = *x as f64,
            ("ascender", Plist::Real(x)) => m.info.ascender = *x,
            ("descender", Plist::Int(x)) => m.info.descender = *x as f64,
            ("descender", Plist::Real(x)) => m.info.descender = *x,
            ("xHeight", Plist::Int(x)) => m.info.x_height = *x as f64,
            ("xHeight", Plist::Real(x)) => m.info.x_height = *x,
            ("capHeight", Plist::Int(x)) => m.info.cap_height = *x as f64,
            ("capHeight", Plist::Real(x)) => m.info.cap_height = *x,
            _ => {
                m.info.extra.retain(|(k, _)| k != key);
                m.info.extra.push((key.to_string(), v.clone()));
            }
        }
    }
}

const I16: (f64, f64, u32) = (-32768.0, 32767.0, 16);
const U16: (f64, f64, u32) = (0.0, 65535.0, 16);
const U8: (f64, f64, u32) = (0.0, 255.0, 8);

fn i16_vals(t: vcore::Tier) -> Vec<f64> {
    let mut v = vec![
        32766.0, 32767.0, 32768.0, 40000.0, 65535.0, 65536.0, 70000.0, -32767.0, -32768.0, -32769.0,
        -40000.0, -65536.0,
    ];
    if t == vcore::Tier::Thorough {
        v.extend([
            32767.4, 32767.5, -32768.5, -32768.6, 65534.0, 65537.0, 98303.0, 98304.0, 131071.0, 131072.0,
            -65535.0, -65537.0, -70000.0, -131072.0, 2147483647.0, 2147483648.0, -2147483649.0,
            4294967296.0, 1e10, -1e10, 0.0, 1.0, -1.0,
        ]);
    }
    v
}

fn u16_vals(t: vcore::Tier) -> Vec<f64> {
    let mut v = vec![65534.0, 65535.0, 65536.0, 70000.0, 131071.0, -1.0, -10.0, 32768.0];
    if t == vcore::Tier::Thorough {
        v.extend([
            65535.4, 65535.5, -0.4, -0.6, 131072.0, 2147483647.0, 2147483648.0, 4294967296.0, 1e10,
            -65536.0, -32768.0, 0.0, 1.0, 32767.0,
        ]);
    }
    v
}

/// (master 0, master 1) pairs whose values fit i16 individually
fn i16_pairs(t: vcore::Tier) -> Vec<(f64, f64)> {
    let mut v = vec![
        (-20000.0, 20000.0),
        (20000.0, -20000.0),
        (-16384.0, 16383.0),
        (-16384.0, 16384.0),
        (16384.0, -16384.0),
        (16384.0, -16385.0),
        (-32768.0, 32767.0),
    ];
    if t == vcore::Tier::Thorough {
        v.extend([(0.0, 32767.0), (0.0, -32768.0), (32767.0, -32768.0), (-1.0, 32767.0), (1.0, -32768.0), (100.0, 200.0)]);
    }
    v
}

fn u16_pairs(t: vcore::Tier) -> Vec<(f64, f64)> {
    let mut v = vec![(0.0, 65535.0), (65535.0, 0.0), (0.0, 32767.0), (0.0, 32768.0), (32768.0, 0.0), (32769.0, 0.0), (1000.0, 40000.0)];
    if t == vcore::Tier::Thorough {
        v.extend([(40000.0, 1000.0), (1.0, 65535.0), (65535.0, 65534.0)]);
    }
    v
}

struct Gen {
    tier: vcore::Tier,
    cases: Vec<Case>,
}

impl Gen {
    #[allow(clippy::too_many_arguments)]
    fn push(
        &mut self,
        field: &str,
        value: String,
        raw: f64,
        ty: (f64, f64, u32),
        meta: bool,
        fits: bool,
        base: &str,
        d: Design,
        flags: &[&str],
        expect: Expect,
    ) {
        let variable = !d.axes.is_empty();
        self.cases.push(Case {
            field: field.into(),
            value,
            raw,
            lo: ty.0,
            hi: ty.1,
            bits: ty.2,
            meta,
            fits,
            base: base.into(),
            variable,
            flags: flags.iter().map(|s| s.to_string()).collect(),
            design: Some(d),
            big_glyphs: None,
            expect,
        });
    }
}

fn fits(v: f64, ty: (f64, f64, u32)) -> bool {
    let r = ot_round(v);
    r >= ty.0 && r <= ty.1
}

fn outline_expect(d: &Design, cp: u32, name: &str, tol: f64) -> Expect {
    let src_composite = d
        .glyph(name)
        .and_then(|g| g.layers.get(&d.default_master))
        .is_some_and(|l| !l.components.is_empty() && l.contours.is_empty());
    Expect::Outline {
        cp,
        default: design_outline(d, d.default_master, name, 0),
        m1: if d.masters.len() > 1 { Some(design_outline(d, 1, name, 0)) } else { None },
        tol,
        src_composite,
    }
}

fn max_abs(c: &[Pts]) -> f64 {
    c.iter().flatten().fold(0.0f64, |m, p| m.max(p.0.abs()).max(p.1.abs()))
}

// ------------------------------------------------------------------------------------------
// enumeration
// ------------------------------------------------------------------------------------------

/// fontinfo keys with a direct table field: (UFO key, table field, type, MVAR tag)
const METRIC_FIELDS: &[(&str, &str, (f64, f64, u32), Option<&str>)] = &[
    ("openTypeOS2TypoAscender", "OS/2.sTypoAscender", I16, Some("hasc")),
    ("openTypeOS2TypoDescender", "OS/2.sTypoDescender", I16, Some("hdsc")),
    ("openTypeOS2TypoLineGap", "OS/2.sTypoLineGap", I16, Some("hlgp")),
    ("openTypeOS2WinAscent", "OS/2.usWinAscent", U16, Some("hcla")),
    ("openTypeOS2WinDescent", "OS/2.usWinDescent", U16, Some("hcld")),
    ("openTypeHheaAscender", "hhea.ascender", I16, None),
    ("openTypeHheaDescender", "hhea.descender", I16, None),
    ("openTypeHheaLineGap", "hhea.lineGap", I16, None),
    ("openTypeHheaCaretOffset", "hhea.caretOffset", I16, Some("hcof")),
    ("openTypeHheaCaretSlopeRise", "hhea.caretSlopeRise", I16, Some("hcrs")),
    ("openTypeHheaCaretSlopeRun", "hhea.caretSlopeRun", I16, Some("hcrn")),
    ("xHeight", "OS/2.sxHeight", I16, Some("xhgt")),
    ("capHeight", "OS/2.sCapHeight", I16, Some("cpht")),
    ("ascender", "OS/2.sTypoAscender", I16, Some("hasc")),
    ("descender", "OS/2.sTypoDescender", I16, Some("hdsc")),
    ("openTypeOS2SubscriptXSize", "OS/2.ySubscriptXSize", I16, Some("sbxs")),
    ("openTypeOS2SubscriptYSize", "OS/2.ySubscriptYSize", I16, Some("sbys")),
    ("openTypeOS2SubscriptXOffset", "OS/2.ySubscriptXOffset", I16, Some("sbxo")),
    ("openTypeOS2SubscriptYOffset", "OS/2.ySubscriptYOffset", I16, Some("sbyo")),
    ("openTypeOS2SuperscriptXSize", "OS/2.ySuperscriptXSize", I16, Some("spxs")),
    ("openTypeOS2SuperscriptYSize", "OS/2.ySuperscriptYSize", I16, Some("spys")),
    ("openTypeOS2SuperscriptXOffset", "OS/2.ySuperscriptXOffset", I16, Some("spxo")),
    ("openTypeOS2SuperscriptYOffset", "OS/2.ySuperscriptYOffset", I16, Some("spyo")),
    ("openTypeOS2StrikeoutSize", "OS/2.yStrikeoutSize", I16, Some("strs")),
    ("openTypeOS2StrikeoutPosition", "OS/2.yStrikeoutPosition", I16, Some("stro")),
    ("postscriptUnderlinePosition", "post.underlinePosition", I16, Some("undo")),
    ("postscriptUnderlineThickness", "post.underlineThickness", I16, Some("unds")),
    ("openTypeHeadLowestRecPPEM", "head.lowestRecPPEM", U16, None),
];

const VERT_FIELDS: &[(&str, &str)] = &[
    ("openTypeVheaVertTypoAscender", "vhea.ascender"),
    ("openTypeVheaVertTypoDescender", "vhea.descender"),
    ("openTypeVheaVertTypoLineGap", "vhea.lineGap"),
];

fn set_pt(d: &mut Design, master: Option<usize>, glyph: &str, ci: usize, pi: usize, x: Option<f64>, y: Option<f64>) {
    let g = d.glyph_mut(glyph).unwrap();
    for (m, l) in g.layers.iter_mut() {
        if master.is_some_and(|k| k != *m) {
            continue;
        }
        let p = &mut l.contours[ci].points[pi];
        if let Some(x) = x {
            p.x = x;
        }
        if let Some(y) = y {
            p.y = y;
        }
    }
}

fn each_layer(d: &mut Design, master: Option<usize>, glyph: &str, f: impl Fn(&mut Layer)) {
    let g = d.glyph_mut(glyph).unwrap();
    for (m, l) in g.layers.iter_mut() {
        if master.is_some_and(|k| k != *m) {
            continue;
        }
        f(l);
    }
}

fn enumerate(tier: vcore::Tier) -> Vec<Case> {
    let thorough = tier == vcore::Tier::Thorough;
    let mut g = Gen { tier, cases: vec![] };
    let bases: Vec<(&str, bool)> = if thorough { vec![("static", false), ("var", true)] } else { vec![("static", false)] };
    let flag_sets: Vec<Vec<&str>> = if thorough {
        vec![vec![], vec!["--decompose-components"], vec!["--flatten-components=true"], vec!["--keep-direction"]]
    } else {
        vec![vec![]]
    };

    // ---- single values, same in every master
    for (bname, variable) in &bases {
        let base = base_design(*variable, false);
        for flags in &flag_sets {
            // point coordinates of glyph d (point 2 of its rectangle = (460, 690))
            for v in i16_vals(g.tier) {
                for (field, isx) in [("point.x", true), ("point.y", false)] {
                    let mut d = base.clone();
                    set_pt(&mut d, None, "d", 0, 2, isx.then_some(v), (!isx).then_some(v));
                    let e = outline_expect(&d, CP_D, "d", 0.0);
                    g.push(field, fmt_num(v), v, I16, false, fits(v, I16), bname, d, flags, e);
                }
                // component offsets of c's first component
                for (field, k) in [("component.dx", 4usize), ("component.dy", 5usize)] {
                    let mut d = base.clone();
                    each_layer(&mut d, None, "c", |l| l.components[0].xform[k] = v);
                    // the resolved coordinates must fit too (offset + base coordinate)
                    let e = outline_expect(&d, CP_C, "c", 0.0);
                    let ok = match &e {
                        Expect::Outline { default, .. } => fits(v, I16) && max_abs(default) <= 32767.0,
                        _ => false,
                    };
                    g.push(field, fmt_num(v), v, I16, false, ok, bname, d, flags, e);
                }
            }
            // successive-point difference beyond 16 bits although both coordinates fit
            for (lo, hi) in [(-20000.0, 20000.0), (-16383.0, 16384.0), (-16384.0, 16384.0), (-32768.0, 32767.0), (-16385.0, 16384.0)] {
                for (field, isx) in [("point.dx", true), ("point.dy", false)] {
                    let mut d = base.clone();
                    each_layer(&mut d, None, "d", |l| {
                        l.contours[0] = if isx { shapes::rect(lo, 10.0, hi, 690.0) } else { shapes::rect(40.0, lo, 460.0, hi) }
                    });
                    let e = outline_expect(&d, CP_D, "d", 0.0);
                    let diff = hi - lo;
                    g.push(field, format!("{}..{}", fmt_num(lo), fmt_num(hi)), diff, I16, false, diff <= 32767.0, bname, d, flags, e);
                }
            }
            // the same between the last point of one contour and the first point of the next (glyf encodes the
            // first point of a contour relative to the last point of the previous contour)
            for (lo, hi) in [(-20000.0, 20000.0), (-16383.0, 16384.0), (-32768.0, 32767.0)] {
                for (field, isx) in [("point.dx-between-contours", true), ("point.dy-between-contours", false)] {
                    let mut d = base.clone();
                    each_layer(&mut d, None, "d", |l| {
                        let (a, b) = if isx {
                            (shapes::rect(lo, 10.0, lo + 100.0, 690.0), shapes::rect(hi - 100.0, 10.0, hi, 690.0))
                        } else {
                            (shapes::rect(40.0, lo, 460.0, lo + 100.0), shapes::rect(40.0, hi - 100.0, 460.0, hi))
                        };
                        l.contours = vec![a, b];
                    });
                    let e = outline_expect(&d, CP_D, "d", 0.0);
                    // every step inside a contour is small. Whichever points end up adjacent across the two contours, their
                    // distance lies between (hi - 100) - (lo + 100) and hi - lo: the cases are chosen so that both bounds
                    // are on the same side of 32767
                    let (least, most) = (hi - 100.0 - (lo + 100.0), hi - lo);
                    assert!(most <= 32767.0 || least > 32767.0);
                    g.push(field, format!("{}..{}", fmt_num(lo), fmt_num(hi)), most, I16, false, most <= 32767.0, bname, d, flags, e);
                }
            }
            // component placed so that only the RESOLVED coordinate leaves the range
            for (px, dx) in [(32767.0, 10.0), (32000.0, 767.0), (32000.0, 768.0), (-32768.0, -10.0)] {
                let mut d = base.clone();
                set_pt(&mut d, None, "a", 0, 2, Some(px), None);
                each_layer(&mut d, None, "c", |l| l.components[0].xform[4] = dx);
                let e = outline_expect(&d, CP_C, "c", 0.0);
                let sum = px + dx;
                g.push("component.resolved-x", format!("{}+{}", fmt_num(px), fmt_num(dx)), sum, I16, false, fits(sum, I16), bname, d, flags, e);
            }
            // component 2x2 entries
            let mut scales = vec![1.99993896484375, -1.99993896484375, 2.0, -2.0, 2.5, -2.5, 3.0, 1.99994, 1.99997, 1.5, -1.0];
            if thorough {
                scales.extend([2.000001, -2.000001, 1.999999, 4.0, -4.0, 100.0, 32768.0, 0.5, 0.0]);
            }
            for v in scales {
                for (field, k) in [("component.xx", 0usize), ("component.xy", 1), ("component.yx", 2), ("component.yy", 3)] {
                    let mut d = base.clone();
                    each_layer(&mut d, None, "c", |l| l.components[0].xform[k] = v);
                    // tolerance: 0.5 for integer rounding when the compiler decomposes, plus the
                    // 2.14 quantum (2^-14, which also covers the documented saturation of exactly
                    // 2.0 to 2 - 2^-14) times the largest base coordinate
                    let tol = 0.5 + max_abs(&design_outline(&d, 0, "a", 0)) / 16384.0;
                    let e = outline_expect(&d, CP_C, "c", tol);
                    let f2 = (-2.0, 2.0, 16);
                    g.push(field, format!("{v}"), v, f2, false, (-2.0..=2.0).contains(&v), bname, d, flags, e);
                }
            }
            // advance width of d
            for v in u16_vals(g.tier) {
                let mut d = base.clone();
                each_layer(&mut d, None, "d", |l| l.advance = v);
                g.push("advance", fmt_num(v), v, U16, false, fits(v, U16), bname, d, flags,
                    Expect::Advance { cp: CP_D, default: ot_round(v), m1: variable.then_some(ot_round(v)) });
            }
        }
        // advance height (vertical metrics enabled)
        let vbase = base_design(*variable, true);
        for v in u16_vals(g.tier) {
            let mut d = vbase.clone();
            each_layer(&mut d, None, "d", |l| l.height = Some(v));
            g.push("height", fmt_num(v), v, U16, false, fits(v, U16), bname, d, &[], Expect::Height { cp: CP_D, default: ot_round(v) });
        }
        for (key, name) in VERT_FIELDS {
            for v in i16_vals(g.tier) {
                let mut d = vbase.clone();
                set_info(&mut d, None, key, Plist::num(v));
                g.push(key, fmt_num(v), v, I16, true, fits(v, I16), bname, d, &[],
                    Expect::Field { name: name.to_string(), default: ot_round(v), m1: None });
            }
        }
        // kerning value
        for v in i16_vals(g.tier) {
            let mut d = base.clone();
            for m in d.masters.iter_mut() {
                m.kerning.insert(("a".into(), "b".into()), v);
            }
            g.push("kerning", fmt_num(v), v, I16, false, fits(v, I16), bname, d, &[],
                Expect::Kern { l: CP_A, r: CP_B, default: ot_round(v), m1: variable.then_some(ot_round(v)) });
        }
        // anchor coordinates
        for v in i16_vals(g.tier) {
            for (field, glyph, isx, slot) in [
                ("anchor.base.x", "a", true, 0usize),
                ("anchor.base.y", "a", false, 1),
                ("anchor.mark.x", "acutecomb", true, 2),
                ("anchor.mark.y", "acutecomb", false, 3),
            ] {
                let mut d = base.clone();
                each_layer(&mut d, None, glyph, |l| if isx { l.anchors[0].x = v } else { l.anchors[0].y = v });
                let mut exp = [250.0, 700.0, 70.0, 550.0];
                exp[slot] = ot_round(v);
                g.push(field, fmt_num(v), v, I16, false, fits(v, I16), bname, d, &[],
                    Expect::Anchors { base: CP_A, mark: CP_MARK, default: exp, m1: variable.then_some(exp) });
            }
        }
        // global metrics
        for (key, name, ty, _) in METRIC_FIELDS {
            let vals = if *ty == U16 { u16_vals(g.tier) } else { i16_vals(g.tier) };
            for v in vals {
                let mut d = base.clone();
                set_info(&mut d, None, key, Plist::num(v));
                g.push(key, fmt_num(v), v, *ty, true, fits(v, *ty), bname, d, &[],
                    Expect::Field { name: name.to_string(), default: ot_round(v), m1: None });
            }
        }
        // unitsPerEm
        let mut upems = vec![15u32, 16, 1000, 16384, 16385, 0, 32768, 65535, 65536];
        if thorough {
            upems.extend([1, 17, 16383, 65537, 70000, 131072, 4294967295]);
        }
        for v in upems {
            let mut d = base.clone();
            d.upem = v;
            let ok = (16..=16384).contains(&v);
            g.push("unitsPerEm", v.to_string(), v as f64, (16.0, 16384.0, 16), true, ok, bname, d, &[],
                Expect::Field { name: "head.unitsPerEm".into(), default: v as f64, m1: None });
        }
        // OS/2 classes
        let mut weights = vec![0.0, 1.0, 400.0, 1000.0, 1001.0, 65535.0, 65536.0, 70000.0];
        if thorough {
            weights.extend([65534.0, 65537.0, 131072.0, 2147483647.0, 4294967295.0, 4294967296.0, -1.0]);
        }
        for v in weights {
            let mut d = base.clone();
            set_info(&mut d, None, "openTypeOS2WeightClass", Plist::num(v));
            g.push("openTypeOS2WeightClass", fmt_num(v), v, U16, true, fits(v, U16), bname, d, &[],
                Expect::Field { name: "OS/2.usWeightClass".into(), default: v, m1: None });
        }
        for v in [0.0, 1.0, 5.0, 9.0, 10.0, 65535.0, 65536.0] {
            let mut d = base.clone();
            set_info(&mut d, None, "openTypeOS2WidthClass", Plist::num(v));
            g.push("openTypeOS2WidthClass", fmt_num(v), v, U16, true, fits(v, U16), bname, d, &[],
                Expect::Field { name: "OS/2.usWidthClass".into(), default: v, m1: None });
        }
        // bit-index lists
        let mut bit_idx = vec![0u32, 2, 7, 15, 16, 31, 255];
        if thorough {
            bit_idx.extend([1, 3, 8, 9, 14, 17, 32, 63, 64, 127, 128, 254, 256, 65536]);
        }
        for (key, name) in [
            ("openTypeOS2Selection", "OS/2.fsSelection"),
            ("openTypeOS2Type", "OS/2.fsType"),
            ("openTypeHeadFlags", "head.flags"),
        ] {
            for b in &bit_idx {
                let mut d = base.clone();
                set_info(&mut d, None, key, Plist::Array(vec![Plist::Int(*b as i64)]));
                g.push(key, format!("[{b}]"), *b as f64, (0.0, 15.0, 16), true, *b < 16, bname, d, &[],
                    Expect::Bit { name: name.to_string(), bit: *b });
            }
        }
        // gasp
        for v in [65534.0, 65535.0, 65536.0, 70000.0] {
            let mut d = base.clone();
            let rec = Plist::Dict(vec![
                ("rangeMaxPPEM".into(), Plist::num(v)),
                ("rangeGaspBehavior".into(), Plist::Array(vec![Plist::Int(0)])),
            ]);
            set_info(&mut d, None, "openTypeGaspRangeRecords", Plist::Array(vec![rec]));
            g.push("gasp.rangeMaxPPEM", fmt_num(v), v, U16, true, fits(v, U16), bname, d, &[],
                Expect::Field { name: "gasp.rangeMaxPPEM0".into(), default: v, m1: None });
        }
        for b in [0u32, 3, 4, 15, 16, 31, 255] {
            let mut d = base.clone();
            let rec = Plist::Dict(vec![
                ("rangeMaxPPEM".into(), Plist::Int(65535)),
                ("rangeGaspBehavior".into(), Plist::Array(vec![Plist::Int(b as i64)])),
            ]);
            set_info(&mut d, None, "openTypeGaspRangeRecords", Plist::Array(vec![rec]));
            g.push("gasp.rangeGaspBehavior", format!("[{b}]"), b as f64, (0.0, 15.0, 16), true, b < 16, bname, d, &[],
                Expect::Bit { name: "gasp.behavior0".into(), bit: b });
        }
        // panose (u8)
        for v in [254.0, 255.0, 256.0, 65536.0] {
            let mut d = base.clone();
            let mut arr = vec![Plist::Int(0); 10];
            arr[0] = Plist::num(v);
            set_info(&mut d, None, "openTypeOS2Panose", Plist::Array(arr));
            g.push("openTypeOS2Panose[0]", fmt_num(v), v, U8, true, fits(v, U8), bname, d, &[],
                Expect::Field { name: "OS/2.panose0".into(), default: v, m1: None });
        }
    }

    // ---- point counts: every coordinate fits, the COUNT (maxp uint16, endPtsOfContours uint16) may not
    {
        let squares = |n: usize| -> Vec<Contour> {
            (0..n / 4)
                .map(|k| {
                    let (x, y) = ((k % 200) as f64 * 100.0, (k / 200) as f64 * 100.0);
                    shapes::rect(x, y, x + 50.0, y + 50.0)
                })
                .collect()
        };
        let mut simple = vec![65532usize, 65536, 70000];
        if thorough {
            simple.extend([65528, 65540, 131072]);
        }
        for n in simple {
            let mut d = base_design(false, false);
            each_layer(&mut d, None, "d", |l| l.contours = squares(n));
            g.push("pointCount.simple", n.to_string(), n as f64, U16, true, n <= 65535, "static", d, &[],
                Expect::Field { name: "maxp.maxPoints".into(), default: n as f64, m1: None });
        }
        let mut comp = vec![32000usize, 32768, 33000];
        if thorough {
            comp.extend([32764, 32772, 40000]);
        }
        for n in comp {
            let mut d = base_design(false, false);
            each_layer(&mut d, None, "a", |l| l.contours = squares(n));
            each_layer(&mut d, None, "c", |l| l.components = vec![Component::at("a", 0.0, 0.0), Component::at("a", 0.0, 20000.0)]);
            g.push("pointCount.composite", format!("2x{n}"), 2.0 * n as f64, U16, true, 2 * n <= 65535, "static", d, &[],
                Expect::Field { name: "maxp.maxCompositePoints".into(), default: 2.0 * n as f64, m1: None });
        }
    }

    // ---- variable base: every master value fits, the DELTA may not
    {
        let base = base_design(true, false);
        for (v0, v1) in i16_pairs(g.tier) {
            let delta = v1 - v0;
            let txt = format!("{}..{}", fmt_num(v0), fmt_num(v1));
            let dfit = fits(delta, I16);
            for (field, isx) in [("gvar.point.x", true), ("gvar.point.y", false)] {
                let mut d = base.clone();
                set_pt(&mut d, Some(0), "d", 0, 2, isx.then_some(v0), (!isx).then_some(v0));
                set_pt(&mut d, Some(1), "d", 0, 2, isx.then_some(v1), (!isx).then_some(v1));
                let e = outline_expect(&d, CP_D, "d", 0.0);
                g.push(field, txt.clone(), delta, I16, false, dfit, "var", d, &[], e);
            }
            for (field, k) in [("gvar.component.dx", 4usize), ("gvar.component.dy", 5)] {
                let mut d = base.clone();
                each_layer(&mut d, Some(0), "c", |l| l.components[0].xform[k] = v0);
                each_layer(&mut d, Some(1), "c", |l| l.components[0].xform[k] = v1);
                let e = outline_expect(&d, CP_C, "c", 0.0);
                g.push(field, txt.clone(), delta, I16, false, dfit, "var", d, &[], e);
            }
            // GPOS deltas live in an ItemVariationStore, which has 32-bit deltas: these fit
            {
                let mut d = base.clone();
                d.masters[0].kerning.insert(("a".into(), "b".into()), v0);
                d.masters[1].kerning.insert(("a".into(), "b".into()), v1);
                g.push("var.kerning", txt.clone(), delta, (-2147483648.0, 2147483647.0, 32), false, true, "var", d, &[],
                    Expect::Kern { l: CP_A, r: CP_B, default: v0, m1: Some(v1) });
            }
            for (field, glyph, isx, slot) in [("var.anchor.base.x", "a", true, 0usize), ("var.anchor.mark.y", "acutecomb", false, 3)] {
                let mut d = base.clone();
                each_layer(&mut d, Some(0), glyph, |l| if isx { l.anchors[0].x = v0 } else { l.anchors[0].y = v0 });
                each_layer(&mut d, Some(1), glyph, |l| if isx { l.anchors[0].x = v1 } else { l.anchors[0].y = v1 });
                let mut e0 = [250.0, 700.0, 70.0, 550.0];
                let mut e1 = e0;
                e0[slot] = v0;
                e1[slot] = v1;
                g.push(field, txt.clone(), delta, (-2147483648.0, 2147483647.0, 32), false, true, "var", d, &[],
                    Expect::Anchors { base: CP_A, mark: CP_MARK, default: e0, m1: Some(e1) });
            }
            for key in ["xHeight", "openTypeOS2TypoAscender", "postscriptUnderlinePosition", "openTypeOS2StrikeoutSize"] {
                let (_, name, _, tag) = METRIC_FIELDS.iter().find(|f| f.0 == key).unwrap();
                let mut d = base.clone();
                set_info(&mut d, Some(0), key, Plist::num(v0));
                set_info(&mut d, Some(1), key, Plist::num(v1));
                g.push(&format!("mvar.{key}"), txt.clone(), delta, (-2147483648.0, 2147483647.0, 32), true, true, "var", d, &[],
                    Expect::Field { name: name.to_string(), default: v0, m1: Some((tag.unwrap().to_string(), v1)) });
            }
        }
        for (v0, v1) in u16_pairs(g.tier) {
            let delta = v1 - v0;
            let txt = format!("{}..{}", fmt_num(v0), fmt_num(v1));
            let mut d = base.clone();
            each_layer(&mut d, Some(0), "d", |l| l.advance = v0);
            each_layer(&mut d, Some(1), "d", |l| l.advance = v1);
            // HVAR could hold it (32-bit deltas) but the gvar phantom point delta is an int16
            g.push("hvar.advance", txt.clone(), delta, I16, false, fits(delta, I16), "var", d, &[],
                Expect::Advance { cp: CP_D, default: v0, m1: Some(v1) });
            let mut d = base.clone();
            set_info(&mut d, Some(0), "openTypeOS2WinAscent", Plist::num(v0));
            set_info(&mut d, Some(1), "openTypeOS2WinAscent", Plist::num(v1));
            g.push("mvar.openTypeOS2WinAscent", txt, delta, (-2147483648.0, 2147483647.0, 32), true, true, "var", d, &[],
                Expect::Field { name: "OS/2.usWinAscent".into(), default: v0, m1: Some(("hcla".into(), v1)) });
        }
    }

    // ---- glyph count (thorough): generated on the fly, not embedded
    if thorough {
        // 65279 = .notdef + 65278 custom names is the most a version-2 post table can index
        // (glyphNameIndex is a uint16 and custom names start at 258)
        for n in [65279u32, 65280, 65535, 65536, 65537] {
            g.cases.push(Case {
                field: "glyphCount".into(),
                value: n.to_string(),
                raw: n as f64,
                lo: 0.0,
                hi: 65535.0,
                bits: 16,
                meta: true,
                fits: n <= 65279,
                base: "static".into(),
                variable: false,
                flags: vec![],
                design: None,
                big_glyphs: Some(n),
                expect: Expect::NumGlyphs { n: n as f64 },
            });
        }
    }
    g.cases
}

fn big_design(n: u32) -> Design {
    let mut d = Design::static_font("Many");
    let mut nd = Glyph::new(".notdef", &[]);
    nd.layers.insert(0, Layer { advance: 500.0, contours: vec![shapes::rect(50.0, 0.0, 450.0, 700.0)], ..Default::default() });
    d.glyphs.push(nd);
    for i in 1..n {
        let mut g = Glyph::new(&format!("g{i:05}"), if i == 1 { &[0x61] } else { &[] });
        g.layers.insert(0, Layer { advance: 500.0, ..Default::default() });
        d.glyphs.push(g);
    }
    d.glyph_order = Some(d.glyphs.iter().map(|g| g.name.clone()).collect());
    d
}

// ------------------------------------------------------------------------------------------
// running the two product binaries
// ------------------------------------------------------------------------------------------

#[derive(Debug, Clone)]
enum Outcome {
    Font(Vec<u8>),
    /// exit 1 with a message; `panicked` = the message reports a caught task panic
    Error { msg: String, panicked: bool },
    Crash(String),
}

impl Outcome {
    fn short(&self) -> String {
        match self {
            Outcome::Font(b) => format!("exit 0, font of {} bytes", b.len()),
            Outcome::Error { msg, panicked } => format!(
                "exit 1{}: {}",
                if *panicked { " (task panic)" } else { "" },
                msg.lines().last().unwrap_or("").chars().take(220).collect::<String>()
            ),
            Outcome::Crash(s) => format!("CRASH {s}"),
        }
    }
}

fn run_one(bin: &std::path::Path, src: &std::path::Path, work: &std::path::Path, tag: &str, flags: &[String], timeout_ms: u64) -> Outcome {
    let out = work.join(format!("{tag}.ttf"));
    let build = work.join(format!("build-{tag}"));
    let seed = vcore::shim_path().exists().then_some(1);
    let mut cmd = vcore::fontc_cmd(bin, seed);
    // every fontc process would otherwise start one worker thread per core while many cases run
    // side by side; two workers keep the parallel scheduler in play without thrashing the box
    cmd.env("RAYON_NUM_THREADS", "2");
    cmd.arg(src).arg("--build-dir").arg(&build).arg("-o").arg(&out);
    for f in flags {
        cmd.arg(f);
    }
    let r = vcore::run_proc(&mut cmd, timeout_ms, Some(4 << 30));
    if r.timed_out {
        return Outcome::Crash(format!("timeout after {timeout_ms} ms"));
    }
    if let Some(s) = r.signal {
        return Outcome::Crash(format!("signal {s}: {}", r.stderr.lines().last().unwrap_or("")));
    }
    match r.code {
        Some(0) => match std::fs::read(&out) {
            Ok(b) => Outcome::Font(b),
            Err(e) => Outcome::Crash(format!("exit 0 but no output file: {e}")),
        },
        Some(1) => {
            let msg = format!("{}{}", r.stdout, r.stderr);
            if msg.trim().is_empty() {
                Outcome::Crash("exit 1 without any message".into())
            } else {
                let panicked = msg.contains("panicked");
                Outcome::Error { msg, panicked }
            }
        }
        other => Outcome::Crash(format!(
            "exit code {other:?}: {}",
            r.stderr.lines().rev().take(3).collect::<Vec<_>>().join(" | ")
        )),
    }
}

// ------------------------------------------------------------------------------------------
// judging an emitted font
// ------------------------------------------------------------------------------------------

#[derive(Debug, Clone)]
struct Problem {
    class: &'static str,
    what: String,
}

fn wrap(v: f64, bits: u32, signed: bool) -> f64 {
    let m = 2f64.powi(bits as i32);
    let r = ot_round(v).rem_euclid(m);
    if signed && r >= m / 2.0 { r - m } else { r }
}

/// name the way `got` differs from the source value `src`
fn classify(c: &Case, src: f64, got: f64) -> &'static str {
    let signed = c.lo < 0.0;
    let s = ot_round(src);
    if s > c.hi && got == c.hi || s < c.lo && got == c.lo {
        return "clamped";
    }
    if (s > c.hi || s < c.lo) && (got == wrap(s, c.bits, signed) || got == wrap(s, c.bits, !signed)) {
        return if c.meta { "truncated" } else { "wrapped" };
    }
    if s >= c.lo && s <= c.hi {
        // a representable value was replaced by another one
        return "clamped";
    }
    "mismatch"
}

fn dedup_collinear(c: &Pts) -> Pts {
    let mut p: Pts = vec![];
    for q in c {
        if p.last() != Some(q) {
            p.push(*q);
        }
    }
    while p.len() > 1 && p.first() == p.last() {
        p.pop();
    }
    let mut changed = true;
    while changed && p.len() > 2 {
        changed = false;
        let n = p.len();
        for i in 0..n {
            let (a, b, cc) = (p[(i + n - 1) % n], p[i], p[(i + 1) % n]);
            let cross = (b.0 - a.0) * (cc.1 - a.1) - (b.1 - a.1) * (cc.0 - a.0);
            let dot = (b.0 - a.0) * (cc.0 - b.0) + (b.1 - a.1) * (cc.1 - b.1);
            if cross == 0.0 && dot > 0.0 {
                p.remove(i);
                changed = true;
                break;
            }
        }
    }
    p
}

fn contour_eq(a: &Pts, b: &Pts, tol: f64) -> bool {
    let try_eq = |a: &Pts, b: &Pts| -> bool {
        let n = a.len();
        if n != b.len() {
            return false;
        }
        if n == 0 {
            return true;
        }
        for shift in 0..n {
            for dir in [1i64, -1] {
                if (0..n).all(|i| {
                    let j = (shift as i64 + dir * i as i64).rem_euclid(n as i64) as usize;
                    (a[i].0 - b[j].0).abs() <= tol && (a[i].1 - b[j].1).abs() <= tol
                }) {
                    return true;
                }
            }
        }
        false
    };
    try_eq(a, b) || try_eq(&dedup_collinear(a), &dedup_collinear(b))
}

fn outlines_eq(exp: &[Pts], got: &[Pts], tol: f64) -> bool {
    if exp.len() != got.len() {
        return false;
    }
    let mut used = vec![false; got.len()];
    'outer: for e in exp {
        for (i, g) in got.iter().enumerate() {
            if !used[i] && contour_eq(e, g, tol) {
                used[i] = true;
                continue 'outer;
            }
        }
        return false;
    }
    true
}

fn bbox_of(c: &[Pts]) -> Option<(f64, f64, f64, f64)> {
    let mut it = c.iter().flatten();
    let f = it.next()?;
    let mut b = (f.0, f.1, f.0, f.1);
    for p in it {
        b = (b.0.min(p.0), b.1.min(p.1), b.2.max(p.0), b.3.max(p.1));
    }
    Some(b)
}

/// classify an outline mismatch from the coordinates that appear in the font but not in the source
fn classify_outline(c: &Case, exp: &[Pts], got: &[Pts]) -> &'static str {
    let expc: Vec<f64> = exp.iter().flatten().flat_map(|p| [p.0, p.1]).collect();
    let gotc: Vec<f64> = got.iter().flatten().flat_map(|p| [p.0, p.1]).collect();
    let novel: Vec<f64> = gotc.iter().copied().filter(|v| !expc.contains(v)).collect();
    let lost: Vec<f64> = expc.iter().copied().filter(|v| !gotc.contains(v)).collect();
    if c.bits == 16 && c.lo == -2.0 {
        // a 2.14 scale: the shape differs by more than the derived tolerance
        return if c.raw.abs() > 2.0 { "clamped" } else { "mismatch" };
    }
    let lost_out = lost.iter().any(|v| *v > 32767.0 || *v < -32768.0);
    if lost_out && gotc.iter().any(|v| *v == 32767.0 || *v == -32768.0) {
        return "clamped";
    }
    // clamped to a bound and then displaced by 2^16 (the difference to the neighbour wrapped as well)
    if lost_out && novel.iter().any(|n| [32767.0, -32768.0].iter().any(|b| (n - b).rem_euclid(65536.0) == 0.0)) {
        return "clamped";
    }
    // a coordinate that is off by a multiple of 2^16: a 16-bit value or difference wrapped around
    if lost.iter().any(|l| novel.iter().any(|n| n != l && (n - l).rem_euclid(65536.0) == 0.0)) {
        return "wrapped";
    }
    if lost.iter().any(|l| novel.contains(&wrap(*l, 16, true))) {
        return "wrapped";
    }
    if novel.contains(&wrap(c.raw, 16, true)) {
        return "wrapped";
    }
    // a component offset: every lost coordinate reappears shifted by (source - stored offset)
    let r = ot_round(c.raw);
    for (stored, class) in [(32767.0, "clamped"), (-32768.0, "clamped"), (wrap(r, 16, true), "wrapped")] {
        let shift = r - stored;
        if shift != 0.0 && !lost.is_empty() && lost.iter().all(|l| novel.contains(&(l - shift))) {
            return class;
        }
    }
    "mismatch"
}

#[derive(Default, Debug, Clone)]
struct Judged {
    problems: Vec<Problem>,
    decomposed: bool,
    reserved_bit_dropped: bool,
}

fn judge(c: &Case, bytes: &[u8]) -> Result<Judged, String> {
    let font = FontRef::new(bytes).map_err(|e| format!("font does not parse: {e}"))?;
    let mut j = Judged::default();
    let mut reserved_dropped = false;
    let m1c = [1.0f64];
    let mut bad = |class: &'static str, what: String| j.problems.push(Problem { class, what });
    match &c.expect {
        Expect::Outline { cp, default, m1, tol, src_composite } => {
            let gid = gid_for(&font, *cp)?;
            let dec = decode_glyph(&font, gid, None, 0)?;
            let decomposed = *src_composite && !dec.composite;
            if !outlines_eq(default, &dec.contours, *tol) {
                bad(classify_outline(c, default, &dec.contours),
                    format!("default outline: source {default:?}, font {:?}{}", dec.contours, if decomposed { " (decomposed)" } else { "" }));
            } else if *tol == 0.0 {
                // exact case: header bbox and left side bearing must describe the same outline
                let eb = bbox_of(default);
                if dec.bbox != eb {
                    let cl = match (dec.bbox, eb) {
                        (Some(g), Some(e)) => {
                            let gs = [g.0, g.1, g.2, g.3];
                            let es = [e.0, e.1, e.2, e.3];
                            if gs.iter().zip(es).any(|(g, e)| (e > 32767.0 && *g == 32767.0) || (e < -32768.0 && *g == -32768.0)) {
                                "clamped"
                            } else if gs.iter().zip(es).any(|(g, e)| *g != e && *g == wrap(e, 16, true)) {
                                "wrapped"
                            } else {
                                "mismatch"
                            }
                        }
                        _ => "mismatch",
                    };
                    bad(cl, format!("glyph bbox: source {eb:?}, font header {:?}", dec.bbox));
                }
                let lsb = font.hmtx().ok().and_then(|h| h.side_bearing(GlyphId::new(gid as u32))).map(|v| v as f64);
                if let (Some(l), Some(e)) = (lsb, eb) {
                    if l != e.0 {
                        bad(classify(c, e.0, l), format!("hmtx lsb {l}, source xMin {}", e.0));
                    }
                }
            }
            if let Some(m1) = m1 {
                let dv = decode_glyph(&font, gid, Some(&m1c), 0)?;
                if !outlines_eq(m1, &dv.contours, *tol) {
                    // name the delta that went wrong
                    let cl = {
                        let e: Vec<f64> = m1.iter().flatten().flat_map(|p| [p.0, p.1]).collect();
                        let g: Vec<f64> = dv.contours.iter().flatten().flat_map(|p| [p.0, p.1]).collect();
                        let novel: Vec<f64> = g.iter().copied().filter(|v| !e.contains(v)).collect();
                        let d0: Vec<f64> = default.iter().flatten().flat_map(|p| [p.0, p.1]).collect();
                        let want = c.raw;
                        if novel.iter().any(|n| e.iter().any(|x| n != x && (n - x).rem_euclid(65536.0) == 0.0)) {
                            "wrapped"
                        } else if novel.iter().any(|n| d0.iter().any(|d| n - d == 32767.0 || n - d == -32768.0)) {
                            "clamped"
                        } else if novel.iter().any(|n| d0.iter().any(|d| n - d == wrap(want, 16, true))) {
                            "wrapped"
                        } else {
                            "mismatch"
                        }
                    };
                    bad(cl, format!("outline at master 1 (gvar): source {m1:?}, font {:?}", dv.contours));
                }
            }
            j.decomposed = decomposed;
        }
        Expect::Advance { cp, default, m1 } => {
            let gid = gid_for(&font, *cp)?;
            let adv = font.hmtx().map_err(|e| format!("hmtx: {e}"))?.advance(GlyphId::new(gid as u32)).ok_or("no advance")? as f64;
            if adv != *default {
                bad(classify(c, if m1.is_some() && c.field.starts_with("hvar") { *default } else { c.raw }, adv),
                    format!("hmtx advance {adv}, source {default}"));
            }
            if let Some(m1) = m1 {
                if let Some(dl) = hvar_delta(&font, gid, &m1c)? {
                    if adv + dl != *m1 {
                        bad(classify(c, m1 - default, adv + dl - default), format!("HVAR: advance at master 1 = {} + {dl}, source {m1}", adv));
                    }
                }
                let dv = decode_glyph(&font, gid, Some(&m1c), 0)?;
                if let Some(pa) = dv.phantom_advance {
                    if pa != *m1 {
                        bad(classify(c, m1 - default, pa - default), format!("gvar phantom points: advance at master 1 = {pa}, source {m1}"));
                    }
                }
            }
        }
        Expect::Height { cp, default } => {
            let gid = gid_for(&font, *cp)?;
            let vmtx = font.vmtx().map_err(|e| format!("vmtx: {e}"))?;
            let h = vmtx.advance(GlyphId::new(gid as u32)).ok_or("no vmtx advance")? as f64;
            if h != *default {
                bad(classify(c, c.raw, h), format!("vmtx advance height {h}, source {default}"));
            }
        }
        Expect::Kern { l, r, default, m1 } => {
            let (g1, g2) = (gid_for(&font, *l)?, gid_for(&font, *r)?);
            let gpos = font.table_data(write_fonts::types::Tag::new(b"GPOS")).ok_or("no GPOS table")?;
            let pairs = gpos_pair(R(gpos.as_bytes()), g1, g2);
            if pairs.is_empty() {
                if *default != 0.0 || m1.is_some_and(|v| v != 0.0) {
                    bad("mismatch", format!("no GPOS pair adjustment for the kerned pair, source {default}"));
                }
            } else {
                let v: f64 = pairs.iter().map(|p| p.0.v as f64 + p.1.v as f64).sum();
                if v != *default {
                    bad(classify(c, *default, v), format!("GPOS pair xAdvance {v}, source {default}"));
                }
                if let Some(m1) = m1 {
                    let mut dl = 0.0;
                    for p in &pairs {
                        dl += gdef_delta(&font, p.0.var, &m1c)? + gdef_delta(&font, p.1.var, &m1c)?;
                    }
                    if v + dl != *m1 {
                        bad(classify(c, m1 - default, v + dl - default), format!("GPOS pair value at master 1 = {v} + {dl}, source {m1}"));
                    }
                }
            }
        }
        Expect::Anchors { base, mark, default, m1 } => {
            let (gb, gm) = (gid_for(&font, *base)?, gid_for(&font, *mark)?);
            let gpos = font.table_data(write_fonts::types::Tag::new(b"GPOS")).ok_or("no GPOS table")?;
            let hits = gpos_mark_base(R(gpos.as_bytes()), gb, gm);
            let Some((ba, ma)) = hits.first() else {
                bad("mismatch", "no mark-to-base attachment for the anchored pair".into());
                return Ok(j);
            };
            let vals = [ba.x, ba.y, ma.x, ma.y];
            let names = ["base x", "base y", "mark x", "mark y"];
            for k in 0..4 {
                let got = vals[k].v as f64;
                if got != default[k] {
                    bad(classify(c, default[k], got), format!("anchor {}: font {got}, source {}", names[k], default[k]));
                }
                if let Some(m1) = m1 {
                    let dl = gdef_delta(&font, vals[k].var, &m1c)?;
                    if got + dl != m1[k] {
                        bad(classify(c, m1[k] - default[k], got + dl - default[k]),
                            format!("anchor {} at master 1: font {got} + {dl}, source {}", names[k], m1[k]));
                    }
                }
            }
        }
        Expect::Field { name, default, m1 } => {
            let got = table_field(&font, name)?;
            if got != *default {
                // a maxp maximum is taken over all glyphs: a truncated count hides behind the others
                let class = if name.starts_with("maxp.max") && *default > c.hi { "truncated" } else { classify(c, *default, got) };
                bad(class, format!("{name} = {got}, source {default}"));
            }
            if let Some((tag, v1)) = m1 {
                let dl = mvar_delta(&font, tag, &m1c)?;
                if got + dl != *v1 {
                    bad(classify(c, v1 - default, got + dl - default), format!("{name} at master 1 (MVAR {tag}) = {got} + {dl}, source {v1}"));
                }
            }
        }
        Expect::Bit { name, bit } => {
            let got = table_field(&font, name)? as u32;
            if *bit < 16 {
                // bits that the OpenType spec defines for the field; a reserved bit may be dropped
                let defined: u32 = match name.as_str() {
                    "OS/2.fsSelection" => 0x03ff,
                    "OS/2.fsType" => 0x030e,
                    "head.flags" => 0x781f,
                    "gasp.behavior0" => 0x000f,
                    _ => 0xffff,
                };
                if got & (1 << bit) == 0 {
                    if defined & (1 << bit) == 0 {
                        reserved_dropped = true;
                    } else {
                        bad("mismatch", format!("{name} = {got:#06x}: requested bit {bit} is not set"));
                    }
                }
            } else if got & (1 << (bit & 15)) != 0 {
                bad("wrapped", format!("{name} = {got:#06x}: bit index {bit} cannot exist in a 16-bit field, bit {} was set instead", bit & 15));
            } else {
                bad("truncated", format!("{name} = {got:#06x}: bit index {bit} cannot exist in a 16-bit field and was dropped silently"));
            }
        }
        Expect::NumGlyphs { n } => {
            let got = table_field(&font, "maxp.numGlyphs")?;
            if got != *n {
                bad(classify(c, *n, got), format!("maxp.numGlyphs = {got}, source has {n} glyphs"));
            }
        }
    }
    j.reserved_bit_dropped = reserved_dropped;
    Ok(j)
}

// ------------------------------------------------------------------------------------------
// one case end to end
// ------------------------------------------------------------------------------------------

#[derive(Debug, Clone)]
struct CaseResult {
    /// (class, detail)
    violations: Vec<Problem>,
    outcome: &'static str, // exact | error | error-panic | violation | undecodable
    decomposed: bool,
    reserved_bit_dropped: bool,
    opt: String,
    chk: String,
}

fn run_case(c: &Case) -> CaseResult {
    let sc = vcore::Scratch::new("c19");
    let design = match (&c.design, c.big_glyphs) {
        (Some(d), _) => d.clone(),
        (None, Some(n)) => big_design(n),
        _ => vcore::machinery_error("case without a design"),
    };
    let src = if c.variable {
        design.write_designspace(&sc.join("src"))
    } else {
        design.write_single_ufo(&sc.join("src"))
    }
    .unwrap_or_else(|e| vcore::machinery_error(&format!("cannot write source: {e}")));
    let timeout = if c.big_glyphs.is_some() { 900_000 } else { 30_000 };
    let opt = run_one(&vcore::fontc_bin(), &src, sc.path(), "opt", &c.flags, timeout);
    let chk = run_one(&vcore::fontc_bin_checked(), &src, sc.path(), "chk", &c.flags, timeout);
    let mut violations = vec![];
    let mut decomposed = false;
    let mut reserved_bit_dropped = false;
    let mut outcome = "exact";
    for (which, o) in [("optimised", &opt), ("overflow-checked", &chk)] {
        if let Outcome::Crash(s) = o {
            violations.push(Problem { class: "crash", what: format!("{which} build: {s}") });
        }
    }
    match (&opt, &chk) {
        (Outcome::Font(a), Outcome::Font(b)) => {
            if a != b {
                violations.push(Problem {
                    class: "profile-disagreement",
                    what: format!("both builds exit 0 but the fonts differ ({} vs {} bytes)", a.len(), b.len()),
                });
            }
        }
        (Outcome::Error { panicked: p1, .. }, Outcome::Error { panicked: p2, .. }) => {
            outcome = if *p1 || *p2 { "error-panic" } else { "error" };
        }
        (Outcome::Crash(_), _) | (_, Outcome::Crash(_)) => {}
        (a, b) => violations.push(Problem {
            class: "profile-disagreement",
            what: format!("optimised build: {}; overflow-checked build: {}", a.short(), b.short()),
        }),
    }
    // decode whichever font exists (the shipped build first)
    let font = match (&opt, &chk) {
        (Outcome::Font(a), _) => Some(a),
        (_, Outcome::Font(b)) => Some(b),
        _ => None,
    };
    if let Some(bytes) = font {
        match judge(c, bytes) {
            Ok(j) => {
                decomposed = j.decomposed;
                reserved_bit_dropped = j.reserved_bit_dropped;
                violations.extend(j.problems);
            }
            Err(e) => {
                outcome = "undecodable";
                violations.push(Problem { class: "mismatch", what: format!("emitted font cannot be decoded for this field: {e}") });
            }
        }
    }
    if !violations.is_empty() && outcome != "undecodable" {
        outcome = "violation";
    }
    if reserved_bit_dropped && outcome == "exact" {
        outcome = "reserved-bit-dropped";
    }
    CaseResult { violations, outcome, decomposed, reserved_bit_dropped, opt: opt.short(), chk: chk.short() }
}

fn key_for(class: &str, c: &Case) -> String {
    format!("{class}:field={}:value={}", c.field, c.value)
}

fn replay(path: &std::path::Path) -> ! {
    let s = std::fs::read_to_string(path).unwrap_or_else(|e| vcore::machinery_error(&format!("{path:?}: {e}")));
    let v: Value = serde_json::from_str(&s).unwrap_or_else(|e| vcore::machinery_error(&format!("{path:?}: {e}")));
    let c: Case = serde_json::from_value(v["replay"]["case"].clone())
        .unwrap_or_else(|e| vcore::machinery_error(&format!("replay file has no case: {e}")));
    println!("replaying {} (key {})", c.id(), v["key"].as_str().unwrap_or("?"));
    if let Ok(dir) = std::env::var("C19_DUMP") {
        // development aid: only write the source of the case
        let d = c.design.clone().unwrap_or_else(|| big_design(c.big_glyphs.unwrap_or(2)));
        let p = if c.variable { d.write_designspace(dir.as_ref()) } else { d.write_single_ufo(dir.as_ref()) };
        println!("source written to {p:?}");
        std::process::exit(0);
    }
    let r = run_case(&c);
    println!("  optimised build       : {}", r.opt);
    println!("  overflow-checked build: {}", r.chk);
    for p in &r.violations {
        println!("  {} — {}", key_for(p.class, &c), p.what);
    }
    vcore::cleanup_scratch();
    if r.violations.is_empty() {
        println!("  holds now (decomposed: {})", r.decomposed);
        std::process::exit(0)
    }
    std::process::exit(1)
}

fn main() {
    let args = vcore::parse_args();
    if let Some(p) = &args.replay {
        replay(p);
    }
    if args.rest.iter().any(|a| a == "--list") {
        // development aid: the enumerated space, without running anything
        let cases = enumerate(args.tier);
        let mut per: BTreeMap<String, usize> = BTreeMap::new();
        for c in &cases {
            *per.entry(format!("{}:{}", c.base, c.field)).or_default() += 1;
        }
        for (k, n) in &per {
            println!("{n:6} {k}");
        }
        println!("{:6} cases, {} out of range", cases.len(), cases.iter().filter(|c| !c.fits).count());
        return;
    }
    let mut rep = vcore::Reporter::new("C19", "exploration", &args);
    for b in [vcore::fontc_bin(), vcore::fontc_bin_checked()] {
        if !b.exists() {
            vcore::machinery_error(&format!("product binary {b:?} is missing (./check C19 builds both)"));
        }
    }
    let t0 = std::time::Instant::now();

    // the unmodified bases must build and satisfy their own expectations, otherwise the harness is wrong
    for (variable, vertical) in [(false, false), (true, false), (false, true)] {
        let d = base_design(variable, vertical);
        let mut probes = vec![
            outline_expect(&d, CP_D, "d", 0.0),
            outline_expect(&d, CP_C, "c", 0.0),
            Expect::Advance { cp: CP_D, default: 520.0, m1: variable.then_some(520.0) },
            Expect::Kern { l: CP_A, r: CP_B, default: -30.0, m1: variable.then_some(-30.0) },
            Expect::Anchors { base: CP_A, mark: CP_MARK, default: [250.0, 700.0, 70.0, 550.0], m1: variable.then_some([250.0, 700.0, 70.0, 550.0]) },
            Expect::Field { name: "head.unitsPerEm".into(), default: 1000.0, m1: None },
        ];
        if vertical {
            probes.push(Expect::Height { cp: CP_D, default: 1000.0 });
        }
        for e in probes {
            let c = Case {
                field: "base".into(), value: "0".into(), raw: 0.0, lo: -32768.0, hi: 32767.0, bits: 16, meta: false, fits: true,
                base: if variable { "var".into() } else { "static".into() }, variable, flags: vec![], design: Some(d.clone()),
                big_glyphs: None, expect: e.clone(),
            };
            let r = run_case(&c);
            if !r.violations.is_empty() || r.outcome != "exact" {
                vcore::machinery_error(&format!(
                    "the unmodified base design (variable={variable}, vertical={vertical}) fails its own expectation {e:?}: {} / {} / {:?}",
                    r.opt, r.chk, r.violations
                ));
            }
        }
    }

    let mut cases = enumerate(args.tier);
    // development aid: `--only <substring of the case id>` (the evidence then says so)
    if let Some(i) = args.rest.iter().position(|a| a == "--only") {
        let pat = args.rest.get(i + 1).cloned().unwrap_or_default();
        cases.retain(|c| c.id().contains(&pat));
        rep.assume(&format!("PARTIAL RUN: only cases whose id contains '{pat}'"));
    }
    let (mut small, big): (Vec<Case>, Vec<Case>) = cases.into_iter().partition(|c| c.big_glyphs.is_none());
    if args.tier == vcore::Tier::Thorough {
        // the quick tier's cases first, so that a time cap cuts the extended alphabet, not the core
        let core: std::collections::BTreeSet<String> = enumerate(vcore::Tier::Quick).iter().map(|c| c.id()).collect();
        small.sort_by_key(|c| !core.contains(&c.id()));
    }
    let threads = vcore::ncores().max(2);
    // wall-clock caps (the box is shared): cases beyond the cap are counted and reported, not judged
    let cap_s = args.tier.pick(280.0, 900.0) * vcore::budget_scale();
    let budget_s = 1100.0;
    let results = vcore::par_for(small.len(), threads, |i| {
        if t0.elapsed().as_secs_f64() > cap_s { None } else { Some(run_case(&small[i])) }
    });
    let n_small = small.len();
    let mut all: Vec<(Case, CaseResult)> =
        small.into_iter().zip(results).filter_map(|(c, r)| r.map(|r| (c, r))).collect();
    let mut exhaustive = true;
    if all.len() < n_small {
        exhaustive = false;
        rep.assume(&format!("time cap of {cap_s} s reached: {} of {n_small} enumerated cases were not run", n_small - all.len()));
        rep.set("cases_not_run", (n_small - all.len()) as u64);
    }
    rep.set("enumerated", n_small as u64);
    rep.set("mean_case_wall_ms", (t0.elapsed().as_secs_f64() * 1000.0 * threads as f64 / all.len().max(1) as f64).round());
    // the big sources: a few at a time (each build holds the whole glyph set in memory)
    if !big.is_empty() {
        let started = t0.elapsed().as_secs_f64();
        let rs = vcore::par_for(big.len(), 3, |i| {
            if t0.elapsed().as_secs_f64() > budget_s {
                return None;
            }
            let t = std::time::Instant::now();
            let r = run_case(&big[i]);
            eprintln!("[C19] glyphCount={} took {:.1}s: {} / {}", big[i].value, t.elapsed().as_secs_f64(), r.opt, r.chk);
            Some(r)
        });
        for (c, r) in big.into_iter().zip(rs) {
            match r {
                Some(r) => all.push((c, r)),
                None => {
                    exhaustive = false;
                    rep.assume(&format!("time cap reached before glyphCount={} could run (big cases started at {started:.0} s)", c.value));
                }
            }
        }
    }

    // ---- evidence
    let mut per_field: BTreeMap<String, BTreeMap<&'static str, u64>> = BTreeMap::new();
    let mut out_of_range = 0u64;
    let mut boundary = 0u64;
    let mut errored_in_range: Vec<String> = vec![];
    let mut samples: Vec<Value> = vec![];
    let mut totals: BTreeMap<&'static str, u64> = BTreeMap::new();
    let mut panic_errors: Vec<String> = vec![];
    for (c, r) in &all {
        let f = per_field.entry(c.field.clone()).or_default();
        *f.entry("cases").or_default() += 1;
        *f.entry(r.outcome).or_default() += 1;
        *totals.entry(r.outcome).or_default() += 1;
        if r.decomposed {
            *f.entry("decomposed").or_default() += 1;
            *totals.entry("decomposed").or_default() += 1;
        }
        if !c.fits {
            out_of_range += 1;
            *f.entry("out_of_range").or_default() += 1;
        } else if ot_round(c.raw) == c.hi || ot_round(c.raw) == c.lo {
            boundary += 1;
        }
        if c.fits && r.outcome.starts_with("error") {
            errored_in_range.push(format!("{} -> {}", c.id(), r.opt));
        }
        if r.outcome == "error-panic" && panic_errors.len() < 40 {
            panic_errors.push(format!("{} -> {}", c.id(), r.chk));
        }
        if samples.len() < 12 && (samples.len() % 2 == 0) == c.fits {
            samples.push(json!({"case": c.id(), "fits": c.fits, "optimised": r.opt, "checked": r.chk, "outcome": r.outcome}));
        }
    }
    for (c, r) in &all {
        let mut seen = std::collections::BTreeSet::new();
        for p in &r.violations {
            let key = key_for(p.class, c);
            if !seen.insert(key.clone()) {
                continue;
            }
            let what = format!("{} [{}; optimised: {}; overflow-checked: {}]", p.what, c.id(), r.opt, r.chk);
            rep.violation(&key, &what, json!({"case": c}));
        }
    }
    rep.set("evaluations", all.len() as u64);
    rep.set("process_runs", 2 * all.len() as u64);
    rep.set("distinct_nontrivial", out_of_range);
    rep.set("rule", "cases whose pushed value, or a difference derived from it (successive points, master delta, offset + base coordinate), does not fit the target field, so that the rejection / fallback path has to engage; every case is a distinct (field, value, base, flags) tuple");
    rep.set("boundary_in_range_cases", boundary);
    rep.set("per_field", json!(per_field));
    rep.set("totals", json!(totals));
    rep.set("errored_although_value_fits", json!(errored_in_range));
    rep.set("errors_that_are_caught_panics", json!(panic_errors));
    rep.set("samples", json!(samples));
    rep.set("exhaustive", exhaustive);
    rep.assume("hhea.minRightSideBearing / xMaxExtent / advanceWidthMax and head/maxp statistics are derived summaries, not source values: fontc clamps the first two deliberately (metrics_and_limits.rs:125-141, as ufo2ft does) and they are not judged");
    rep.assume("a component scale is judged by the resolved outline with tolerance 0.5 (integer rounding if the compiler decomposes) + max|coordinate| * 2^-14 (one 2.14 quantum; this admits the documented saturation of exactly 2.0 to 2 - 2^-14, fontc issue 1638, and nothing larger)");
    rep.assume("`ascender` / `descender` are judged through OS/2.sTypoAscender / sTypoDescender (ufo2ft fallback chain); fields with a range narrower than their storage (usWeightClass 1..1000, usWidthClass 1..9, unitsPerEm 16..16384) may be rejected, but if the build succeeds the stored value must equal the source");
    rep.assume("bit-index lists: a bit that the OpenType spec reserves for the field (e.g. fsSelection 10-15, head.flags 5-10 and 15) may be dropped without an error; such cases are counted as reserved-bit-dropped");
    rep.assume("a build error for a value that fits is not a C19 matter; such cases are listed under errored_although_value_fits");
    rep.assume("GPOS / MVAR / HVAR deltas live in an ItemVariationStore with 32-bit deltas and are expected to hold any difference of two 16-bit values; gvar deltas are int16");
    rep.finish()
}
