use dgen::*;
fn main() {
    let mut d = Design::skeleton("Smoke", vec![Axis::new("wght", "Weight", 400.0, 400.0, 700.0)], vec![vec![400.0], vec![700.0]]);
    let mut g = Glyph::new("A", &[0x41]);
    for m in 0..2 {
        let w = 100.0 + 50.0 * m as f64;
        g.layers.insert(m, Layer { advance: 500.0 + w, contours: vec![shapes::rect(50.0, 0.0, 50.0 + w, 700.0)], ..Default::default() });
    }
    d.glyphs.push(g);
    let li = d.add_layer_master(0, vec![550.0]);
    d.glyph_mut("A").unwrap().layers.insert(li, Layer { advance: 590.0, contours: vec![shapes::rect(50.0, 0.0, 140.0, 700.0)], ..Default::default() });
    let sc = vcore::Scratch::new("smoke");
    let p = d.write_designspace(sc.path()).unwrap();
    let t = std::time::Instant::now();
    let r = fcx::compile(&p, &fcx::Opts::default(), None);
    match r {
        Ok(b) => { println!("ok {} bytes in {:?}", b.len(), t.elapsed()); dump(&b) }
        Err(e) => println!("fail {e:?}"),
    }
    let t = std::time::Instant::now();
    for _ in 0..100 { let _ = fcx::compile(&p, &fcx::Opts::default(), None); }
    println!("100 compiles {:?}", t.elapsed());
}
#[allow(dead_code)]
fn dump(b: &[u8]) {
    let n = u16::from_be_bytes([b[4], b[5]]) as usize;
    for i in 0..n {
        let r = &b[12 + 16 * i..28 + 16 * i];
        println!("  {} len {}", String::from_utf8_lossy(&r[0..4]), u32::from_be_bytes([r[12], r[13], r[14], r[15]]));
    }
}
