//! Debug helper: `ttdump font.ttf TAG` prints the read-fonts traversal of one table.
use write_fonts::read::{FontRef, TableProvider};
fn main() {
    let a: Vec<String> = std::env::args().collect();
    let bytes = std::fs::read(&a[1]).unwrap();
    let font = FontRef::new(&bytes).unwrap();
    match a.get(2).map(|s| s.as_str()).unwrap_or("") {
        "GSUB" => println!("{:#?}", font.gsub().unwrap()),
        "GPOS" => println!("{:#?}", font.gpos().unwrap()),
        "GDEF" => println!("{:#?}", font.gdef().unwrap()),
        "name" => println!("{:#?}", font.name().unwrap()),
        "fvar" => println!("{:#?}", font.fvar().unwrap()),
        "avar" => println!("{:#?}", font.avar().unwrap()),
        "STAT" => println!("{:#?}", font.stat().unwrap()),
        "HVAR" => println!("{:#?}", font.hvar().unwrap()),
        "MVAR" => println!("{:#?}", font.mvar().unwrap()),
        "gvar" => println!("{:#?}", font.gvar().unwrap()),
        "glyf" => println!("{:#?}", font.glyf().unwrap()),
        "OS/2" => println!("{:#?}", font.os2().unwrap()),
        "head" => println!("{:#?}", font.head().unwrap()),
        "hhea" => println!("{:#?}", font.hhea().unwrap()),
        "maxp" => println!("{:#?}", font.maxp().unwrap()),
        "post" => println!("{:#?}", font.post().unwrap()),
        "cmap" => println!("{:#?}", font.cmap().unwrap()),
        "hmtx" => println!("{:#?}", font.hmtx().unwrap()),
        _ => {
            for r in font.table_directory().table_records() {
                println!("{} {}", r.tag(), r.length());
            }
        }
    }
}
