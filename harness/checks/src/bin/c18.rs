//! C18 — names referenced from other tables exist and say what the source says.
//!
//! Bounded-exhaustive enumeration of tiny UFO/designspace sources over a small alphabet of
//! *coinciding* naming strings (family / style / style-map names / instance names / PostScript
//! names / axis labels / FEA name blocks), compiled in process with the real compiler, judged
//! from the emitted tables only (read-fonts typed tables) against the `Design` and the
//! OpenType specification. A hash-seed dimension (product binary, seeds 0..7) covers
//! map-order dependence on representatives of every coincidence pattern.
use dgen::plist::Plist;
use dgen::*;
use serde::{Deserialize, Serialize};
use serde_json::{Value, json};
use std::collections::{BTreeMap, BTreeSet};
use vcore::{Reporter, Scratch, Tier};
use write_fonts::read::{
    FontRef, TableProvider,
    tables::layout::{FeatureList, FeatureParams},
};

// ------------------------------------------------------------------ the alphabet

const FAMILIES: [&str; 2] = ["Fam", "Regular"];
const STYLES: [&str; 4] = ["Regular", "Bold", "Thin Italic", "Fam"];
const INST_NAMES: [&str; 4] = ["Regular", "Fam", "Bold", "X"];
const AXIS_LABELS: [&str; 3] = ["Weight", "Fam", "Regular"];
/// value of styleMapStyleName when present (differs from the fallback for 3 of the 4 styles,
/// and its name-table form "Bold" coincides with an instance name)
const SM_STYLE: &str = "bold";
const N_SEEDS: u64 = 8;

/// The `<labelname xml:lang="..">` children of an `<axis>`, as the list of languages in document order.
/// Index 0 (none) is the space enumerated before this dimension existed.
const LN_CONFIGS: [&[&str]; 8] =
    [&[], &["en"], &["en", "en-GB"], &["en-GB", "en"], &["en-GB"], &["en", "fr"], &["fr", "en"], &["fr"]];
/// the strings of the labelnames of axis 0 / axis 1 — all distinct, and distinct from every other string
/// of the alphabet except the instance name `LN_INST`
const LN_STRINGS: [[(&str, &str); 3]; 2] = [
    [("en", "Heaviness"), ("en-GB", "Heft"), ("fr", "Graisse")],
    [("en", "Breadth"), ("en-GB", "Girth"), ("fr", "Chasse")],
];
/// an instance name that coincides with axis 0's `en` labelname
const LN_INST: &str = "Heaviness";
/// `name` attributes of the axis in the labelname space: a plain one, one of the lower-case MutatorMath
/// names that fontTools / fontc expand when there is no `en` labelname, and one that coincides with a family name
const LN_AXIS_NAMES: [&str; 3] = ["Weight", "weight", "Fam"];

fn ln_config(axis: usize, k: usize) -> Vec<(String, String)> {
    LN_CONFIGS[k]
        .iter()
        .map(|lang| {
            let s = LN_STRINGS[axis].iter().find(|(l, _)| l == lang).unwrap().1;
            (lang.to_string(), s.to_string())
        })
        .collect()
}

/// Windows (platform 3) and Macintosh (platform 1) language ids of the xml:lang values of the alphabet
fn lang_ids(lang: &str) -> Option<(u16, u16)> {
    match lang {
        "en" => Some((0x0409, 0)),
        "en-GB" => Some((0x0809, 0)),
        "fr" => Some((0x040C, 1)),
        _ => None,
    }
}

/// The string the source designates as the axis' display name. Designspace specification, `<axis>`:
/// `<labelname xml:lang="en">` is the UI name of the axis; without one the `name` attribute is. fontc
/// (fontdrasil `Axis::ui_label_name` doc comment) and fontTools additionally expand the five lower-case
/// MutatorMath names when they are what is fallen back to.
fn ui_name(a: &Axis) -> String {
    if let Some((_, s)) = a.labelnames.iter().find(|(l, _)| l == "en") {
        return s.clone();
    }
    match a.name.as_str() {
        "weight" => "Weight".into(),
        "width" => "Width".into(),
        "slant" => "Slant".into(),
        "optical" => "Optical Size".into(),
        "italic" => "Italic".into(),
        n => n.to_string(),
    }
}

#[derive(Debug, Clone, Copy, PartialEq, Eq, Hash, PartialOrd, Ord, Serialize, Deserialize)]
enum Shape {
    /// a single UFO
    Static,
    /// wght 400..700, masters at 400 and 700
    Var1,
    /// wght 400..700 × wdth 100..125, masters at the default and the two axis maxima
    Var2,
}

#[derive(Debug, Clone, PartialEq, Serialize, Deserialize)]
struct Case {
    shape: Shape,
    family: String,
    /// styleName of the default master
    style: String,
    /// bit 0: styleMapFamilyName present (= family); bit 1: styleMapStyleName present (= "bold").
    /// 3 ("fully specified") also sets versionMajor 1 / versionMinor 5.
    sm: u8,
    /// name of the instance at the default location
    default_inst: Option<String>,
    /// names of the instances at non-default locations
    other_insts: Vec<String>,
    /// 0 none, 1 every instance has postscriptfontname, 2 only the first instance has one
    ps: u8,
    /// the `name` attribute of each axis
    axis_labels: Vec<String>,
    /// the `<labelname>` children of each axis, (xml:lang, string) in document order (may be shorter than
    /// `axis_labels`: no labelnames)
    #[serde(default)]
    axis_lnames: Vec<Vec<(String, String)>>,
    fea_name: bool,
    fea_ss: bool,
    fea_cv: bool,
    /// 0 none; 1 `table STAT` with `ElidedFallbackName { name "Roman"; }`; 2 with `ElidedFallbackNameID 2;`;
    /// 3 as 2, preceded by `table name { nameid 2 "<the font's own id 2 string>"; } name;`
    fea_stat: u8,
}

fn psify(s: &str) -> String {
    // PostScript name characters: printable ASCII 33..126 except [](){}<>/%
    s.chars()
        .filter(|c| (*c as u32) >= 33 && (*c as u32) <= 126 && !"[](){}<>/%".contains(*c))
        .collect()
}

impl Case {
    fn is_variable(&self) -> bool {
        matches!(self.shape, Shape::Var1 | Shape::Var2)
    }
    fn n_instances(&self) -> usize {
        self.default_inst.is_some() as usize + self.other_insts.len()
    }
    fn fea_text(&self) -> Option<String> {
        if !(self.fea_name || self.fea_ss || self.fea_cv || self.fea_stat != 0) {
            return None;
        }
        let mut s = String::from("languagesystem DFLT dflt;\n");
        if self.fea_ss {
            s.push_str("feature ss01 {\n  featureNames { name \"Alt\"; };\n  sub A by A.alt;\n} ss01;\n");
        }
        if self.fea_cv {
            s.push_str(
                "feature cv01 {\n  cvParameters {\n    FeatUILabelNameID { name \"CV\"; };\n    FeatUITooltipTextNameID { name \"Tip\"; };\n    SampleTextNameID { name \"Sample\"; };\n    ParamUILabelNameID { name \"P1\"; };\n    ParamUILabelNameID { name \"CV\"; };\n    Character 0x41;\n  };\n  sub A by A.alt;\n} cv01;\n",
            );
        }
        if self.fea_name {
            s.push_str("table name {\n  nameid 9 \"Designer\";\n} name;\n");
        }
        if self.fea_stat == 3 {
            // restates the subfamily name the font has anyway, so that the FEA's own name table has id 2
            s.push_str(&format!("table name {{\n  nameid 2 \"{}\";\n}} name;\n", chain(self, "").id2));
        }
        if self.fea_stat != 0 {
            let label = self.stat_axis_label();
            s.push_str("table STAT {\n");
            if self.fea_stat == 1 {
                s.push_str("  ElidedFallbackName { name \"Roman\"; };\n");
            } else {
                s.push_str("  ElidedFallbackNameID 2;\n");
            }
            s.push_str(&format!("  DesignAxis wght 0 {{ name \"{label}\"; }};\n"));
            s.push_str("  AxisValue {\n    location wght 400;\n    name \"Regular\";\n    flag ElidableAxisValueName;\n  };\n} STAT;\n");
        }
        Some(s)
    }
    fn stat_axis_label(&self) -> String {
        self.axis_labels.first().cloned().unwrap_or("Weight".into())
    }
    fn has_labelnames(&self) -> bool {
        self.axis_lnames.iter().any(|l| !l.is_empty())
    }
    /// e.g. `en+en-GB|-` (one group per axis, `-` = none)
    fn ln_signature(&self) -> String {
        (0..self.axis_labels.len())
            .map(|i| match self.axis_lnames.get(i) {
                Some(l) if !l.is_empty() => l.iter().map(|(lang, _)| lang.as_str()).collect::<Vec<_>>().join("+"),
                _ => "-".to_string(),
            })
            .collect::<Vec<_>>()
            .join("|")
    }
    fn short(&self) -> String {
        format!(
            "{:?} fam={:?} style={:?} sm={} dflt_inst={:?} others={:?} ps={} axes={:?}{} fea[name={} ss={} cv={} stat={}]",
            self.shape,
            self.family,
            self.style,
            self.sm,
            self.default_inst,
            self.other_insts,
            self.ps,
            self.axis_labels,
            if self.has_labelnames() { format!(" labelnames={:?}", self.axis_lnames) } else { String::new() },
            self.fea_name as u8,
            self.fea_ss as u8,
            self.fea_cv as u8,
            self.fea_stat
        )
    }
}

fn build_design(c: &Case) -> Design {
    let (mut axes, locs): (Vec<Axis>, Vec<Vec<f64>>) = match c.shape {
        Shape::Static => (vec![], vec![vec![]]),
        Shape::Var1 => (
            vec![Axis::new("wght", &c.axis_labels[0], 400.0, 400.0, 700.0)],
            vec![vec![400.0], vec![700.0]],
        ),
        Shape::Var2 => (
            vec![
                Axis::new("wght", &c.axis_labels[0], 400.0, 400.0, 700.0),
                Axis::new("wdth", &c.axis_labels[1], 100.0, 100.0, 125.0),
            ],
            vec![vec![400.0, 100.0], vec![700.0, 100.0], vec![400.0, 125.0]],
        ),
    };
    for (a, l) in axes.iter_mut().zip(&c.axis_lnames) {
        a.labelnames = l.clone();
    }
    let mut d = Design::skeleton(&c.family, axes, locs);
    let dm = d.default_master;
    d.masters[dm].style_name = c.style.clone();
    let mut extra: Vec<(String, Plist)> = vec![];
    if c.sm & 1 != 0 {
        extra.push(("styleMapFamilyName".into(), Plist::s(&c.family)));
    }
    if c.sm & 2 != 0 {
        extra.push(("styleMapStyleName".into(), Plist::s(SM_STYLE)));
    }
    if c.sm == 3 {
        extra.push(("versionMajor".into(), Plist::Int(1)));
        extra.push(("versionMinor".into(), Plist::Int(5)));
    }
    for m in d.masters.iter_mut() {
        m.info.extra = extra.clone();
    }
    let nm = d.masters.len();
    for (name, cp, x1) in [("A", Some(0x41u32), 300.0), ("A.alt", None, 400.0)] {
        let mut g = Glyph::new(name, &cp.map(|c| vec![c]).unwrap_or_default());
        for m in 0..nm {
            g.layers.insert(
                m,
                Layer {
                    advance: 500.0 + 20.0 * m as f64,
                    contours: vec![shapes::rect(50.0, 0.0, x1 + 20.0 * m as f64, 700.0)],
                    ..Default::default()
                },
            );
        }
        d.glyphs.push(g);
    }
    // instances: the default-location one first, then the others at fixed non-default locations
    let default_loc: Vec<f64> = d.axes.iter().map(|a| a.default).collect();
    let other_locs: Vec<Vec<f64>> = match c.shape {
        Shape::Static => vec![vec![], vec![]],
        Shape::Var1 => vec![vec![700.0], vec![550.0]],
        Shape::Var2 => vec![vec![700.0, 100.0], vec![400.0, 125.0]],
    };
    let mut insts: Vec<(String, Vec<f64>)> = vec![];
    if let Some(n) = &c.default_inst {
        insts.push((n.clone(), default_loc));
    }
    for (i, n) in c.other_insts.iter().enumerate() {
        insts.push((n.clone(), other_locs[i].clone()));
    }
    for (i, (n, loc)) in insts.into_iter().enumerate() {
        let ps = match c.ps {
            1 => true,
            2 => i == 0,
            _ => false,
        };
        d.instances.push(Instance {
            family: None,
            ps_name: ps.then(|| psify(&format!("{}-{}", c.family, n))),
            style: n,
            user_loc: loc,
        });
    }
    d.features_fea = c.fea_text();
    d
}

fn write_source(c: &Case, d: &Design, dir: &std::path::Path) -> std::path::PathBuf {
    let r = match c.shape {
        Shape::Static => d.write_single_ufo(dir),
        _ => d.write_designspace(dir),
    };
    r.unwrap_or_else(|e| vcore::machinery_error(&format!("cannot write source: {e}")))
}

// ------------------------------------------------------------------ enumeration

fn subsets_upto(max: usize) -> Vec<Vec<String>> {
    let mut out = vec![vec![]];
    let n = INST_NAMES.len();
    for i in 0..n {
        if max >= 1 {
            out.push(vec![INST_NAMES[i].to_string()]);
        }
    }
    if max >= 2 {
        for i in 0..n {
            for j in i + 1..n {
                out.push(vec![INST_NAMES[i].to_string(), INST_NAMES[j].to_string()]);
            }
        }
    }
    out
}

/// (default instance, other instances, ps mode): 0–3 instances, PostScript-name modes deduplicated
fn instance_configs(max_others: usize, defaults: &[Option<&str>], ps_modes: &[u8]) -> Vec<(Option<String>, Vec<String>, u8)> {
    let mut out = vec![];
    for d in defaults {
        for o in subsets_upto(max_others) {
            let n = d.is_some() as usize + o.len();
            for &ps in ps_modes {
                if n == 0 && ps != 0 {
                    continue;
                }
                if n == 1 && ps == 2 {
                    continue; // "first only" == "all"
                }
                out.push((d.map(|s| s.to_string()), o.clone(), ps));
            }
        }
    }
    out
}

fn fea_configs(tier: Tier, reduced: bool) -> Vec<(bool, bool, bool, u8)> {
    if reduced {
        return vec![(false, false, false, 0), (true, true, true, 1), (true, true, true, 3)];
    }
    match tier {
        Tier::Quick => vec![
            (false, false, false, 0),
            (true, false, false, 0),
            (false, true, false, 0),
            (false, false, true, 0),
            (false, false, false, 1),
            (false, false, false, 2),
            (false, false, false, 3),
            (true, true, true, 1),
            (true, true, true, 3),
        ],
        Tier::Thorough => {
            // every subset of {name, ss01, cv01} x STAT {none, 1, 3}; STAT variant 2 (which the compiler
            // rejects, see the compile-failed finding) once, alone
            let mut v = vec![(false, false, false, 2)];
            for n in [false, true] {
                for s in [false, true] {
                    for c in [false, true] {
                        for st in [0u8, 1, 3] {
                            v.push((n, s, c, st));
                        }
                    }
                }
            }
            v
        }
    }
}

fn enumerate(tier: Tier) -> Vec<Case> {
    let mut out = vec![];
    let all_defaults: Vec<Option<&str>> =
        std::iter::once(None).chain(INST_NAMES.iter().map(|s| Some(*s))).collect();
    let sms: Vec<u8> = tier.pick(vec![0, 3], vec![0, 1, 2, 3]);
    // --- static, single UFO: every combination in both tiers
    for fam in FAMILIES {
        for style in STYLES {
            for sm in 0..4u8 {
                for (n, s, c, st) in fea_configs(Tier::Thorough, false) {
                    out.push(Case {
                        shape: Shape::Static,
                        family: fam.into(),
                        style: style.into(),
                        sm,
                        default_inst: None,
                        other_insts: vec![],
                        ps: 0,
                        axis_labels: vec![],
                        axis_lnames: vec![],
                        fea_name: n,
                        fea_ss: s,
                        fea_cv: c,
                        fea_stat: st,
                    });
                }
            }
        }
    }
    // --- one axis
    let insts1 = instance_configs(tier.pick(1, 2), &all_defaults, tier.pick(&[0, 1][..], &[0, 1, 2][..]));
    for fam in FAMILIES {
        for style in STYLES {
            for &sm in &sms {
                for label in AXIS_LABELS {
                    for (di, oi, ps) in &insts1 {
                        for (n, s, c, st) in fea_configs(tier, false) {
                            out.push(Case {
                                shape: Shape::Var1,
                                family: fam.into(),
                                style: style.into(),
                                sm,
                                default_inst: di.clone(),
                                other_insts: oi.clone(),
                                ps: *ps,
                                axis_labels: vec![label.into()],
                                axis_lnames: vec![],
                                fea_name: n,
                                fea_ss: s,
                                fea_cv: c,
                                fea_stat: st,
                            });
                        }
                    }
                }
            }
        }
    }
    // --- two axes: ordered pairs of distinct labels
    let insts2 = match tier {
        Tier::Quick => instance_configs(0, &[None, Some("Regular"), Some("Fam")], &[0]),
        Tier::Thorough => instance_configs(1, &all_defaults, &[0, 1]),
    };
    let feas2 = tier.pick(vec![(false, false, false, 0u8)], fea_configs(tier, true));
    for fam in FAMILIES {
        for style in STYLES {
            for sm in [0u8, 3] {
                for l0 in AXIS_LABELS {
                    for l1 in AXIS_LABELS {
                        if l0 == l1 {
                            continue;
                        }
                        for (di, oi, ps) in &insts2 {
                            for (n, s, c, st) in &feas2 {
                                out.push(Case {
                                    shape: Shape::Var2,
                                    family: fam.into(),
                                    style: style.into(),
                                    sm,
                                    default_inst: di.clone(),
                                    other_insts: oi.clone(),
                                    ps: *ps,
                                    axis_labels: vec![l0.into(), l1.into()],
                                    axis_lnames: vec![],
                                    fea_name: *n,
                                    fea_ss: *s,
                                    fea_cv: *c,
                                    fea_stat: *st,
                                });
                            }
                        }
                    }
                }
            }
        }
    }
    // --- axis <labelname> elements, one axis: every labelname configuration x the axis `name` attribute
    // (configuration 0, no labelnames, only for the name the spaces above do not have)
    let ln_defaults: Vec<Option<&str>> = tier.pick(
        vec![None, Some("Regular"), Some("Fam"), Some(LN_INST)],
        vec![None, Some("Regular"), Some("Fam"), Some("X"), Some(LN_INST)],
    );
    let ln_insts1 = instance_configs(tier.pick(0, 1), &ln_defaults, &[0]);
    let ln_feas1 = tier.pick(vec![(false, false, false, 0u8), (true, true, true, 1)], fea_configs(tier, true));
    for fam in FAMILIES {
        for style in STYLES {
            for &sm in &sms {
                for name in LN_AXIS_NAMES {
                    for k in 0..LN_CONFIGS.len() {
                        if k == 0 && AXIS_LABELS.contains(&name) {
                            continue;
                        }
                        for (di, oi, ps) in &ln_insts1 {
                            for (n, s, c, st) in &ln_feas1 {
                                out.push(Case {
                                    shape: Shape::Var1,
                                    family: fam.into(),
                                    style: style.into(),
                                    sm,
                                    default_inst: di.clone(),
                                    other_insts: oi.clone(),
                                    ps: *ps,
                                    axis_labels: vec![name.into()],
                                    axis_lnames: vec![ln_config(0, k)],
                                    fea_name: *n,
                                    fea_ss: *s,
                                    fea_cv: *c,
                                    fea_stat: *st,
                                });
                            }
                        }
                    }
                }
            }
        }
    }
    // --- axis <labelname> elements, two axes: every pair of labelname configurations (not none/none)
    let ln_styles: Vec<&str> = tier.pick(vec!["Regular", "Bold"], STYLES.to_vec());
    for style in ln_styles {
        for sm in [0u8, 3] {
            for k0 in 0..LN_CONFIGS.len() {
                for k1 in 0..LN_CONFIGS.len() {
                    if k0 == 0 && k1 == 0 {
                        continue;
                    }
                    for di in [None, Some("Regular")] {
                        out.push(Case {
                            shape: Shape::Var2,
                            family: "Fam".into(),
                            style: style.into(),
                            sm,
                            default_inst: di.map(|s| s.to_string()),
                            other_insts: vec![],
                            ps: 0,
                            axis_labels: vec!["weight".into(), "Fam".into()],
                            axis_lnames: vec![ln_config(0, k0), ln_config(1, k1)],
                            fea_name: false,
                            fea_ss: false,
                            fea_cv: false,
                            fea_stat: 0,
                        });
                    }
                }
            }
        }
    }
    out
}

// ------------------------------------------------------------------ reading the font

struct NameTab {
    /// (platform, encoding, language, name id, string) in table order
    recs: Vec<(u16, u16, u16, u16, String)>,
}

impl NameTab {
    fn read(font: &FontRef) -> Result<NameTab, String> {
        let name = font.name().map_err(|e| format!("name: {e}"))?;
        let mut recs = vec![];
        for r in name.name_record() {
            let s = r
                .string(name.string_data())
                .map_err(|e| format!("name string: {e}"))?
                .chars()
                .collect::<String>();
            recs.push((r.platform_id(), r.encoding_id(), r.language_id(), r.name_id().to_u16(), s));
        }
        Ok(NameTab { recs })
    }
    /// the Windows / Unicode BMP / en-US string of a name id
    fn win(&self, id: u16) -> Option<&str> {
        self.recs
            .iter()
            .find(|r| r.0 == 3 && r.1 == 1 && r.2 == 0x409 && r.3 == id)
            .map(|r| r.4.as_str())
    }
    fn sorted_unique(&self) -> bool {
        self.recs
            .windows(2)
            .all(|w| (w[0].0, w[0].1, w[0].2, w[0].3) < (w[1].0, w[1].1, w[1].2, w[1].3))
    }
}

/// one cross-table reference to a name id
struct Ref {
    /// e.g. `fvar.axis[0].axisNameID`
    site: String,
    /// site without indices, for keys
    class: &'static str,
    id: u16,
    /// what the source says the string is (None: not fixed by the source)
    expect: Option<String>,
}

#[derive(Default)]
struct Judged {
    viol: Vec<(String, String)>,
    refs: usize,
    refs_below_256: usize,
    has_feature_params: bool,
    coinciding: bool,
    signature: String,
    signature_coarse: String,
    classes_coarse: Vec<String>,
    fvar_refs_below_256: usize,
    /// axis name references (fvar + generated STAT) whose expected string is the axis' `en` labelname
    axis_refs_from_en_labelname: usize,
    /// ... whose axis has labelnames but no `en` one: expected string is the `name` attribute
    axis_refs_fallback_despite_labelnames: usize,
    /// ... whose expected string is the expansion of a lower-case MutatorMath axis name
    axis_refs_legacy_name_expanded: usize,
    /// name records in a language other than English under an axis name id / of those, in a language of the alphabet
    localized_axis_records: usize,
    localized_axis_records_judged: usize,
}

fn feature_param_refs(list: &FeatureList, table: &'static str, c: &Case, out: &mut Vec<Ref>, errs: &mut Vec<(String, String)>) {
    for rec in list.feature_records() {
        let tag = rec.feature_tag().to_string();
        let feat = match rec.feature(list.offset_data()) {
            Ok(f) => f,
            Err(e) => {
                errs.push((format!("unreadable:{table}.feature"), format!("{tag}: {e}")));
                continue;
            }
        };
        match feat.feature_params() {
            None => {}
            Some(Err(e)) => errs.push((format!("unreadable:{table}.featureParams"), format!("{tag}: {e}"))),
            Some(Ok(FeatureParams::StylisticSet(p))) => out.push(Ref {
                site: format!("{table}.{tag}.UINameID"),
                class: "featureParams.ss.UINameID",
                id: p.ui_name_id().to_u16(),
                expect: (c.fea_ss && tag == "ss01").then(|| "Alt".to_string()),
            }),
            Some(Ok(FeatureParams::CharacterVariant(p))) => {
                let known = c.fea_cv && tag == "cv01";
                let mut push = |class: &'static str, id: u16, exp: &str| {
                    // 0 = "no name" for the optional cvNN fields
                    if id != 0 || known {
                        out.push(Ref {
                            site: format!("{table}.{tag}.{class}"),
                            class,
                            id,
                            expect: known.then(|| exp.to_string()),
                        });
                    }
                };
                push("featureParams.cv.featUiLabelNameId", p.feat_ui_label_name_id().to_u16(), "CV");
                push("featureParams.cv.featUiTooltipTextNameId", p.feat_ui_tooltip_text_name_id().to_u16(), "Tip");
                push("featureParams.cv.sampleTextNameId", p.sample_text_name_id().to_u16(), "Sample");
                let n = p.num_named_parameters();
                if known && n != 2 {
                    errs.push((
                        "featureParams.cv.numNamedParameters".into(),
                        format!("source declares 2 ParamUILabelNameID blocks, font has {n}"),
                    ));
                }
                let first = p.first_param_ui_label_name_id().to_u16();
                for i in 0..n {
                    let exp = ["P1", "CV"].get(i as usize).copied().unwrap_or("");
                    out.push(Ref {
                        site: format!("{table}.{tag}.firstParamUiLabelNameId+{i}"),
                        class: "featureParams.cv.paramUiLabelNameId",
                        id: first.wrapping_add(i),
                        expect: (known && i < 2).then(|| exp.to_string()),
                    });
                }
            }
            Some(Ok(FeatureParams::Size(_))) => {}
        }
    }
}

fn title(s: &str) -> String {
    // Python str.title() on ASCII words
    s.split(' ')
        .map(|w| {
            let mut cs = w.chars();
            match cs.next() {
                Some(f) => f.to_ascii_uppercase().to_string() + &cs.as_str().to_ascii_lowercase(),
                None => String::new(),
            }
        })
        .collect::<Vec<_>>()
        .join(" ")
}

fn is_ribbi(s: &str) -> bool {
    matches!(s.to_lowercase().as_str(), "regular" | "bold" | "italic" | "bold italic")
}

/// The ufo2ft naming fallback chain (fontInfoData.py + outlineCompiler.setupTable_name), stated
/// from its documentation, for name ids 1,2,3,4,5,6 and the presence rule for 16/17.
struct Chain {
    id1: String,
    id2: String,
    id3: String,
    id4: String,
    id5: String,
    id6: String,
}

fn chain(c: &Case, stamp: &str) -> Chain {
    // styleMapStyleName: explicit, else styleName lowercased if RIBBI, else "regular"; id 2 is its title-case
    let sm_style = if c.sm & 2 != 0 {
        SM_STYLE.to_string()
    } else if is_ribbi(&c.style) {
        c.style.trim().to_lowercase()
    } else {
        "regular".into()
    };
    // styleMapFamilyName: explicit, else familyName [+ " " + styleName unless (styleMapStyleName if set
    // else styleName) is RIBBI]
    let id1 = if c.sm & 1 != 0 {
        c.family.clone()
    } else {
        let deciding = if c.sm & 2 != 0 { SM_STYLE } else { c.style.as_str() };
        if is_ribbi(deciding) {
            c.family.clone()
        } else {
            format!("{} {}", c.family, deciding).trim().to_string()
        }
    };
    let (maj, min) = if c.sm == 3 { (1, 5) } else { (0, 0) };
    let version = format!("Version {maj}.{min:03}");
    let id6 = psify(&format!("{}-{}", c.family, c.style));
    Chain {
        id1,
        id2: title(&sm_style),
        id3: format!("{};NONE;{}", version.replace("Version ", ""), id6),
        id4: format!("{} {}", c.family, c.style),
        id5: format!("{version};fontc {stamp}"),
        id6,
    }
}

fn fixed_eq(raw: f64, want: f64) -> bool {
    (raw - want).abs() < 1.0 / 65536.0
}

fn judge(c: &Case, d: &Design, bytes: &[u8], stamp: &str) -> Judged {
    let mut j = Judged::default();
    let mut v: Vec<(String, String)> = vec![];
    let font = match FontRef::new(bytes) {
        Ok(f) => f,
        Err(e) => {
            j.viol.push(("unreadable:font".into(), e.to_string()));
            return j;
        }
    };
    let names = match NameTab::read(&font) {
        Ok(n) => n,
        Err(e) => {
            j.viol.push(("unreadable:name".into(), e));
            return j;
        }
    };
    if !names.sorted_unique() {
        v.push((
            "name-records-unsorted-or-duplicate".into(),
            format!("{:?}", names.recs.iter().map(|r| (r.0, r.1, r.2, r.3)).collect::<Vec<_>>()),
        ));
    }
    let mut refs: Vec<Ref> = vec![];
    // (name id, index of the source axis) of every axis name reference whose string comes from the designspace
    let mut axis_refs: Vec<(u16, usize)> = vec![];

    // ---- fvar
    match (c.is_variable(), font.fvar()) {
        (false, Ok(_)) => v.push(("fvar-in-static-font".into(), "a font without axes has an fvar table".into())),
        (true, Err(e)) => v.push(("fvar-missing".into(), format!("{e}"))),
        (false, Err(_)) => {}
        (true, Ok(fvar)) => {
            match fvar.axes() {
                Ok(axes) => {
                    if axes.len() != d.axes.len() {
                        v.push(("fvar-axis-count".into(), format!("source {} font {}", d.axes.len(), axes.len())));
                    }
                    for (i, (a, da)) in axes.iter().zip(&d.axes).enumerate() {
                        let id = a.axis_name_id().to_u16();
                        // fvar: "axisNameID ... greater than 255 and less than 32768"
                        if !(id > 255 && id < 32768) {
                            v.push((
                                format!("fvar-axis-name-reserved-id:{id}"),
                                format!("axis {} ({:?}) has axisNameID {id}; the spec requires 255 < id < 32768", a.axis_tag(), da.name),
                            ));
                        }
                        refs.push(Ref {
                            site: format!("fvar.axis[{i}].axisNameID"),
                            class: "fvar.axisNameID",
                            id,
                            expect: Some(ui_name(da)),
                        });
                        axis_refs.push((id, i));
                    }
                }
                Err(e) => v.push(("unreadable:fvar.axes".into(), e.to_string())),
            }
            match fvar.instances() {
                Ok(insts) => {
                    if insts.len() != d.instances.len() {
                        v.push((
                            "fvar-instance-count".into(),
                            format!("source has {} instances, fvar has {}", d.instances.len(), insts.len()),
                        ));
                    }
                    for (i, di) in d.instances.iter().enumerate() {
                        let Some(Ok(inst)) = (i < insts.len()).then(|| insts.get(i)) else {
                            continue;
                        };
                        let coords: Vec<f64> = inst.coordinates.iter().map(|f| f.get().to_f64()).collect();
                        if coords.len() != di.user_loc.len()
                            || coords.iter().zip(&di.user_loc).any(|(a, b)| !fixed_eq(*a, *b))
                        {
                            v.push((
                                "fvar-instance-coordinates".into(),
                                format!("instance {i} {:?}: source {:?} font {:?}", di.style, di.user_loc, coords),
                            ));
                        }
                        let is_default = d.axes.iter().zip(&di.user_loc).all(|(a, u)| a.default == *u);
                        let sid = inst.subfamily_name_id.to_u16();
                        // fvar InstanceRecord: subfamilyNameID "2, 17, or ... greater than 255 and less than 32768";
                        // "The values 2 or 17 should only be used if the named instance corresponds to the
                        // font's default instance."
                        if !(sid == 2 || sid == 17 || (sid > 255 && sid < 32768)) {
                            v.push((
                                format!("fvar-instance-subfamily-reserved-id:{sid}"),
                                format!(
                                    "instance {i} {:?} (default location: {is_default}) has subfamilyNameID {sid}; fvar allows only 2, 17 or 256..32767",
                                    di.style
                                ),
                            ));
                        } else if (sid == 2 || sid == 17) && !is_default {
                            v.push((
                                format!("fvar-instance-subfamily-2-17-not-default:{sid}"),
                                format!("instance {i} {:?} is not at the default location but uses subfamilyNameID {sid}", di.style),
                            ));
                        }
                        refs.push(Ref {
                            site: format!("fvar.instance[{i}].subfamilyNameID"),
                            class: "fvar.subfamilyNameID",
                            id: sid,
                            expect: Some(di.style.clone()),
                        });
                        match (inst.post_script_name_id, &di.ps_name) {
                            // read-fonts reports an absent field and 0xFFFF ("no name") alike as None
                            (None, None) => {}
                            (None, Some(ps)) => v.push((
                                "fvar-instance-psname-dropped".into(),
                                format!("instance {i} {:?}: postscriptfontname {ps:?} but no postScriptNameID", di.style),
                            )),
                            (Some(pid), want) => {
                                let pid = pid.to_u16();
                                match want {
                                    None => {
                                        // no name in the source: the field must say "none" (0xFFFF)
                                        if pid != 0xFFFF {
                                            v.push((
                                                "fvar-instance-psname-invented".into(),
                                                format!("instance {i} {:?} has no postscriptfontname but postScriptNameID {pid}", di.style),
                                            ));
                                        }
                                    }
                                    Some(ps) => {
                                        // fvar: postScriptNameID "6, 0xFFFF, or greater than 255 and less than 32768"
                                        if pid == 0xFFFF {
                                            v.push((
                                                "fvar-instance-psname-dropped".into(),
                                                format!("instance {i} {:?}: postscriptfontname {ps:?} but postScriptNameID 0xFFFF", di.style),
                                            ));
                                        } else {
                                            if !(pid == 6 || (pid > 255 && pid < 32768)) {
                                                v.push((
                                                    format!("fvar-instance-psname-reserved-id:{pid}"),
                                                    format!("instance {i} {:?} has postScriptNameID {pid}; fvar allows only 6, 0xFFFF or 256..32767", di.style),
                                                ));
                                            }
                                            refs.push(Ref {
                                                site: format!("fvar.instance[{i}].postScriptNameID"),
                                                class: "fvar.postScriptNameID",
                                                id: pid,
                                                expect: Some(ps.clone()),
                                            });
                                        }
                                    }
                                }
                            }
                        }
                    }
                }
                Err(e) => v.push(("unreadable:fvar.instances".into(), e.to_string())),
            }
        }
    }

    // ---- STAT
    let stat_expected = c.is_variable() || c.fea_stat != 0;
    match (stat_expected, font.stat()) {
        (true, Err(e)) => v.push(("stat-missing".into(), format!("{e}"))),
        (false, Ok(_)) => v.push(("stat-in-static-font".into(), "static font without FEA STAT has a STAT table".into())),
        (false, Err(_)) => {}
        (true, Ok(stat)) => {
            match stat.design_axes() {
                Ok(axes) => {
                    for (i, a) in axes.iter().enumerate() {
                        let tag = a.axis_tag().to_string();
                        let expect = if c.fea_stat != 0 {
                            // the FEA table replaces the generated one; it declares one axis, wght
                            (tag == "wght").then(|| c.stat_axis_label())
                        } else {
                            if let Some(ai) = d.axes.iter().position(|x| x.tag == tag) {
                                axis_refs.push((a.axis_name_id().to_u16(), ai));
                            }
                            d.axes.iter().find(|x| x.tag == tag).map(ui_name)
                        };
                        if expect.is_none() {
                            v.push(("stat-unknown-axis".into(), format!("STAT design axis {tag} is not in the source")));
                        }
                        refs.push(Ref {
                            site: format!("STAT.axis[{i}].axisNameID"),
                            class: "STAT.axisNameID",
                            id: a.axis_name_id().to_u16(),
                            expect,
                        });
                    }
                    let want_axes = if c.fea_stat != 0 { 1 } else { d.axes.len() };
                    if axes.len() != want_axes {
                        v.push(("stat-axis-count".into(), format!("expected {want_axes} design axes, STAT has {}", axes.len())));
                    }
                }
                Err(e) => v.push(("unreadable:STAT.designAxes".into(), e.to_string())),
            }
            let mut n_values = 0;
            if let Some(Ok(arr)) = stat.offset_to_axis_values() {
                for (i, av) in arr.axis_values().iter().enumerate() {
                    match av {
                        Ok(av) => {
                            n_values += 1;
                            refs.push(Ref {
                                site: format!("STAT.axisValue[{i}].valueNameID"),
                                class: "STAT.valueNameID",
                                id: av.value_name_id().to_u16(),
                                expect: (c.fea_stat != 0).then(|| "Regular".to_string()),
                            });
                        }
                        Err(e) => v.push(("unreadable:STAT.axisValue".into(), e.to_string())),
                    }
                }
            }
            if c.fea_stat != 0 && n_values != 1 {
                v.push(("stat-axis-value-count".into(), format!("FEA STAT declares 1 AxisValue, font has {n_values}")));
            }
            match stat.elided_fallback_name_id() {
                None => {
                    if c.fea_stat != 0 {
                        v.push(("stat-elided-fallback-missing".into(), "FEA STAT names an elided fallback, the table (version 1.0) has none".into()));
                    }
                }
                Some(id) => {
                    let id = id.to_u16();
                    if c.fea_stat >= 2 && id != 2 {
                        v.push((
                            "stat-elided-fallback-id-changed".to_string(),
                            format!(
                                "FEA says `ElidedFallbackNameID 2;`, STAT.elidedFallbackNameID is {id} (string {:?})",
                                names.win(id)
                            ),
                        ));
                    }
                    refs.push(Ref {
                        site: "STAT.elidedFallbackNameID".into(),
                        class: "STAT.elidedFallbackNameID",
                        id,
                        expect: (c.fea_stat == 1).then(|| "Roman".to_string()),
                    });
                }
            }
        }
    }

    // ---- GSUB / GPOS feature parameters
    let mut fp_refs = vec![];
    if let Ok(gsub) = font.gsub() {
        match gsub.feature_list() {
            Ok(l) => feature_param_refs(&l, "GSUB", c, &mut fp_refs, &mut v),
            Err(e) => v.push(("unreadable:GSUB.featureList".into(), e.to_string())),
        }
    }
    if let Ok(gpos) = font.gpos() {
        match gpos.feature_list() {
            Ok(l) => feature_param_refs(&l, "GPOS", c, &mut fp_refs, &mut v),
            Err(e) => v.push(("unreadable:GPOS.featureList".into(), e.to_string())),
        }
    }
    for (flag, class, what) in [
        (c.fea_ss, "featureParams.ss.UINameID", "ss01 featureNames"),
        (c.fea_cv, "featureParams.cv.featUiLabelNameId", "cv01 cvParameters"),
    ] {
        if flag && !fp_refs.iter().any(|r| r.class == class) {
            v.push((format!("feature-params-dropped:{class}"), format!("the FEA declares {what} but no such feature parameters are in GSUB")));
        }
    }
    j.has_feature_params = !fp_refs.is_empty();
    refs.extend(fp_refs);

    // ---- every reference resolves to a non-empty record that says what the source says
    for r in &refs {
        j.refs += 1;
        if r.id < 256 {
            j.refs_below_256 += 1;
            if r.class.starts_with("fvar.") {
                j.fvar_refs_below_256 += 1;
            }
        }
        if r.class.starts_with("STAT.") && (26..=255).contains(&r.id) {
            v.push((
                format!("stat-reserved-id:{}:{}", r.class, r.id),
                format!("{} = {} is in the range 26..255 the name table reserves for future use", r.site, r.id),
            ));
        }
        if r.class.starts_with("featureParams.") && r.id < 256 && !(r.id == 0 && r.class != "featureParams.ss.UINameID" && r.expect.is_none()) {
            v.push((
                format!("feature-params-reserved-id:{}:{}", r.class, r.id),
                format!("{} = {}; feature parameter name ids are font-specific (256..32767)", r.site, r.id),
            ));
        }
        match names.win(r.id) {
            None => v.push((
                format!("name-ref-missing:{}", r.class),
                format!("{} = {} has no Windows (3,1,0x409) record in name; source string {:?}", r.site, r.id, r.expect),
            )),
            Some("") => v.push((
                format!("name-ref-empty:{}", r.class),
                format!("{} = {} refers to an empty string", r.site, r.id),
            )),
            Some(s) => {
                if let Some(e) = &r.expect {
                    if e != s {
                        v.push((
                            format!("string-mismatch:{}", r.class),
                            format!("{} = {}: font says {s:?}, the source says {e:?}", r.site, r.id),
                        ));
                    }
                }
            }
        }
    }

    // ---- axis labelnames: which rule gave the expected string; records in other languages under the axis' id
    for &(_, ai) in &axis_refs {
        let da = &d.axes[ai];
        if da.labelnames.iter().any(|(l, _)| l == "en") {
            j.axis_refs_from_en_labelname += 1;
        } else {
            if !da.labelnames.is_empty() {
                j.axis_refs_fallback_despite_labelnames += 1;
            }
            if ui_name(da) != da.name {
                j.axis_refs_legacy_name_expanded += 1;
            }
        }
    }
    let mut seen: BTreeSet<(u16, usize)> = BTreeSet::new();
    for &(id, ai) in &axis_refs {
        if !seen.insert((id, ai)) {
            continue;
        }
        let da = &d.axes[ai];
        let want_en = ui_name(da);
        for r in names.recs.iter().filter(|r| r.3 == id) {
            // (platform, language) -> the source string of that language, where the alphabet has the language
            let (english, want): (bool, Option<String>) = match (r.0, r.2) {
                (3, 0x0409) => continue, // judged above, as the string behind the reference
                (1, 0) => (true, Some(want_en.clone())),
                (3, l) => (false, da.labelnames.iter().find(|(x, _)| lang_ids(x).map(|p| p.0) == Some(l)).map(|(_, s)| s.clone())),
                (1, l) => (false, da.labelnames.iter().find(|(x, _)| x != "en-GB" && lang_ids(x).map(|p| p.1) == Some(l)).map(|(_, s)| s.clone())),
                _ => (false, None),
            };
            if !english {
                j.localized_axis_records += 1;
            }
            let Some(want) = want else { continue };
            if !english {
                j.localized_axis_records_judged += 1;
            }
            if r.4 != want {
                v.push((
                    format!("axis-labelname-record:{}", if english { "english" } else { "localized" }),
                    format!(
                        "name id {id} (axis {}) record (platform {}, language {:#06x}) says {:?}; the source's label for that language is {want:?}",
                        da.tag, r.0, r.2, r.4
                    ),
                ));
            }
        }
    }

    // ---- FEA `table name` statement
    if c.fea_name && names.win(9) != Some("Designer") {
        v.push(("fea-name-statement-lost".into(), format!("FEA `nameid 9 \"Designer\"`: font has {:?}", names.win(9))));
    }

    // ---- the required strings exist (all configurations)
    for id in [1u16, 2, 3, 4, 5, 6] {
        if names.win(id).is_none_or(|s| s.is_empty()) {
            v.push((format!("name-required-missing:id{id}"), format!("name id {id} is absent or empty")));
        }
    }
    if let Some(s) = names.win(16) {
        if s != c.family {
            v.push(("name-chain:id16".into(), format!("id 16 is {s:?}, the source's familyName is {:?}", c.family)));
        }
    }
    if let Some(s) = names.win(17) {
        if s != c.style {
            v.push(("name-chain:id17".into(), format!("id 17 is {s:?}, the source's styleName is {:?}", c.style)));
        }
    }

    // ---- the fallback chain on the minimal and the fully specified configuration
    if c.sm == 0 || c.sm == 3 {
        let ch = chain(c, stamp);
        for (id, want) in [(1u16, &ch.id1), (2, &ch.id2), (3, &ch.id3), (4, &ch.id4), (5, &ch.id5), (6, &ch.id6)] {
            let got = names.win(id).unwrap_or("");
            if got != want && !got.is_empty() {
                v.push((
                    format!("name-chain:id{id}:sm{}", c.sm),
                    format!("id {id} is {got:?}, the fallback chain gives {want:?}"),
                ));
            }
        }
        // 16 / 17: present when they differ from 1 / 2, absent when both coincide with 1 / 2.
        // (exactly one coinciding: ufo2ft versions differ on whether that one is dropped — not asserted)
        let (e16, e17) = (ch.id1 != c.family, ch.id2 != c.style);
        if e16 && names.win(16).is_none() {
            v.push(("name-chain:id16-missing".into(), format!("id 1 {:?} differs from familyName {:?} but id 16 is absent", ch.id1, c.family)));
        }
        if e17 && names.win(17).is_none() {
            v.push(("name-chain:id17-missing".into(), format!("id 2 {:?} differs from styleName {:?} but id 17 is absent", ch.id2, c.style)));
        }
        if !e16 && !e17 && (names.win(16).is_some() || names.win(17).is_some()) {
            v.push((
                "name-chain:id16-17-redundant".into(),
                format!("ids 16/17 present ({:?}/{:?}) although identical to ids 1/2", names.win(16), names.win(17)),
            ));
        }
    }

    // ---- coincidence signature: the equality pattern among the naming strings of this font
    let mut slots: Vec<(String, String)> = vec![];
    for id in [1u16, 2, 4, 6, 16, 17] {
        if let Some(s) = names.win(id) {
            slots.push((format!("n{id}"), s.to_string()));
        }
    }
    for (i, a) in d.axes.iter().enumerate() {
        slots.push((format!("ax{i}"), ui_name(a)));
    }
    for (i, inst) in d.instances.iter().enumerate() {
        if c.is_variable() {
            let dflt = c.default_inst.is_some() && i == 0;
            slots.push((format!("{}{i}", if dflt { "di" } else { "oi" }), inst.style.clone()));
            if let Some(p) = &inst.ps_name {
                slots.push((format!("ps{i}"), p.clone()));
            }
        }
    }
    let mut classes: BTreeMap<&str, Vec<&str>> = BTreeMap::new();
    for (slot, s) in &slots {
        classes.entry(s.as_str()).or_default().push(slot.as_str());
    }
    let mut groups: Vec<String> = classes.values().filter(|g| g.len() > 1).map(|g| g.join("=")).collect();
    groups.sort();
    j.coinciding = !groups.is_empty();
    j.signature = format!("{:?}|{}", c.shape, groups.join(","));
    if c.has_labelnames() {
        j.signature.push_str(&format!("|labelnames {}", c.ln_signature()));
    }
    // coarse form: only the classes that contain a source label (axis / instance / PostScript name),
    // instance positions forgotten
    let mut coarse: Vec<String> = classes
        .values()
        .filter(|g| g.len() > 1 && g.iter().any(|s| !s.starts_with('n')))
        .map(|g| {
            let mut m: Vec<String> =
                g.iter().map(|s| if s.starts_with('n') { s.to_string() } else { s[..2].to_string() }).collect();
            m.dedup();
            m.join("=")
        })
        .collect();
    coarse.sort();
    j.signature_coarse = format!("{:?}|{}", c.shape, coarse.join(","));
    j.classes_coarse = coarse.iter().map(|g| format!("{:?}|{g}", c.shape)).collect();
    if c.has_labelnames() {
        // the labelname configuration is a class of its own (the labels go through a map keyed by language)
        j.signature_coarse.push_str(&format!("|labelnames {}", c.ln_signature()));
        for (i, l) in c.axis_lnames.iter().enumerate().filter(|(_, l)| !l.is_empty()) {
            let langs: Vec<&str> = l.iter().map(|(lang, _)| lang.as_str()).collect();
            j.classes_coarse.push(format!("{:?}|labelnames axis {i}: {}", c.shape, langs.join("+")));
        }
    }
    j.viol = v;
    j
}

// ------------------------------------------------------------------ running one case

#[derive(Default)]
struct CaseOut {
    viol: Vec<(String, String)>,
    refs: usize,
    refs_below_256: usize,
    has_fp: bool,
    coinciding: bool,
    signature: String,
    signature_coarse: String,
    classes_coarse: Vec<String>,
    fvar_refs_below_256: usize,
    compiled: bool,
    extra_compiles: usize,
    axis_refs_from_en_labelname: usize,
    axis_refs_fallback_despite_labelnames: usize,
    axis_refs_legacy_name_expanded: usize,
    localized_axis_records: usize,
    localized_axis_records_judged: usize,
}

/// Compile again on the same thread. std's `RandomState::new()` hands every new map the thread's keys
/// and then increments them, so the maps of a second compile iterate in a different order than those of
/// the first — an (unowned) variation of the hash seed that costs one more compile. The owned variation
/// is the seed dimension below.
fn compile_again(path: &std::path::Path) -> Result<Vec<u8>, fcx::Failure> {
    fcx::compile(path, &fcx::Opts::default(), None)
}

fn differing_tables(a: &[u8], b: &[u8]) -> Vec<String> {
    let (Ok(fa), Ok(fb)) = (FontRef::new(a), FontRef::new(b)) else {
        return vec!["<unreadable>".into()];
    };
    let mut tags: BTreeSet<write_fonts::types::Tag> = BTreeSet::new();
    for f in [&fa, &fb] {
        for r in f.table_directory.table_records() {
            tags.insert(r.tag());
        }
    }
    tags.into_iter()
        .filter(|t| fa.table_data(*t).map(|d| d.as_bytes().to_vec()) != fb.table_data(*t).map(|d| d.as_bytes().to_vec()))
        .filter(|t| t.to_string() != "head") // checksum adjustment follows any other difference
        .map(|t| t.to_string())
        .collect()
}

static T_WRITE: std::sync::atomic::AtomicU64 = std::sync::atomic::AtomicU64::new(0);
static T_COMPILE: std::sync::atomic::AtomicU64 = std::sync::atomic::AtomicU64::new(0);
static T_REST: std::sync::atomic::AtomicU64 = std::sync::atomic::AtomicU64::new(0);

fn run_case(c: &Case, repeats: usize, stamp: &str) -> CaseOut {
    use std::sync::atomic::Ordering::Relaxed;
    let t = std::time::Instant::now();
    let d = build_design(c);
    let sc = Scratch::new("c18");
    let path = write_source(c, &d, sc.path());
    T_WRITE.fetch_add(t.elapsed().as_micros() as u64, Relaxed);
    let t = std::time::Instant::now();
    let mut out = CaseOut::default();
    let first = fcx::compile(&path, &fcx::Opts::default(), None);
    T_COMPILE.fetch_add(t.elapsed().as_micros() as u64, Relaxed);
    let t = std::time::Instant::now();
    run_case_rest(c, &d, &path, first, repeats, stamp, &mut out);
    drop(sc);
    T_REST.fetch_add(t.elapsed().as_micros() as u64, Relaxed);
    out
}

fn run_case_rest(
    c: &Case,
    d: &Design,
    path: &std::path::Path,
    first: Result<Vec<u8>, fcx::Failure>,
    repeats: usize,
    stamp: &str,
    out: &mut CaseOut,
) {
    let bytes = match first {
        Ok(b) => b,
        Err(e) => {
            let msg = match &e {
                fcx::Failure::Error(m) => format!("error: {m}"),
                fcx::Failure::Panic(m) => format!("panic: {m}"),
            };
            // class of the message: scratch paths and numbers removed, punctuation folded
            let mut class = String::new();
            for w in msg.split_whitespace().filter(|w| !w.contains("/dev/shm") && !w.contains("/tmp")) {
                let w: String = w.chars().filter(|ch| ch.is_ascii_alphabetic()).collect();
                if !w.is_empty() {
                    if !class.is_empty() {
                        class.push('-');
                    }
                    class.push_str(&w);
                }
                if class.len() > 70 {
                    break;
                }
            }
            out.viol.push((format!("compile-failed:{class}"), msg));
            return;
        }
    };
    out.compiled = true;
    let j = judge(c, d, &bytes, stamp);
    out.viol = j.viol;
    out.refs = j.refs;
    out.refs_below_256 = j.refs_below_256;
    out.has_fp = j.has_feature_params;
    out.coinciding = j.coinciding;
    out.signature = j.signature;
    out.signature_coarse = j.signature_coarse;
    out.classes_coarse = j.classes_coarse;
    out.fvar_refs_below_256 = j.fvar_refs_below_256;
    out.axis_refs_from_en_labelname = j.axis_refs_from_en_labelname;
    out.axis_refs_fallback_despite_labelnames = j.axis_refs_fallback_despite_labelnames;
    out.axis_refs_legacy_name_expanded = j.axis_refs_legacy_name_expanded;
    out.localized_axis_records = j.localized_axis_records;
    out.localized_axis_records_judged = j.localized_axis_records_judged;
    // the labelnames go through a map keyed by language: recompile those cases under other hash keys too
    if out.coinciding || c.has_labelnames() {
        for _ in 0..repeats {
            out.extra_compiles += 1;
            match compile_again(path) {
                Ok(b2) if b2 == bytes => {}
                Ok(b2) => {
                    let t = differing_tables(&bytes, &b2);
                    out.viol.push((
                        "output-depends-on-hash-order".to_string(),
                        format!("two in-process compiles of the same source (different std hash keys per map) differ in tables {t:?}"),
                    ));
                    break;
                }
                Err(e) => {
                    out.viol.push(("output-depends-on-hash-order:failure".into(), format!("second compile failed: {e:?}")));
                    break;
                }
            }
        }
    }
}

/// seeds 0..N through the product binary; returns (runs, violation)
fn run_seeds(c: &Case, n_seeds: u64) -> (usize, Option<(String, String)>) {
    let d = build_design(c);
    let sc = Scratch::new("c18s");
    let path = write_source(c, &d, sc.path());
    let bin = vcore::fontc_bin();
    let mut first: Option<(u64, Vec<u8>)> = None;
    let mut runs = 0;
    for seed in 0..n_seeds {
        let out = sc.join(&format!("out{seed}.ttf"));
        let mut cmd = vcore::fontc_cmd(&bin, Some(seed));
        cmd.current_dir(sc.path())
            .env("RAYON_NUM_THREADS", "2")
            .arg(&path)
            .arg("-o")
            .arg(&out);
        let r = vcore::run_proc(&mut cmd, 60_000, None);
        runs += 1;
        if r.code != Some(0) {
            return (
                runs,
                Some((
                    "seeded-compile-failed".into(),
                    format!("seed {seed}: {} {}", r.summary(), r.stderr.chars().take(300).collect::<String>()),
                )),
            );
        }
        let bytes = std::fs::read(&out).unwrap_or_default();
        match &first {
            None => first = Some((seed, bytes)),
            Some((s0, b0)) => {
                if *b0 != bytes {
                    let t = differing_tables(b0, &bytes);
                    let describe = |b: &[u8]| -> String {
                        FontRef::new(b)
                            .ok()
                            .and_then(|f| NameTab::read(&f).ok())
                            .map(|n| {
                                n.recs
                                    .iter()
                                    .filter(|r| r.3 == 1 || r.3 == 2 || r.3 == 16 || r.3 == 17 || r.3 > 255)
                                    .map(|r| format!("{}={:?}", r.3, r.4))
                                    .collect::<Vec<_>>()
                                    .join(" ")
                            })
                            .unwrap_or_default()
                    };
                    return (
                        runs,
                        Some((
                            "output-depends-on-hash-seed".to_string(),
                            format!(
                                "hash seeds {s0} and {seed} give different fonts (tables {t:?}); names seed {s0}: [{}] seed {seed}: [{}]",
                                describe(b0),
                                describe(&bytes)
                            ),
                        )),
                    );
                }
            }
        }
    }
    (runs, None)
}

fn replay_json(c: &Case, kind: &str) -> Value {
    json!({"kind": kind, "case": c, "design": build_design(c), "fea": c.fea_text()})
}

// ------------------------------------------------------------------ main

fn main() {
    let args = vcore::parse_args();
    // head.created/modified must not depend on the wall clock (single-threaded here)
    unsafe { std::env::set_var("SOURCE_DATE_EPOCH", "1700000000") };
    fcx::silence_panics();
    // many short compiles on many threads: keep freed memory in the arenas instead of returning it to
    // the kernel each time (munmap/madvise storms serialise the threads on the address-space lock)
    unsafe {
        libc::mallopt(libc::M_MMAP_THRESHOLD, 1 << 30);
        libc::mallopt(libc::M_TRIM_THRESHOLD, i32::MAX);
    }
    let stamp = fontc::version();

    if let Some(p) = &args.replay {
        let text = std::fs::read_to_string(p).unwrap_or_else(|e| vcore::machinery_error(&format!("{p:?}: {e}")));
        let v: Value = serde_json::from_str(&text).unwrap_or_else(|e| vcore::machinery_error(&format!("{p:?}: {e}")));
        let rp = &v["replay"];
        let c: Case = serde_json::from_value(rp["case"].clone())
            .unwrap_or_else(|e| vcore::machinery_error(&format!("replay case: {e}")));
        println!("replaying {}", c.short());
        // `--replay <file> --emit <dir>`: also leave the generated source in <dir> for manual runs
        if let Some(pos) = args.rest.iter().position(|a| a == "--emit") {
            if let Some(dir) = args.rest.get(pos + 1) {
                let p = write_source(&c, &build_design(&c), std::path::Path::new(dir));
                println!("  source written to {}", p.display());
            }
        }
        let mut failed = false;
        let o = run_case(&c, 8, &stamp);
        for (k, w) in &o.viol {
            println!("  VIOLATION {k}: {w}");
            failed = true;
        }
        if rp["kind"] == "seed" {
            let (runs, viol) = run_seeds(&c, 32);
            println!("  {runs} seeded product-binary runs");
            if let Some((k, w)) = viol {
                println!("  VIOLATION {k}: {w}");
                failed = true;
            }
        }
        if !failed {
            println!("  no violation");
        }
        vcore::cleanup_scratch();
        std::process::exit(failed as i32);
    }

    let mut rep = Reporter::new("C18", "exploration", &args);
    let tier = args.tier;
    let mut cases = enumerate(tier);
    // debugging aid: C18_STRIDE=k keeps every k-th case (the run is then not exhaustive)
    let stride: usize = std::env::var("C18_STRIDE").ok().and_then(|s| s.parse().ok()).unwrap_or(1);
    if stride > 1 {
        cases = cases.into_iter().step_by(stride).collect();
    }
    let repeats = tier.pick(1, 2);
    let threads = vcore::ncores();
    eprintln!("[C18] {} cases, {} threads", cases.len(), threads);
    let outs = vcore::par_for(cases.len(), threads, |i| run_case(&cases[i], repeats, &stamp));
    {
        use std::sync::atomic::Ordering::Relaxed;
        eprintln!(
            "[C18] in-process phase done at {:.1}s (thread-seconds: write {:.1}, first compile {:.1}, judge+recompiles+cleanup {:.1})",
            rep.elapsed_s(),
            T_WRITE.load(Relaxed) as f64 / 1e6,
            T_COMPILE.load(Relaxed) as f64 / 1e6,
            T_REST.load(Relaxed) as f64 / 1e6
        );
    }

    let mut by_shape: BTreeMap<String, u64> = BTreeMap::new();
    let (mut compiled, mut coinciding, mut with_inst, mut with_fp, mut reuse_cases, mut refs, mut refs_low, mut nontrivial, mut extra) =
        (0u64, 0u64, 0u64, 0u64, 0u64, 0u64, 0u64, 0u64, 0u64);
    let mut chain_asserted = 0u64;
    let mut fvar_reuse_cases = 0u64;
    let mut ln_cases: BTreeMap<String, u64> = BTreeMap::new();
    let (mut ln_total, mut ln_en, mut ln_fallback, mut ln_legacy, mut ln_loc, mut ln_loc_judged) = (0u64, 0u64, 0u64, 0u64, 0u64, 0u64);
    let mut sig_reps: BTreeMap<String, Vec<usize>> = BTreeMap::new();
    let mut samples: Vec<Value> = vec![];
    for (i, (c, o)) in cases.iter().zip(&outs).enumerate() {
        *by_shape.entry(format!("{:?}", c.shape)).or_default() += 1;
        compiled += o.compiled as u64;
        coinciding += o.coinciding as u64;
        with_inst += (c.is_variable() && c.n_instances() > 0) as u64;
        with_fp += o.has_fp as u64;
        reuse_cases += (o.refs_below_256 > 0) as u64;
        fvar_reuse_cases += (o.fvar_refs_below_256 > 0) as u64;
        refs += o.refs as u64;
        refs_low += o.refs_below_256 as u64;
        extra += o.extra_compiles as u64;
        chain_asserted += (o.compiled && (c.sm == 0 || c.sm == 3)) as u64;
        if (o.coinciding || c.has_labelnames()) && o.refs > 0 {
            nontrivial += 1;
        }
        if c.has_labelnames() {
            ln_total += 1;
            for l in c.axis_lnames.iter().filter(|l| !l.is_empty()) {
                let langs: Vec<&str> = l.iter().map(|(lang, _)| lang.as_str()).collect();
                *ln_cases.entry(langs.join("+")).or_default() += 1;
            }
        }
        ln_en += o.axis_refs_from_en_labelname as u64;
        ln_fallback += o.axis_refs_fallback_despite_labelnames as u64;
        ln_legacy += o.axis_refs_legacy_name_expanded as u64;
        ln_loc += o.localized_axis_records as u64;
        ln_loc_judged += o.localized_axis_records_judged as u64;
        let seed_candidate = tier == Tier::Thorough || c.fea_text().is_none();
        if (o.coinciding || c.has_labelnames()) && c.is_variable() && seed_candidate {
            let sig = tier.pick(&o.signature_coarse, &o.signature);
            sig_reps.entry(sig.clone()).or_default().push(i);
        }
        for (k, w) in &o.viol {
            rep.violation(k, &format!("{w} — case: {}", c.short()), replay_json(c, "inprocess"));
        }
        if samples.len() < 6 && i % (cases.len() / 6).max(1) == 0 {
            samples.push(json!({"case": c.short(), "signature": o.signature, "name_refs": o.refs, "refs_below_256": o.refs_below_256}));
        }
    }

    // ---- the seed dimension: representatives of every coincidence signature through the product binary
    let bin = vcore::fontc_bin();
    if !bin.exists() || !vcore::shim_path().exists() {
        vcore::machinery_error(&format!("product binary {bin:?} or hash-seed shim missing (run ./check setup)"));
    }
    let per_sig = tier.pick(1usize, 2);
    let mut seed_cases: Vec<usize> = vec![];
    let mut classes_covered: BTreeSet<String> = BTreeSet::new();
    match tier {
        Tier::Quick => {
            // first-fit cover: walk the (FEA-free, variable) coinciding cases in enumeration order and take a
            // case whenever it shows a coincidence class (one set of equal strings containing a source
            // label) not seen in a case taken before
            for idxs in sig_reps.values() {
                for &i in idxs.iter().take(1) {
                    if outs[i].classes_coarse.iter().any(|k| !classes_covered.contains(k)) {
                        classes_covered.extend(outs[i].classes_coarse.iter().cloned());
                        seed_cases.push(i);
                    }
                }
            }
        }
        Tier::Thorough => {
            for idxs in sig_reps.values() {
                // spread the representatives over the signature's cases (first, last, evenly between)
                let n = idxs.len().min(per_sig);
                for k in 0..n {
                    let pos = if n == 1 { 0 } else { k * (idxs.len() - 1) / (n - 1) };
                    seed_cases.push(idxs[pos]);
                    classes_covered.extend(outs[idxs[pos]].classes_coarse.iter().cloned());
                }
            }
        }
    }
    seed_cases.sort();
    seed_cases.dedup();
    // cases whose in-process recompile already differed go first (at most 3), so that the owned-seed
    // confirmation of that class does not depend on the time budget
    let flagged: Vec<usize> = (0..cases.len())
        .filter(|&i| cases[i].is_variable() && outs[i].viol.iter().any(|(k, _)| k == "output-depends-on-hash-order"))
        .take(3)
        .collect();
    seed_cases.retain(|i| !flagged.contains(i));
    seed_cases.splice(0..0, flagged.iter().copied());
    let budget_s = tier.pick(105.0, 600.0) * vcore::budget_scale();
    let t0 = std::time::Instant::now();
    let seed_outs = vcore::par_for(seed_cases.len(), threads, |k| {
        if t0.elapsed().as_secs_f64() > budget_s {
            return (0usize, None, true);
        }
        let (runs, v) = run_seeds(&cases[seed_cases[k]], N_SEEDS);
        (runs, v, false)
    });
    let mut seed_runs = 0u64;
    let mut seed_done = 0u64;
    let mut capped = false;
    for (k, (runs, v, skipped)) in seed_outs.iter().enumerate() {
        seed_runs += *runs as u64;
        if *skipped {
            capped = true;
            continue;
        }
        seed_done += 1;
        if let Some((key, what)) = v {
            let c = &cases[seed_cases[k]];
            rep.violation(key, &format!("{what} — case: {}", c.short()), replay_json(c, "seed"));
        }
    }

    rep.set("evaluations", cases.len() as u64 + extra + seed_runs);
    rep.set("cases", cases.len() as u64);
    rep.set("cases_by_shape", json!(by_shape));
    rep.set("compiled_ok", compiled);
    rep.set("distinct_nontrivial", nontrivial);
    rep.set(
        "rule",
        "cases whose font has at least one cross-table name reference (fvar/STAT/feature params) AND (a string coincidence: two of {name ids 1,2,4,6,16,17 of the font, axis display names, instance names, instance PostScript names} are the same string, OR an axis with <labelname> elements)",
    );
    rep.set("fonts_with_coinciding_strings", coinciding);
    rep.set("variable_fonts_with_instances", with_inst);
    rep.set("fonts_with_feature_params", with_fp);
    rep.set("fonts_reusing_a_record_below_256", reuse_cases);
    rep.set("fonts_where_fvar_reuses_a_record_below_256", fvar_reuse_cases);
    rep.set("name_references_checked", refs);
    rep.set("name_references_below_256", refs_low);
    rep.set("fallback_chain_asserted_on", chain_asserted);
    rep.set("cases_with_axis_labelnames", ln_total);
    rep.set("axes_by_labelname_configuration", json!(ln_cases));
    rep.set("axis_name_refs_expecting_the_en_labelname", ln_en);
    rep.set("axis_name_refs_expecting_the_name_attribute_despite_labelnames", ln_fallback);
    rep.set("axis_name_refs_expecting_an_expanded_legacy_name", ln_legacy);
    rep.set("axis_name_records_in_other_languages", ln_loc);
    rep.set("axis_name_records_in_other_languages_judged", ln_loc_judged);
    rep.set("inprocess_recompiles_other_hash_keys", extra);
    rep.set("coincidence_signatures", sig_reps.len() as u64);
    rep.set(
        "coincidence_signature_rule",
        tier.pick(
            "equality classes among {name ids 1,2,4,6,16,17; axis labels; instance names; PostScript names} that contain a source label, instance positions forgotten",
            "all equality classes among {name ids 1,2,4,6,16,17; axis labels; instance names; PostScript names}",
        ),
    );
    rep.set("coincidence_classes_covered_by_seed_cases", classes_covered.len() as u64);
    rep.set("seed_cases", seed_done);
    rep.set("seed_cases_selected", seed_cases.len() as u64);
    rep.set("seeds_per_case", N_SEEDS);
    rep.set("seed_runs_product_binary", seed_runs);
    rep.set(
        "seed_case_selection",
        tier.pick(
            "first-fit cover of the coincidence classes by FEA-free variable cases".to_string(),
            format!("up to {per_sig} cases of every coincidence signature"),
        ),
    );
    rep.set("samples", json!(samples));
    rep.set("exhaustive", !capped && stride == 1);
    if capped {
        rep.set("cap", format!("seed dimension stopped after {budget_s} s: {seed_done} of {} selected cases", seed_cases.len()));
    }
    rep.set(
        "space",
        json!({
            "family": FAMILIES, "style": STYLES, "styleMap": tier.pick("minimal | full", "minimal | family only | style only | full"),
            "instance_names": INST_NAMES, "axis_labels": AXIS_LABELS,
            "axis_labelnames": {
                "configurations (xml:lang in document order)": LN_CONFIGS,
                "strings axis 0 / axis 1": LN_STRINGS.iter().map(|a| a.iter().map(|(l, s)| format!("{l}={s}")).collect::<Vec<_>>()).collect::<Vec<_>>(),
                "one axis": format!("axis name in {LN_AXIS_NAMES:?} x every configuration (none only for \"weight\") x family x style x styleMap x default-location instance in {}{} x FEA {}",
                    tier.pick("{none, Regular, Fam, Heaviness}", "{none, Regular, Fam, X, Heaviness}"),
                    tier.pick("", " x at most 1 other instance"),
                    tier.pick("{none, all three + STAT v1}", "{none, all three + STAT v1, all three + STAT v3}")),
                "two axes": format!("axes named weight, Fam; every pair of configurations except none/none x style {} x styleMap minimal|full x default-location instance {{none, Regular}}", tier.pick("{Regular, Bold}", "any")),
            },
            "instances": tier.pick("default-location instance in {none}+names x at most 1 other", "default-location instance in {none}+names x subsets of <= 2 others"),
            "ps_names": tier.pick("none | all", "none | all | first only"),
            "fea": tier.pick("none; each of {name stmt, ss01 featureNames, cv01 cvParameters, STAT v1, STAT v2, STAT v3} alone; all three + STAT v1; all three + STAT v3", "every subset of {name stmt, ss01 featureNames, cv01 cvParameters} x STAT {none, v1, v3}; STAT v2 alone"),
            "fea_stat_variants": "v1 ElidedFallbackName { name \"Roman\"; }; v2 ElidedFallbackNameID 2; v3 = v2 preceded by table name { nameid 2 \"<own id 2>\"; }",
            "shapes": "static UFO (all combos), 1 axis, 2 axes (reduced)",
        }),
    );
    rep.assume("name ids 16/17 when exactly one of them coincides with id 1/2: ufo2ft versions differ (drop each independently vs. only both) — presence not asserted there");
    rep.assume("the fallback chain for ids 1,2,3,4,5,6 is asserted only on the minimal (no styleMap names) and fully specified (both styleMap names + version) configurations; other configurations: invariants only");
    rep.assume("id 5 stamp text is `;fontc ` + fontc::version() (the documented build stamp), the only part of the name table allowed to depend on something other than the source");
    rep.assume("STAT name ids below 26 are not flagged (the STAT spec sets no range); ids 26..255 are");
    rep.assume("FEA-declared names are not expected to be reused for equal strings; only the strings behind the referenced ids are compared");
    rep.assume("axis display name: the `en` <labelname> (exact xml:lang match, as Axis::ui_label_name documents), else the axis `name` attribute with the five lower-case MutatorMath names expanded (weight -> Weight ...). fontTools differs on one point not asserted here: with labelnames in other languages only it adds no English name at all");
    rep.assume("labelnames in languages other than `en` (en-GB, fr): the unchanged compiler emits no name records for them (fontTools' addMultilingualName would); their absence is not asserted. If a record in the Windows / Macintosh language of such a labelname exists under the axis' name id it must carry that labelname's string; records in languages outside the alphabet are counted, not judged");
    rep.assume("two <labelname> elements with the same xml:lang on one axis are not enumerated (the specification does not say which wins)");
    rep.assume("seed dimension: product binary with RAYON_NUM_THREADS=2 and the getrandom shim; representatives per coincidence signature (quick: among the cases without FEA), not every case; every coinciding case is additionally recompiled in process under different (unowned) hash keys");
    rep.finish()
}
