//! C12 — component handling options never change what a glyph looks like.
//!
//! Bounded-exhaustive: every component tree of a stated family (see `spaces`) is written as a
//! 2-master designspace, compiled in process under all 16 subsets of {flatten, decompose (all),
//! decompose-transformed, prefer-simple off}, and every exported source glyph is resolved through
//! its component graph at both master locations with the independent evaluator `otvar`.
//!
//! Oracle (all contours are brought to a canonical form first: implied on-curve points made
//! explicit — dropping them is decided by the compiler from *rounded* coordinates, so it differs
//! legitimately between stored forms — and a contour reached through an odd number of STORED
//! flipped components is reversed, i.e. the reversal the rasteriser performs implicitly is undone):
//!
//! * configuration X vs the empty configuration: equal advance (exact); equal multiset of contours,
//!   contours compared as cyclic point sequences with equal on/off flags, direction-sensitive,
//!   per-coordinate tolerance = err_X(contour) + err_0(contour);
//! * every configuration vs the source: the Design's own component tree resolved in f64 without
//!   rounding; tolerance err_F(contour); expected direction = source direction reversed once (the
//!   compiler's TrueType direction reversal) and once more per flip on the source path.
//!
//! err_F is derived from the way font F stores the contour:
//!   simple glyph: 0.5 (one `ot_round` of the f64 outline) + 0.5 when the location is not the
//!     default master and the active gvar tuple omits points (IUP inference is accepted by the
//!     compiler up to 0.5 per coordinate);
//!   through a stored component: ||M||_inf * err(child) + 0.5 (the offset is `ot_round`ed per master,
//!     its deltas are integers, so it is exact up to that one rounding at a master location).
//!   Stored 2x2 entries are exact in F2Dot14 for the whole alphabet (0, +-0.5, +-1 and products).
//! With ||M||_inf <= 1 for every storable transform of the base alphabet this is at most
//! 0.5 * (stored depth + 1) (+0.5), i.e. the pair tolerance never exceeds `depth + 1 (+1 IUP)` units;
//! how the observed differences compare with the plain "1 unit per nesting level" is reported in the
//! evidence (`max_pair_diff_by_depth`, `pairs_beyond_depth_units`).
//!
//! Extensions of the enumerated space (same oracle, nothing special-cased):
//! * transform alphabet + 12 (`NEW_TK`): 2x2s whose coefficients outside [-2, 2] are OFF the diagonal
//!   (2.5 x rot90, shears +-2.5, 1.5/2.5 mix); per-master 2x2s that differ in exactly ONE coefficient
//!   (xx / xy / yx / yy); storable dyadic scales (+-1.5, 1.25, 1.875 — exact in F2Dot14, ||M||_inf up
//!   to 1.875 enters the allowance above) whose PRODUCT along a nesting path leaves [-2, 2], through
//!   exported and through non-export glyphs;
//! * a third location: a middle master (normalized 0.5) at which only a subset of the glyphs has a
//!   source (every non-empty subset), two non-export parts in both orders, a second simple glyph.
//!   "The glyph at a location where it has no source" = linear interpolation of its own sources,
//!   components resolved at that location (`layer_at`); judged wherever the glyph's closure has a
//!   source (see `closure_has_source`, `ambiguous_at` for the one excluded constellation).
//!   In a one-axis font every stored value at a judged location is a convex combination of per-master
//!   rounded values, so the 0.5 per rounding above carries over; an IUP-optimised tuple adds
//!   0.5 x its scalar.

use dgen::{Axis, Component, Contour as DContour, Design, Glyph, Layer, Pt as DPt, PtKind};
use fcx::Opts;
use otvar::{InstKind, VFont};
use serde::{Deserialize, Serialize};
use serde_json::{Value, json};
use std::collections::{BTreeMap, BTreeSet, HashSet};
use vcore::{Reporter, Tier};

// ------------------------------------------------------------------------------------ alphabet

#[derive(Clone, Copy, Debug, PartialEq, Eq, Hash, PartialOrd, Ord, Serialize, Deserialize)]
enum TK {
    Id,
    Translate,
    Scale05,
    FlipX,
    Rot90,
    Scale25,
    Var2x2,
    VarOff,
    // --- 2x2s whose coefficients outside F2Dot14 sit OFF the diagonal (must be decomposed)
    Rot90x25,
    ShearX25,
    ShearYNeg25,
    RotMix25,
    // --- per-master 2x2s that differ in exactly one coefficient (must be decomposed)
    VarXX,
    VarXY,
    VarYX,
    VarYY,
    // --- storable scales whose PRODUCTS along a nesting path may leave F2Dot14 (all dyadic: exact in F2Dot14)
    Scale15,
    ScaleNeg15,
    Scale125,
    Scale1875,
}

const ALL_TK: [TK; 8] = [
    TK::Id,
    TK::Translate,
    TK::Scale05,
    TK::FlipX,
    TK::Rot90,
    TK::Scale25,
    TK::Var2x2,
    TK::VarOff,
];
/// reduced alphabet for the widest trees (one representative per mechanism: offset only, exact 2x2
/// with fractional offset, flip, non-commuting rotation, forced decomposition)
const R5_TK: [TK; 5] = [TK::Translate, TK::Scale05, TK::FlipX, TK::Rot90, TK::Var2x2];
/// the extension alphabet: off-diagonal overflow, single-coefficient variation, overflowing products
const NEW_TK: [TK; 12] = [
    TK::Rot90x25,
    TK::ShearX25,
    TK::ShearYNeg25,
    TK::RotMix25,
    TK::VarXX,
    TK::VarXY,
    TK::VarYX,
    TK::VarYY,
    TK::Scale15,
    TK::ScaleNeg15,
    TK::Scale125,
    TK::Scale1875,
];
/// the storable scales whose products may overflow, with two neutral partners
const PROD_TK: [TK; 6] = [TK::Scale15, TK::ScaleNeg15, TK::Scale125, TK::Scale1875, TK::Scale05, TK::Translate];
/// alphabet of the three-location spaces
const M3_TK: [TK; 4] = [TK::Translate, TK::Scale05, TK::FlipX, TK::Var2x2];
const M3_PAIR_TK: [TK; 2] = [TK::Translate, TK::Scale05];

fn every_tk() -> Vec<TK> {
    ALL_TK.iter().chain(NEW_TK.iter()).copied().collect()
}

impl TK {
    fn name(self) -> &'static str {
        match self {
            TK::Id => "identity",
            TK::Translate => "translate",
            TK::Scale05 => "scale0.5",
            TK::FlipX => "flipx",
            TK::Rot90 => "rot90",
            TK::Scale25 => "scale2.5",
            TK::Var2x2 => "var2x2",
            TK::VarOff => "varoffset",
            TK::Rot90x25 => "rot90x2.5",
            TK::ShearX25 => "shearx2.5",
            TK::ShearYNeg25 => "sheary-2.5",
            TK::RotMix25 => "rotmix2.5",
            TK::VarXX => "varxx",
            TK::VarXY => "varxy",
            TK::VarYX => "varyx",
            TK::VarYY => "varyy",
            TK::Scale15 => "scale1.5",
            TK::ScaleNeg15 => "scale-1.5",
            TK::Scale125 => "scale1.25",
            TK::Scale1875 => "scale1.875",
        }
    }
    /// UFO order: xScale xyScale yxScale yScale xOffset yOffset, i.e. x' = a x + c y + e, y' = b x + d y + f.
    /// `m`: 0 and 1 are the two end masters; 2 is a source of the composite's own at the middle
    /// location: the coefficient-wise mean of the ends plus an offset of its own (16.5, -9), so that
    /// the middle source is NOT what interpolation of the ends gives.
    fn xform(self, m: usize) -> [f64; 6] {
        if m == 2 {
            let (a, b) = (self.xform(0), self.xform(1));
            let mut x = [0.0; 6];
            for i in 0..6 {
                x[i] = (a[i] + b[i]) / 2.0;
            }
            x[4] += 16.5;
            x[5] -= 9.0;
            return x;
        }
        let one = |i: usize, v: f64| {
            let mut x = [1.0, 0.0, 0.0, 1.0, 0.0, 0.0];
            if m == 1 {
                x[i] = v;
            }
            x
        };
        match self {
            TK::Id => [1.0, 0.0, 0.0, 1.0, 0.0, 0.0],
            TK::Translate => [1.0, 0.0, 0.0, 1.0, 30.0, -20.0],
            // a fractional offset under a 2x2: the stored offset is rounded, the decomposed outline is not
            TK::Scale05 => [0.5, 0.0, 0.0, 0.5, 12.5, 7.0],
            TK::FlipX => [-1.0, 0.0, 0.0, 1.0, 0.0, 0.0],
            // 90 degrees counter-clockwise: x' = -y, y' = x
            TK::Rot90 => [0.0, 1.0, -1.0, 0.0, 0.0, 15.5],
            // outside F2Dot14: cannot be stored, must be decomposed
            TK::Scale25 => [2.5, 0.0, 0.0, 2.5, 0.0, 0.0],
            // 2x2 differs between masters: cannot be stored, must be decomposed
            TK::Var2x2 => {
                if m == 0 {
                    [1.0, 0.0, 0.0, 1.0, 0.0, 0.0]
                } else {
                    [1.2, 0.0, 0.0, 1.2, 0.0, 0.0]
                }
            }
            TK::VarOff => {
                if m == 0 {
                    [1.0, 0.0, 0.0, 1.0, 10.0, 0.0]
                } else {
                    [1.0, 0.0, 0.0, 1.0, 40.5, -15.5]
                }
            }
            // 2.5 x rotation by 90 degrees: the diagonal is 0, the large coefficients are xy / yx
            TK::Rot90x25 => [0.0, 2.5, -2.5, 0.0, 0.0, 15.5],
            // shears: x' = x + 2.5 y (yx) and y' = y - 2.5 x (xy); the diagonal is 1
            TK::ShearX25 => [1.0, 0.0, 2.5, 1.0, 0.0, 0.0],
            TK::ShearYNeg25 => [1.0, -2.5, 0.0, 1.0, 7.0, 0.0],
            // enlarged and rotated: diagonal 1.5 (inside), off-diagonal 2.5 (outside)
            TK::RotMix25 => [1.5, 2.5, -2.5, 1.5, 0.0, 0.0],
            // identity in master 0; exactly one coefficient differs in master 1
            TK::VarXX => one(0, 1.5),
            TK::VarXY => one(1, 0.5),
            TK::VarYX => one(2, 0.5),
            TK::VarYY => one(3, 1.5),
            TK::Scale15 => [1.5, 0.0, 0.0, 1.5, 10.5, -4.0],
            TK::ScaleNeg15 => [-1.5, 0.0, 0.0, 1.5, 0.0, 0.0],
            TK::Scale125 => [1.25, 0.0, 0.0, 1.25, 0.0, 0.0],
            TK::Scale1875 => [1.875, 0.0, 0.0, 1.875, 0.0, 0.0],
        }
    }
    /// can never be stored in a glyf composite whatever the options
    fn forced(self) -> bool {
        matches!(
            self,
            TK::Scale25
                | TK::Var2x2
                | TK::Rot90x25
                | TK::ShearX25
                | TK::ShearYNeg25
                | TK::RotMix25
                | TK::VarXX
                | TK::VarXY
                | TK::VarYX
                | TK::VarYY
        )
    }
    fn offdiag_overflow(self) -> bool {
        matches!(self, TK::Rot90x25 | TK::ShearX25 | TK::ShearYNeg25 | TK::RotMix25)
    }
    fn single_coeff_var(self) -> bool {
        matches!(self, TK::VarXX | TK::VarXY | TK::VarYX | TK::VarYY)
    }
}

const NAMES: [&str; 4] = ["A", "B", "C", "D"];

/// One enumerated source: glyph 0 is the simple glyph A; glyph i > 0 is a composite.
#[derive(Clone, Debug, PartialEq, Eq, Hash, Serialize, Deserialize)]
struct Case {
    n: usize,
    /// per glyph: (index of the base glyph, transform kind); empty for glyph 0
    comps: Vec<Vec<(usize, TK)>>,
    /// per glyph: has a contour of its own next to its components
    mixed: Vec<bool>,
    /// per glyph: exported
    export: Vec<bool>,
    /// per glyph: has a source of its own at the middle location (empty: the design has the two end
    /// masters only). A composite `gi > 0` with an empty component list is a second simple glyph.
    #[serde(default)]
    mid: Vec<bool>,
    /// how the middle location is written: 0 = a sparse layer of the default master's UFO,
    /// 1 = a UFO of its own that contains only the glyphs that have a source there
    #[serde(default)]
    mid_kind: u8,
}

impl Case {
    fn two(n: usize, comps: Vec<Vec<(usize, TK)>>, mixed: Vec<bool>, export: Vec<bool>) -> Case {
        Case { n, comps, mixed, export, mid: vec![], mid_kind: 0 }
    }
    fn has_mid(&self, gi: usize) -> bool {
        self.mid.get(gi).copied().unwrap_or(false)
    }
    fn three_locations(&self) -> bool {
        self.mid.iter().any(|b| *b)
    }
    /// the 2x2 of a component kind when it is the same in both masters
    fn fixed2x2(t: TK) -> Option<[f64; 4]> {
        let (a, b) = (t.xform(0), t.xform(1));
        (a[..4] == b[..4]).then(|| [a[0], a[1], a[2], a[3]])
    }
    /// Is there a nesting path below `gi` (at least two edges, every edge a 2x2 that is the same in both
    /// masters and inside [-2, 2]) whose 2x2 PRODUCT has a coefficient outside [-2, 2]?
    /// `want_exported_inner`: false = every inner glyph of the path is a non-export composite (the
    /// path is composed when non-export glyphs are inlined); true = at least one inner glyph is an
    /// exported composite (the path is composed only by the flatten option).
    fn product_overflow_below(&self, gi: usize, want_exported_inner: bool) -> bool {
        fn mul(p: [f64; 4], c: [f64; 4]) -> [f64; 4] {
            // UFO order xx xy yx yy: x' = xx x + yx y, y' = xy x + yy y; parent p after child c
            [
                p[0] * c[0] + p[2] * c[1],
                p[1] * c[0] + p[3] * c[1],
                p[0] * c[2] + p[2] * c[3],
                p[1] * c[2] + p[3] * c[3],
            ]
        }
        fn walk(c: &Case, g: usize, acc: [f64; 4], edges: usize, seen_exported: bool, want: bool) -> bool {
            for (b, t) in &c.comps[g] {
                let Some(m) = Case::fixed2x2(*t) else { continue };
                if m.iter().any(|v| v.abs() > 2.0) {
                    continue;
                }
                let p = mul(acc, m);
                if edges + 1 >= 2 && seen_exported == want && p.iter().any(|v| v.abs() > 2.0) {
                    return true;
                }
                if !c.comps[*b].is_empty() && walk(c, *b, p, edges + 1, seen_exported || c.export[*b], want) {
                    return true;
                }
            }
            false
        }
        walk(self, gi, [1.0, 0.0, 0.0, 1.0], 0, false, want_exported_inner)
    }
    /// After non-export glyphs are inlined (in depth order), does `g` have a source at the middle? Its
    /// own, or that of a non-export glyph it uses (directly or through non-export glyphs).
    fn eff_mid(&self, g: usize) -> bool {
        self.has_mid(g) || self.comps[g].iter().any(|(b, _)| !self.export[*b] && self.eff_mid(*b))
    }
    /// Does `gi` (or a composite below it) have no middle source (after inlining) while an exported
    /// composite below that glyph has one?
    fn nested_composite_mid_below(&self, gi: usize) -> bool {
        fn walk(c: &Case, g: usize) -> bool {
            c.comps[g].iter().any(|(b, _)| !c.comps[*b].is_empty() && ((c.export[*b] && c.eff_mid(*b)) || walk(c, *b)))
        }
        // `gi` itself, or a composite below it that flatten rewrites first and `gi` is then built from
        fn any(c: &Case, g: usize) -> bool {
            (!c.eff_mid(g) && walk(c, g)) || c.comps[g].iter().any(|(b, _)| any(c, *b))
        }
        self.three_locations() && any(self, gi)
    }
    /// `gi` (no middle source of its own) uses a NON-EXPORT glyph b (no middle source either) through a
    /// 2x2 that varies between the masters, and something below b has a middle source: the compiler
    /// inlines b at the end masters only (multiplying the 2x2 into b's outline / b's component 2x2s)
    /// and interpolates the PRODUCTS at the middle, where an exported b gives the product of the
    /// interpolations; see the finding `nonexport-inline-varying-2x2`.
    fn nonexport_nested_varying_2x2(&self, gi: usize) -> bool {
        self.three_locations()
            && !self.has_mid(gi)
            && self.comps[gi].iter().any(|(b, t)| {
                !self.export[*b] && !self.has_mid(*b) && Case::fixed2x2(*t).is_none() && self.closure_has_mid(*b)
            })
    }
    /// Known defect classes of the unchanged compiler that the extended space reaches; a violation
    /// that has the minimal feature of one of them is keyed by it (and by the configuration).
    fn finding_class(&self, gi: usize, master: usize, cfg: &Opts, class: &str) -> Option<&'static str> {
        if !matches!(class, "shape-differs" | "source-differs" | "direction-differs" | "source-direction-differs") {
            return None;
        }
        let flat = cfg.flatten && !cfg.decompose;
        if flat && self.product_overflow_below(gi, true) {
            return Some("flatten-nested-scale-overflow");
        }
        if flat && master == 2 && self.nested_composite_mid_below(gi) {
            return Some("flatten-drops-nested-intermediate");
        }
        if master == 2 && self.nonexport_nested_varying_2x2(gi) {
            return Some("nonexport-inline-varying-2x2");
        }
        None
    }
    /// some glyph reachable from `gi` (itself included) has a source of its own at the middle
    fn closure_has_mid(&self, gi: usize) -> bool {
        self.has_mid(gi) || self.comps[gi].iter().any(|(b, _)| self.closure_has_mid(*b))
    }
    /// the shape of planted-bug class "several non-export parts, not the last one has the middle source"
    fn nonexport_parts_mid_not_last(&self, gi: usize) -> bool {
        let ne: Vec<usize> = self.comps[gi].iter().map(|(b, _)| *b).filter(|b| !self.export[*b]).collect();
        ne.len() >= 2 && !self.has_mid(gi) && !self.eff_mid(*ne.last().unwrap()) && ne[..ne.len() - 1].iter().any(|b| self.eff_mid(*b))
    }
    fn depth_of(&self, gi: usize) -> usize {
        self.comps[gi].iter().map(|(b, _)| 1 + self.depth_of(*b)).max().unwrap_or(0)
    }
    fn label(&self) -> String {
        let mut s = String::new();
        if self.three_locations() {
            let v: Vec<&str> = (0..self.n).filter(|g| self.has_mid(*g)).map(|g| NAMES[g]).collect();
            s.push_str(&format!("[middle {}: {}] ", if self.mid_kind == 0 { "layer" } else { "ufo" }, v.join(",")));
        }
        for gi in 1..self.n {
            if gi > 1 {
                s.push(' ');
            }
            s.push_str(NAMES[gi]);
            if self.mixed[gi] {
                s.push('*');
            }
            if !self.export[gi] {
                s.push('~');
            }
            s.push('=');
            let v: Vec<String> = self.comps[gi]
                .iter()
                .map(|(b, t)| format!("{}{}@{}", NAMES[*b], if self.export[*b] { "" } else { "~" }, t.name()))
                .collect();
            s.push_str(&if v.is_empty() { "(simple)".to_string() } else { v.join(",") });
        }
        s
    }
    fn uses_nonexport(&self, gi: usize) -> bool {
        self.comps[gi].iter().any(|(b, _)| !self.export[*b])
    }
    fn transform_label(&self, gi: usize) -> String {
        let s: BTreeSet<&str> = self.comps[gi].iter().map(|(_, t)| t.name()).collect();
        s.into_iter().collect::<Vec<_>>().join("+")
    }
    fn kind_label(&self, gi: usize) -> String {
        let mut s = if self.comps[gi].is_empty() {
            "simple".to_string()
        } else if self.mixed[gi] {
            "mixed".to_string()
        } else {
            "composite".to_string()
        };
        if self.uses_nonexport(gi) {
            s.push_str("+nonexport-base");
        }
        s.push_str(&format!(":depth{}", self.depth_of(gi)));
        s
    }
}

// ------------------------------------------------------------------------------------ design

fn on(x: f64, y: f64, kind: PtKind) -> DPt {
    DPt { x, y, kind }
}

/// The simple glyph: an asymmetric polygon (no rotation or reflection maps it to itself) with .5
/// coordinates, and a quadratic contour with some on-curve points exactly half way between their
/// off-curve neighbours (the compiler may drop those) and one that is not.
fn leaf_contours(m: usize) -> Vec<DContour> {
    // m == 2: the glyph's own source at the middle location, far from the mean of the two ends
    let poly: [(f64, f64); 6] = match m {
        0 => [(50.0, 0.0), (250.5, 0.0), (250.5, 101.0), (151.0, 101.0), (151.0, 300.5), (50.0, 300.5)],
        1 => [(61.0, 0.0), (281.0, 0.0), (281.0, 110.5), (171.5, 110.5), (171.5, 321.0), (61.0, 330.0)],
        _ => [(55.0, 0.0), (270.5, 0.0), (270.5, 140.0), (160.0, 140.0), (160.0, 400.5), (55.0, 410.0)],
    };
    let (cx, cy, r) = match m {
        0 => (400.0, 351.0, 61.0),
        1 => (421.0, 361.5, 70.5),
        _ => (410.0, 380.5, 90.0),
    };
    let q = |x: f64, y: f64, k| on(cx + x, cy + y, k);
    let blob = DContour {
        points: vec![
            q(r, 0.0, PtKind::QCurve),
            q(r, r, PtKind::Off),
            q(9.0, r, PtKind::QCurve), // not a midpoint
            q(-r, r, PtKind::Off),
            q(-r, 0.0, PtKind::QCurve),
            q(-r, -r, PtKind::Off),
            q(0.0, -r, PtKind::QCurve),
            q(r, -r, PtKind::Off),
        ],
    };
    vec![dgen::shapes::line_contour(&poly), blob]
}

fn own_contour(gi: usize, m: usize) -> DContour {
    let g = gi as f64 * 10.0;
    // m == 2 (own source at the middle): wider and much taller than the mean of the ends
    let (w, h) = match m {
        0 => (0.0, 120.0),
        1 => (20.5, 125.0),
        _ => (35.0, 160.5),
    };
    dgen::shapes::line_contour(&[(600.0 + g, 0.0), (700.0 + g + w, 0.0), (650.5 + g, h)])
}

fn advance(gi: usize, m: usize) -> f64 {
    500.0 + 50.0 * gi as f64 + if m == 0 { 0.0 } else if gi % 2 == 0 { 60.5 } else { 20.0 }
}

/// Advances of the three-location designs: integers with even differences between the end masters,
/// so that the advance interpolated half way is an integer however the compiler gets there (a
/// rounded virtual source, or default + 0.5 x rounded delta): advances stay exactly comparable.
fn advance3(gi: usize, m: usize) -> f64 {
    let d = if gi % 2 == 0 { 60.0 } else { 20.0 };
    500.0 + 50.0 * gi as f64
        + match m {
            0 => 0.0,
            1 => d,
            _ => d / 2.0 + 14.0,
        }
}

const MID: f64 = 550.0;

fn build_design(c: &Case) -> Design {
    let axes = vec![Axis::new("wght", "Weight", 400.0, 400.0, 700.0)];
    let three = c.three_locations();
    let mut d = if three && c.mid_kind == 1 {
        Design::skeleton("C12", axes, vec![vec![400.0], vec![700.0], vec![MID]])
    } else {
        let mut d = Design::skeleton("C12", axes, vec![vec![400.0], vec![700.0]]);
        if three {
            let i = d.add_layer_master(0, vec![MID]);
            assert_eq!(i, 2);
        }
        d
    };
    for gi in 0..c.n {
        let mut g = Glyph::new(NAMES[gi], &[0x41 + gi as u32]);
        g.export = c.export[gi];
        for m in 0..3 {
            if m == 2 && !c.has_mid(gi) {
                continue;
            }
            let adv = if three { advance3(gi, m) } else { advance(gi, m) };
            let mut l = Layer { advance: adv, ..Default::default() };
            if gi == 0 {
                l.contours = leaf_contours(m);
            } else if c.comps[gi].is_empty() {
                // a second simple glyph
                l.contours.push(own_contour(gi, m));
            } else {
                if c.mixed[gi] {
                    l.contours.push(own_contour(gi, m));
                }
                for (b, t) in &c.comps[gi] {
                    l.components.push(Component { base: NAMES[*b].into(), xform: t.xform(m) });
                }
            }
            g.layers.insert(m, l);
        }
        d.glyphs.push(g);
    }
    d
}

// ------------------------------------------------------------------------------------ enumeration

fn comp_choices(gi: usize, alphabet: &[TK], counts: &[usize]) -> Vec<Vec<(usize, TK)>> {
    let single: Vec<(usize, TK)> = (0..gi).flat_map(|b| alphabet.iter().map(move |t| (b, *t))).collect();
    let mut out = vec![];
    if counts.contains(&1) {
        out.extend(single.iter().map(|s| vec![*s]));
    }
    if counts.contains(&2) {
        // ordered pairs: component order is part of the source
        for a in &single {
            for b in &single {
                out.push(vec![*a, *b]);
            }
        }
    }
    out
}

fn bool_vectors(n: usize, free: &[usize]) -> Vec<Vec<bool>> {
    // all assignments of `false` to subsets of `free`, everything else true
    (0..(1usize << free.len()))
        .map(|mask| {
            let mut v = vec![true; n];
            for (k, gi) in free.iter().enumerate() {
                if mask >> k & 1 == 1 {
                    v[*gi] = false;
                }
            }
            v
        })
        .collect()
}

/// All trees over `n` glyphs where composite `gi` takes its component list from `choices(gi)`,
/// kept when `keep(comps)`, crossed with the `mixed` and `export` profiles.
fn enum_trees(
    n: usize,
    choices: &dyn Fn(usize) -> Vec<Vec<(usize, TK)>>,
    keep: &dyn Fn(&[Vec<(usize, TK)>]) -> bool,
    mixed_profiles: &[Vec<bool>],
    export_profiles: &[Vec<bool>],
    out: &mut Vec<Case>,
) {
    let per: Vec<Vec<Vec<(usize, TK)>>> = (1..n).map(choices).collect();
    let mut idx = vec![0usize; n - 1];
    loop {
        let mut comps: Vec<Vec<(usize, TK)>> = vec![vec![]];
        for (k, i) in idx.iter().enumerate() {
            comps.push(per[k][*i].clone());
        }
        if keep(&comps) {
            for mx in mixed_profiles {
                for ex in export_profiles {
                    out.push(Case::two(n, comps.clone(), mx.clone(), ex.clone()));
                }
            }
        }
        // odometer
        let mut k = 0;
        loop {
            if k == idx.len() {
                return;
            }
            idx[k] += 1;
            if idx[k] < per[k].len() {
                break;
            }
            idx[k] = 0;
            k += 1;
        }
    }
}

fn mixed_all(n: usize) -> Vec<Vec<bool>> {
    // glyph 0 is never "mixed"; `false` bits mark mixed glyphs here, so invert
    bool_vectors(n, &(1..n).collect::<Vec<_>>())
        .into_iter()
        .map(|v| v.iter().enumerate().map(|(i, b)| i > 0 && !*b).collect())
        .collect()
}

fn spaces(tier: Tier) -> (Vec<Case>, Vec<Value>) {
    let mut cases = vec![];
    let mut notes = vec![];
    let mut add = |name: &str, what: &str, cases: &mut Vec<Case>, f: &dyn Fn(&mut Vec<Case>)| {
        let before = cases.len();
        f(cases);
        notes.push(json!({"space": name, "what": what, "cases": cases.len() - before}));
    };
    let two = |c: &[Vec<(usize, TK)>]| c.iter().filter(|v| v.len() == 2).count();
    let edges = |c: &[Vec<(usize, TK)>]| c.iter().map(|v| v.len()).sum::<usize>();

    add(
        "n2-full",
        "2 glyphs: B has 1 or 2 components of A (ordered), all 8 transforms each; B pure/mixed; A exported or not",
        &mut cases,
        &|o| {
            enum_trees(2, &|gi| comp_choices(gi, &ALL_TK, &[1, 2]), &|_| true, &mixed_all(2), &bool_vectors(2, &[0]), o)
        },
    );
    add(
        "n3-single",
        "3 glyphs, one component per composite (C uses A or B), all 8x8 transforms; every pure/mixed combination; every export combination of A, B",
        &mut cases,
        &|o| {
            enum_trees(3, &|gi| comp_choices(gi, &ALL_TK, &[1]), &|_| true, &mixed_all(3), &bool_vectors(3, &[0, 1]), o)
        },
    );
    match tier {
        Tier::Quick => {
            add(
                "n3-double-3edges",
                "3 glyphs, exactly one composite with 2 components (ordered pairs over base x all 8 transforms), 3 edges in all; pure composites, everything exported",
                &mut cases,
                &|o| {
                    enum_trees(
                        3,
                        &|gi| comp_choices(gi, &ALL_TK, &[1, 2]),
                        &|c| two(c) == 1 && edges(c) == 3,
                        &[vec![false; 3]],
                        &[vec![true; 3]],
                        o,
                    )
                },
            );
        }
        Tier::Thorough => {
            add(
                "n3-double-full",
                "3 glyphs, at least one composite with 2 components (ordered pairs over base x all 8 transforms, 3 or 4 edges); profiles: all pure + all exported, all mixed + all exported, pure + A not exported, pure + B not exported",
                &mut cases,
                &|o| {
                    let ch = |gi| comp_choices(gi, &ALL_TK, &[1, 2]);
                    let keep = |c: &[Vec<(usize, TK)>]| two(c) >= 1;
                    enum_trees(3, &ch, &keep, &[vec![false; 3]], &[vec![true; 3]], o);
                    enum_trees(3, &ch, &keep, &[vec![false, true, true]], &[vec![true; 3]], o);
                    enum_trees(3, &ch, &keep, &[vec![false; 3]], &[vec![false, true, true], vec![true, false, true]], o);
                },
            );
            add(
                "n4-single",
                "4 glyphs, one component per composite (all 6 reference patterns, depth up to 3), all 8^3 transforms; every pure/mixed combination; export profiles: all exported, exactly one of A/B/C not exported, A and B not exported",
                &mut cases,
                &|o| {
                    let ex = vec![
                        vec![true, true, true, true],
                        vec![false, true, true, true],
                        vec![true, false, true, true],
                        vec![true, true, false, true],
                        vec![false, false, true, true],
                    ];
                    enum_trees(4, &|gi| comp_choices(gi, &ALL_TK, &[1]), &|_| true, &mixed_all(4), &ex, o)
                },
            );
            add(
                "n4-double-r5",
                "4 glyphs, exactly one composite with 2 components (ordered), transforms from {translate, scale0.5, flipx, rot90, var2x2} on all 4 edges; pure composites, everything exported",
                &mut cases,
                &|o| {
                    enum_trees(
                        4,
                        &|gi| comp_choices(gi, &R5_TK, &[1, 2]),
                        &|c| two(c) == 1,
                        &[vec![false; 4]],
                        &[vec![true; 4]],
                        o,
                    )
                },
            );
        }
    }
    // ---------------------------------------------------------------- extension alphabet (2 masters)
    let every = every_tk();
    let has_new = |c: &[Vec<(usize, TK)>]| c.iter().flatten().any(|(_, t)| NEW_TK.contains(t));
    let chain = |c: &[Vec<(usize, TK)>]| (1..c.len()).all(|gi| c[gi].iter().all(|(b, _)| *b == gi - 1));
    add(
        "ext-n2",
        "2 glyphs over the 20-transform alphabet (8 + off-diagonal overflow x4 + single-coefficient variation x4 + overflowing-product scales x4), at least one NEW transform: B has 1 component of A under all 4 pure/mixed x export profiles; B has 2 components (ordered) pure + all exported",
        &mut cases,
        &|o| {
            enum_trees(2, &|gi| comp_choices(gi, &every, &[1]), &|c| has_new(c), &mixed_all(2), &bool_vectors(2, &[0]), o);
            enum_trees(2, &|gi| comp_choices(gi, &every, &[2]), &|c| has_new(c), &[vec![false; 2]], &[vec![true; 2]], o);
        },
    );
    match tier {
        Tier::Quick => {
            add(
                "ext-n3-chain",
                "3 glyphs C = B@t2, B = A@t1 over the 20-transform alphabet, at least one NEW transform; all pure / all mixed; all exported / B not exported",
                &mut cases,
                &|o| {
                    enum_trees(
                        3,
                        &|gi| comp_choices(gi, &every, &[1]),
                        &|c| has_new(c) && chain(c),
                        &[vec![false; 3], vec![false, true, true]],
                        &[vec![true; 3], vec![true, false, true]],
                        o,
                    )
                },
            );
        }
        Tier::Thorough => {
            add(
                "ext-n3-single",
                "3 glyphs, one component per composite (C uses A or B) over the 20-transform alphabet, at least one NEW transform; every pure/mixed combination; every export combination of A, B",
                &mut cases,
                &|o| {
                    enum_trees(3, &|gi| comp_choices(gi, &every, &[1]), &|c| has_new(c), &mixed_all(3), &bool_vectors(3, &[0, 1]), o)
                },
            );
            add(
                "ext-n4-chain-products",
                "4 glyphs D = C@t3, C = B@t2, B = A@t1 over {scale1.5, scale-1.5, scale1.25, scale1.875, scale0.5, translate}; pure composites; every export combination of A, B, C",
                &mut cases,
                &|o| {
                    enum_trees(
                        4,
                        &|gi| comp_choices(gi, &PROD_TK, &[1]),
                        &|c| chain(c),
                        &[vec![false; 4]],
                        &bool_vectors(4, &[0, 1, 2]),
                        o,
                    )
                },
            );
        }
    }
    // ---------------------------------------------------------------- three locations
    // A base tree crossed with every non-empty set of glyphs that have a source at the middle location
    // and with the ways of writing that location.
    let with_mid = |base: Vec<Case>, kinds: &[u8], o: &mut Vec<Case>| {
        for c in base {
            for mask in 1..(1usize << c.n) {
                for k in kinds {
                    let mut x = c.clone();
                    x.mid = (0..c.n).map(|g| mask >> g & 1 == 1).collect();
                    x.mid_kind = *k;
                    o.push(x);
                }
            }
        }
    };
    // B may also be a second simple glyph (empty component list)
    let with_leaf = |gi: usize, alphabet: &[TK], counts: &[usize]| {
        let mut v = comp_choices(gi, alphabet, counts);
        if gi == 1 {
            v.push(vec![]);
        }
        v
    };
    // C has two components, one of A and one of B, in both orders
    let both_parts = |c: &[Vec<(usize, TK)>]| {
        c[2].len() == 2 && c[2][0].0 != c[2][1].0 && c[1].len() <= 1
    };
    let kinds: &[u8] = match tier {
        Tier::Quick => &[0],
        Tier::Thorough => &[0, 1],
    };
    add(
        "m3-n2",
        "3 locations (ends + a middle where only a stated non-empty subset of glyphs has a source; the composite's own middle source has an offset of its own): 2 glyphs, B has 1 or 2 components of A over {translate, scale0.5, flipx, var2x2}; B pure/mixed; A exported or not; every non-empty middle subset; middle written as a sparse layer (thorough: also as a UFO of its own)",
        &mut cases,
        &|o| {
            let mut base = vec![];
            enum_trees(2, &|gi| comp_choices(gi, &M3_TK, &[1, 2]), &|_| true, &mixed_all(2), &bool_vectors(2, &[0]), &mut base);
            with_mid(base, kinds, o);
        },
    );
    let pair_tk: &[TK] = match tier {
        Tier::Quick => &M3_PAIR_TK,
        Tier::Thorough => &[TK::Translate, TK::Scale05, TK::FlipX],
    };
    add(
        "m3-n3-parts",
        "3 locations: C has two components, one of A and one of B in BOTH orders, transforms over {translate, scale0.5} (thorough: + flipx); B is a second simple glyph or B = A@ one of these; C pure/mixed; every export combination of A, B (both not exported = two non-export parts); every non-empty middle subset of {A, B, C}",
        &mut cases,
        &|o| {
            let mut base = vec![];
            let ch = |gi: usize| if gi == 1 { with_leaf(gi, pair_tk, &[1]) } else { comp_choices(gi, pair_tk, &[2]) };
            enum_trees(3, &ch, &both_parts, &[vec![false; 3], vec![false, false, true]], &bool_vectors(3, &[0, 1]), &mut base);
            with_mid(base, kinds, o);
        },
    );
    match tier {
        Tier::Quick => {
            add(
                "m3-n3-single",
                "3 locations: 3 glyphs in a chain C = B@t2, B = A@t1 over {translate, scale0.5, flipx, var2x2} (the sibling shape C = A@t2 is two independent m3-n2 composites; thorough has it); all pure / all mixed; every export combination of A, B; every non-empty middle subset; sparse layer",
                &mut cases,
                &|o| {
                    let mut base = vec![];
                    enum_trees(
                        3,
                        &|gi| comp_choices(gi, &M3_TK, &[1]),
                        &|c| chain(c),
                        &[vec![false; 3], vec![false, true, true]],
                        &bool_vectors(3, &[0, 1]),
                        &mut base,
                    );
                    with_mid(base, kinds, o);
                },
            );
        }
        Tier::Thorough => {
            add(
                "m3-n3-single",
                "3 locations: 3 glyphs, one component per composite (C uses A or B) over {translate, scale0.5, flipx, var2x2, scale1.5}; every pure/mixed combination; every export combination of A, B; every non-empty middle subset; sparse layer and UFO",
                &mut cases,
                &|o| {
                    let mut base = vec![];
                    let al = [TK::Translate, TK::Scale05, TK::FlipX, TK::Var2x2, TK::Scale15];
                    enum_trees(3, &|gi| comp_choices(gi, &al, &[1]), &|_| true, &mixed_all(3), &bool_vectors(3, &[0, 1]), &mut base);
                    with_mid(base, kinds, o);
                },
            );
            add(
                "m3-n4-chain",
                "3 locations: 4 glyphs in a chain D = C@t3, C = B@t2, B = A@t1 over {translate, scale0.5}; pure composites; every export combination of A, B, C; every non-empty middle subset of the 4 glyphs; sparse layer and UFO",
                &mut cases,
                &|o| {
                    let mut base = vec![];
                    enum_trees(
                        4,
                        &|gi| comp_choices(gi, &M3_PAIR_TK, &[1]),
                        &|c| chain(c),
                        &[vec![false; 4]],
                        &bool_vectors(4, &[0, 1, 2]),
                        &mut base,
                    );
                    with_mid(base, kinds, o);
                },
            );
        }
    }
    (cases, notes)
}

/// the compiler's error text without quoted names, as a key fragment
fn slug(what: &str) -> String {
    let msg = what.split("Error(\"").nth(1).or(what.split("Panic(\"").nth(1)).unwrap_or(what);
    let msg = msg.split("\")").next().unwrap_or(msg);
    let mut out = String::new();
    let mut quoted = false;
    for ch in msg.chars() {
        if ch == '\'' {
            quoted = !quoted;
            continue;
        }
        if quoted {
            continue;
        }
        if ch.is_ascii_alphanumeric() {
            out.push(ch.to_ascii_lowercase());
        } else if !out.ends_with('-') && !out.is_empty() {
            out.push('-');
        }
    }
    out.trim_matches('-').chars().take(60).collect()
}

fn all_configs() -> Vec<Opts> {
    (0..16u32)
        .map(|b| Opts {
            flatten: b & 1 != 0,
            decompose: b & 2 != 0,
            decompose_transformed: b & 4 != 0,
            no_prefer_simple: b & 8 != 0,
            ..Default::default()
        })
        .collect()
}

// ------------------------------------------------------------------------------------ geometry

type P = (f64, f64, bool);

/// Make implied on-curve points explicit (midpoint between two consecutive off-curve points).
fn explicit(pts: &[P]) -> Vec<P> {
    let n = pts.len();
    if n < 2 {
        return pts.to_vec();
    }
    let mut out = Vec::with_capacity(n * 2);
    for i in 0..n {
        let a = pts[i];
        let b = pts[(i + 1) % n];
        out.push(a);
        if !a.2 && !b.2 {
            out.push(((a.0 + b.0) / 2.0, (a.1 + b.1) / 2.0, true));
        }
    }
    out
}

fn reversed(pts: &[P]) -> Vec<P> {
    pts.iter().rev().cloned().collect()
}

/// Smallest over all rotations (with equal on/off flags) of the largest coordinate difference.
fn cyclic_diff(a: &[P], b: &[P]) -> Option<f64> {
    if a.len() != b.len() {
        return None;
    }
    let n = a.len();
    if n == 0 {
        return Some(0.0);
    }
    let mut best: Option<f64> = None;
    'rot: for r in 0..n {
        let mut worst = 0.0f64;
        for i in 0..n {
            let (p, q) = (a[i], b[(i + r) % n]);
            if p.2 != q.2 {
                continue 'rot;
            }
            worst = worst.max((p.0 - q.0).abs()).max((p.1 - q.1).abs());
            if let Some(bst) = best {
                if worst >= bst {
                    continue 'rot;
                }
            }
        }
        best = Some(worst);
    }
    best
}

/// A canonical contour with its error allowance.
#[derive(Clone, Debug)]
struct CC {
    pts: Vec<P>,
    err: f64,
}

struct MatchOut {
    ok: bool,
    /// largest difference over the matched pairs (when ok)
    max_diff: f64,
    why: String,
}

/// Perfect matching between two contour lists where (i, j) may be paired when their cyclic
/// difference is within err_i + err_j (+ eps for float composition order).
fn match_contours(a: &[CC], b: &[CC]) -> MatchOut {
    if a.len() != b.len() {
        return MatchOut { ok: false, max_diff: f64::INFINITY, why: format!("{} contours vs {}", a.len(), b.len()) };
    }
    let n = a.len();
    let mut diff = vec![vec![None; n]; n];
    let mut adj: Vec<Vec<usize>> = vec![vec![]; n];
    for i in 0..n {
        for j in 0..n {
            let d = cyclic_diff(&a[i].pts, &b[j].pts);
            diff[i][j] = d;
            if let Some(d) = d {
                if d <= a[i].err + b[j].err + 1e-6 {
                    adj[i].push(j);
                }
            }
        }
        // prefer the closest partner (keeps `max_diff` meaningful with coincident contours)
        adj[i].sort_by(|x, y| diff[i][*x].partial_cmp(&diff[i][*y]).unwrap());
    }
    fn try_kuhn(i: usize, adj: &[Vec<usize>], seen: &mut [bool], mate: &mut [Option<usize>]) -> bool {
        for &j in &adj[i] {
            if seen[j] {
                continue;
            }
            seen[j] = true;
            if mate[j].is_none() || try_kuhn(mate[j].unwrap(), adj, seen, mate) {
                mate[j] = Some(i);
                return true;
            }
        }
        false
    }
    let mut mate: Vec<Option<usize>> = vec![None; n];
    for i in 0..n {
        let mut seen = vec![false; n];
        if !try_kuhn(i, &adj, &mut seen, &mut mate) {
            let best = (0..n)
                .filter_map(|j| diff[i][j].map(|d| (d, j)))
                .min_by(|x, y| x.0.partial_cmp(&y.0).unwrap());
            let rev = reversed(&a[i].pts);
            let best_rev = (0..n).filter_map(|j| cyclic_diff(&rev, &b[j].pts)).fold(f64::INFINITY, f64::min);
            let why = match best {
                Some((d, j)) => format!(
                    "contour {i} ({} points) has no partner: closest is {d:.3} away (allowed {:.3}); reversed closest {best_rev:.3}",
                    a[i].pts.len(),
                    a[i].err + b[j].err
                ),
                None => format!(
                    "contour {i} ({} points) has no partner with the same point structure; reversed closest {best_rev:.3}",
                    a[i].pts.len()
                ),
            };
            return MatchOut { ok: false, max_diff: f64::INFINITY, why };
        }
    }
    let mut max_diff = 0.0f64;
    for j in 0..n {
        if let Some(i) = mate[j] {
            max_diff = max_diff.max(diff[i][j].unwrap_or(0.0));
        }
    }
    MatchOut { ok: true, max_diff, why: String::new() }
}

// ------------------------------------------------------------------------------------ source truth

struct Truth {
    /// canonical: direction as every correct font shows it after undoing stored flips
    contours: Vec<CC>,
    depth: usize,
    flips_seen: bool,
}

fn apply(x: &[f64; 6], p: P) -> P {
    (x[0] * p.0 + x[2] * p.1 + x[4], x[1] * p.0 + x[3] * p.1 + x[5], p.2)
}

/// The drawing of `g` at the location of master `m`: its own layer there, else the linear
/// interpolation of its two nearest own layers along the (single) axis — coordinates, component
/// coefficients and the advance, each separately. That is what "the glyph at a location where it has
/// no source" means in a variable source; its components are then resolved AT THAT LOCATION.
fn layer_at<'a>(d: &Design, g: &'a Glyph, m: usize) -> Result<std::borrow::Cow<'a, Layer>, String> {
    if let Some(l) = g.layers.get(&m) {
        return Ok(std::borrow::Cow::Borrowed(l));
    }
    if d.axes.len() != 1 {
        return Err("interpolation of a missing layer is implemented for one axis".into());
    }
    let pos = |k: usize| d.master_norm(k)[0];
    let x = pos(m);
    let mut own: Vec<(f64, &Layer)> = g.layers.iter().map(|(k, l)| (pos(*k), l)).collect();
    own.sort_by(|a, b| a.0.partial_cmp(&b.0).unwrap());
    let lo = own.iter().filter(|(p, _)| *p <= x).last();
    let hi = own.iter().find(|(p, _)| *p >= x);
    let ((p0, l0), (p1, l1)) = match (lo, hi) {
        (Some(a), Some(b)) => (*a, *b),
        _ => return Err(format!("glyph {} has no sources around master {m}", g.name)),
    };
    let t = if p1 == p0 { 0.0 } else { (x - p0) / (p1 - p0) };
    let mix = |a: f64, b: f64| a + (b - a) * t;
    if l0.contours.len() != l1.contours.len() || l0.components.len() != l1.components.len() {
        return Err(format!("glyph {} is not interpolable", g.name));
    }
    let mut l = Layer { advance: mix(l0.advance, l1.advance), ..Default::default() };
    for (c0, c1) in l0.contours.iter().zip(&l1.contours) {
        if c0.points.len() != c1.points.len() {
            return Err(format!("glyph {} is not interpolable", g.name));
        }
        l.contours.push(DContour {
            points: c0.points.iter().zip(&c1.points).map(|(a, b)| DPt { x: mix(a.x, b.x), y: mix(a.y, b.y), kind: a.kind }).collect(),
        });
    }
    for (c0, c1) in l0.components.iter().zip(&l1.components) {
        if c0.base != c1.base {
            return Err(format!("glyph {} is not interpolable", g.name));
        }
        let mut x6 = [0.0; 6];
        for i in 0..6 {
            x6[i] = mix(c0.xform[i], c1.xform[i]);
        }
        l.components.push(Component { base: c0.base.clone(), xform: x6 });
    }
    Ok(std::borrow::Cow::Owned(l))
}

/// Does `name` or any glyph it is built from have a source of its own at master `m`?
fn closure_has_source(d: &Design, name: &str, m: usize, guard: usize) -> bool {
    let Some(g) = d.glyph(name) else { return false };
    if g.layers.contains_key(&m) {
        return true;
    }
    if guard > 8 {
        return false;
    }
    let bases: BTreeSet<&str> = g.layers.values().flat_map(|l| l.components.iter().map(|c| c.base.as_str())).collect();
    bases.into_iter().any(|b| closure_has_source(d, b, m, guard + 1))
}

fn bases_of(g: &Glyph) -> BTreeSet<&str> {
    g.layers.values().flat_map(|l| l.components.iter().map(|c| c.base.as_str())).collect()
}

/// Does `name` or a glyph below it have a component whose 2x2 differs between its sources?
fn varying_2x2_in_closure(d: &Design, name: &str, guard: usize) -> bool {
    let Some(g) = d.glyph(name) else { return false };
    let mut it = g.layers.values();
    let Some(first) = it.next() else { return false };
    let varies = g.layers.values().any(|l| {
        l.components.len() != first.components.len()
            || l.components.iter().zip(&first.components).any(|(a, b)| a.xform[..4] != b.xform[..4])
    });
    varies || (guard <= 8 && bases_of(g).into_iter().any(|b| varying_2x2_in_closure(d, b, guard + 1)))
}

/// Is the shape of `name` at master `m` NOT fixed by the source? That is the case for a glyph that
/// has no source at `m` anywhere in its closure (so it is purely interpolated there) while a 2x2 in
/// its closure varies: interpolating the resolved outlines (what a variable font does between a
/// glyph's masters) and composing interpolated components then differ (linear vs bilinear), and
/// neither reading is wrong. Any glyph built from such a glyph inherits the ambiguity at `m`.
fn ambiguous_at(d: &Design, name: &str, m: usize, guard: usize) -> bool {
    let Some(g) = d.glyph(name) else { return false };
    if !closure_has_source(d, name, m, 0) {
        return varying_2x2_in_closure(d, name, 0);
    }
    guard <= 8 && bases_of(g).into_iter().any(|b| ambiguous_at(d, b, m, guard + 1))
}

/// (contour in source order, number of negative-determinant transforms on the path)
fn truth_raw(d: &Design, name: &str, m: usize, guard: usize) -> Result<(Vec<(Vec<P>, u32)>, usize), String> {
    if guard > 8 {
        return Err("component nesting too deep / cyclic".into());
    }
    let g = d.glyph(name).ok_or_else(|| format!("source has no glyph {name}"))?;
    let l = layer_at(d, g, m)?;
    let mut out = vec![];
    for c in &l.contours {
        let mut pts = vec![];
        for p in &c.points {
            let on = match p.kind {
                PtKind::Line | PtKind::QCurve => true,
                PtKind::Off => false,
                PtKind::Curve | PtKind::Move => return Err("cubic or open contours are outside C12".into()),
            };
            pts.push((p.x, p.y, on));
        }
        out.push((pts, 0));
    }
    let mut depth = 0;
    for comp in &l.components {
        let (sub, sd) = truth_raw(d, &comp.base, m, guard + 1)?;
        depth = depth.max(sd + 1);
        let x = comp.xform;
        let flip = (x[0] * x[3] - x[1] * x[2]) < 0.0;
        for (pts, k) in sub {
            out.push((pts.iter().map(|p| apply(&x, *p)).collect(), k + flip as u32));
        }
    }
    Ok((out, depth))
}

fn truth(d: &Design, name: &str, m: usize) -> Result<Truth, String> {
    let (raw, depth) = truth_raw(d, name, m, 0)?;
    let mut flips_seen = false;
    let contours = raw
        .into_iter()
        .map(|(pts, k)| {
            flips_seen |= k > 0;
            let e = explicit(&pts);
            // the compiler reverses every contour once (TrueType direction), and once more per flip it
            // resolves itself; flips it leaves to the rasteriser are undone on the font side
            CC { pts: if k % 2 == 0 { reversed(&e) } else { e }, err: 0.0 }
        })
        .collect();
    Ok(Truth { contours, depth, flips_seen })
}

// ------------------------------------------------------------------------------------ font side

#[derive(Clone, Debug, PartialEq)]
enum Stored {
    Empty,
    Simple,
    /// (base glyph name, 2x2 as xx yx xy yy)
    Composite(Vec<(String, [i64; 4])>),
}

impl Stored {
    fn short(&self) -> String {
        match self {
            Stored::Empty => "empty".into(),
            Stored::Simple => "simple".into(),
            Stored::Composite(v) => {
                let parts: Vec<String> = v
                    .iter()
                    .map(|(n, m)| {
                        let f = |x: i64| x as f64 / 16384.0;
                        if *m == [16384, 0, 0, 16384] {
                            n.clone()
                        } else {
                            format!("{n}[{} {} {} {}]", f(m[0]), f(m[1]), f(m[2]), f(m[3]))
                        }
                    })
                    .collect();
                format!("composite({})", parts.join(", "))
            }
        }
    }
}

struct FontGlyph {
    /// raw resolved contours (no canonicalisation), stored flips on the path, error allowance
    raw: Vec<(Vec<P>, u32, f64)>,
    depth: usize,
    stored: Stored,
    iup: bool,
}

struct FontView<'a> {
    vf: VFont<'a>,
    names: Vec<String>,
}

impl<'a> FontView<'a> {
    fn new(bytes: &'a [u8]) -> Result<Self, String> {
        let vf = VFont::new(bytes)?;
        let names = vf.glyph_names();
        Ok(FontView { vf, names })
    }
    fn gid(&self, name: &str) -> Option<u16> {
        self.names.iter().position(|n| n == name).map(|i| i as u16)
    }

    fn glyph(&self, gid: u16, coords: &[f64], guard: usize) -> Result<FontGlyph, String> {
        if guard > 16 {
            return Err("stored component nesting too deep".into());
        }
        let g = self.vf.glyph_at(gid, coords)?;
        let nondefault = coords.iter().any(|c| *c != 0.0);
        match g.kind {
            InstKind::Empty => Ok(FontGlyph { raw: vec![], depth: 0, stored: Stored::Empty, iup: false }),
            InstKind::Simple { contours } => {
                // every active tuple that omits points may be off by the compiler's IUP tolerance (0.5),
                // weighted with its scalar at this location
                let mut iup = false;
                let mut iup_err = 0.0;
                if nondefault {
                    for t in self.vf.glyph_tuples(gid)? {
                        let sc = t.scalar(coords);
                        if sc != 0.0 && t.points.is_some() {
                            iup = true;
                            iup_err += 0.5 * sc.abs();
                        }
                    }
                }
                let err = 0.5 + iup_err;
                Ok(FontGlyph {
                    raw: contours
                        .into_iter()
                        .map(|c| (c.into_iter().map(|p| (p.x, p.y, p.on)).collect(), 0, err))
                        .collect(),
                    depth: 0,
                    stored: Stored::Simple,
                    iup,
                })
            }
            InstKind::Composite { components } => {
                let mut raw = vec![];
                let mut depth = 0;
                let mut iup = false;
                let mut st = vec![];
                for c in &components {
                    if c.flags & otvar::glyf::ARGS_ARE_XY_VALUES == 0 || c.flags & otvar::glyf::SCALED_COMPONENT_OFFSET != 0 {
                        return Err(format!("gid {gid}: component uses point matching or scaled offsets (flags {:#x})", c.flags));
                    }
                    let sub = self.glyph(c.gid, coords, guard + 1)?;
                    depth = depth.max(sub.depth + 1);
                    iup |= sub.iup;
                    let q = |v: f64| (v * 16384.0).round() as i64;
                    st.push((self.names[c.gid as usize].clone(), [q(c.xx), q(c.yx), q(c.xy), q(c.yy)]));
                    let norm = (c.xx.abs() + c.xy.abs()).max(c.yx.abs() + c.yy.abs());
                    let flip = c.xx * c.yy - c.xy * c.yx < 0.0;
                    for (pts, k, e) in sub.raw {
                        raw.push((
                            pts.iter()
                                .map(|p| (c.xx * p.0 + c.xy * p.1 + c.dx, c.yx * p.0 + c.yy * p.1 + c.dy, p.2))
                                .collect(),
                            k + flip as u32,
                            norm * e + 0.5,
                        ));
                    }
                }
                Ok(FontGlyph { raw, depth, stored: Stored::Composite(st), iup })
            }
        }
    }
}

struct Resolved {
    canon: Vec<CC>,
    raw: Vec<Vec<P>>,
    depth: usize,
    stored: Stored,
    iup: bool,
    stored_flips: usize,
    adv_metrics: f64,
    adv_phantom: f64,
}

/// Resolve `gid`; cross-checks the walk against `otvar`'s own `resolve` (machinery error when the two
/// disagree: this file only adds the per-contour bookkeeping).
fn resolve(fv: &FontView, gid: u16, coords: &[f64]) -> Result<Resolved, String> {
    let g = fv.glyph(gid, coords, 0)?;
    let r = fv.vf.resolve(gid, coords)?;
    let flat: Vec<Vec<P>> = r.contours.iter().map(|c| c.iter().map(|p| (p.x, p.y, p.on)).collect()).collect();
    let mine: Vec<Vec<P>> = g.raw.iter().map(|(p, _, _)| p.clone()).collect();
    if flat != mine || r.depth != g.depth {
        return Err(format!("c12 walk and otvar::resolve disagree on gid {gid}"));
    }
    let stored_flips = g.raw.iter().filter(|(_, k, _)| k % 2 == 1).count();
    let canon = g
        .raw
        .iter()
        .map(|(pts, k, e)| {
            let ex = explicit(pts);
            CC { pts: if k % 2 == 1 { reversed(&ex) } else { ex }, err: *e }
        })
        .collect();
    Ok(Resolved {
        canon,
        raw: mine,
        depth: g.depth,
        stored: g.stored,
        iup: g.iup,
        stored_flips,
        adv_metrics: fv.vf.h_advance_at(gid, coords),
        adv_phantom: r.advance,
    })
}

// ------------------------------------------------------------------------------------ evaluation

#[derive(Clone, Debug)]
struct Viol {
    /// shape-differs | direction-differs | advance-differs | phantom-advance-differs | source-differs |
    /// source-direction-differs | source-advance-differs | build-fails | glyph-missing
    class: &'static str,
    cfg: usize,
    glyph: String,
    master: usize,
    what: String,
    contours_x: Value,
    contours_0: Value,
}

#[derive(Default, Clone, Debug, Serialize)]
struct Stats {
    cases: u64,
    compiles: u64,
    rejected_by_all_configs: u64,
    glyph_location_pairs_compared: u64,
    source_comparisons: u64,
    /// per configuration name: (case, glyph) pairs stored differently from the empty configuration
    stored_form_differs: BTreeMap<String, u64>,
    simple_vs_composite: BTreeMap<String, u64>,
    cases_with_stored_form_difference: u64,
    cases_forced_decomposition: u64,
    glyphs_forced_decomposition_stored_simple_by_default: u64,
    cases_nonexport_inlined: u64,
    cases_depth3: u64,
    glyphs_stored_depth3_by_default: u64,
    cases_with_flip: u64,
    contours_flip_left_to_rasteriser: u64,
    contours_flip_resolved_by_compiler: u64,
    derived_glyphs_seen: u64,
    pairs_with_nonzero_diff: u64,
    pairs_beyond_depth_units: u64,
    pairs_with_iup_allowance: u64,
    max_pair_diff_by_depth: BTreeMap<String, f64>,
    max_source_diff_by_depth: BTreeMap<String, f64>,
    skrifa_crosschecks: u64,
    skrifa_max_unrounded_diff: f64,
    cases_three_locations: u64,
    glyph_locations_skipped_no_source_in_closure: u64,
    glyph_locations_skipped_interpolation_ambiguous: u64,
    glyphs_judged_at_middle: u64,
    glyphs_judged_at_middle_without_own_source: u64,
    pairs_compared_at_middle: u64,
}

fn bump(m: &mut BTreeMap<String, u64>, k: &str) {
    *m.entry(k.to_string()).or_default() += 1;
}
fn bump_max(m: &mut BTreeMap<String, f64>, k: &str, v: f64) {
    let e = m.entry(k.to_string()).or_default();
    if v > *e {
        *e = v;
    }
}

fn add_stats(a: &mut Stats, b: &Stats) {
    let mut va = serde_json::to_value(&*a).unwrap();
    let vb = serde_json::to_value(b).unwrap();
    // numbers add, except the maxima
    fn merge(a: &mut Value, b: &Value, maxima: bool) {
        match (a, b) {
            (Value::Object(ma), Value::Object(mb)) => {
                for (k, v) in mb {
                    let mx = maxima || k.starts_with("max_") || k.contains("_max_");
                    match ma.get_mut(k) {
                        Some(x) => merge(x, v, mx),
                        None => {
                            ma.insert(k.clone(), v.clone());
                        }
                    }
                }
            }
            (a @ Value::Number(_), Value::Number(nb)) => {
                if maxima {
                    let (x, y) = (a.as_f64().unwrap_or(0.0), nb.as_f64().unwrap_or(0.0));
                    *a = json!(x.max(y));
                } else if let (Some(x), Some(y)) = (a.as_u64(), nb.as_u64()) {
                    *a = json!(x + y);
                } else {
                    *a = json!(a.as_f64().unwrap_or(0.0) + nb.as_f64().unwrap_or(0.0));
                }
            }
            _ => {}
        }
    }
    merge(&mut va, &vb, false);
    *a = stats_from_value(&va);
}

fn stats_from_value(v: &Value) -> Stats {
    let u = |k: &str| v[k].as_u64().unwrap_or(0);
    let mu = |k: &str| -> BTreeMap<String, u64> {
        v[k].as_object().map(|m| m.iter().map(|(k, v)| (k.clone(), v.as_u64().unwrap_or(0))).collect()).unwrap_or_default()
    };
    let mf = |k: &str| -> BTreeMap<String, f64> {
        v[k].as_object().map(|m| m.iter().map(|(k, v)| (k.clone(), v.as_f64().unwrap_or(0.0))).collect()).unwrap_or_default()
    };
    Stats {
        cases: u("cases"),
        compiles: u("compiles"),
        rejected_by_all_configs: u("rejected_by_all_configs"),
        glyph_location_pairs_compared: u("glyph_location_pairs_compared"),
        source_comparisons: u("source_comparisons"),
        stored_form_differs: mu("stored_form_differs"),
        simple_vs_composite: mu("simple_vs_composite"),
        cases_with_stored_form_difference: u("cases_with_stored_form_difference"),
        cases_forced_decomposition: u("cases_forced_decomposition"),
        glyphs_forced_decomposition_stored_simple_by_default: u("glyphs_forced_decomposition_stored_simple_by_default"),
        cases_nonexport_inlined: u("cases_nonexport_inlined"),
        cases_depth3: u("cases_depth3"),
        glyphs_stored_depth3_by_default: u("glyphs_stored_depth3_by_default"),
        cases_with_flip: u("cases_with_flip"),
        contours_flip_left_to_rasteriser: u("contours_flip_left_to_rasteriser"),
        contours_flip_resolved_by_compiler: u("contours_flip_resolved_by_compiler"),
        derived_glyphs_seen: u("derived_glyphs_seen"),
        pairs_with_nonzero_diff: u("pairs_with_nonzero_diff"),
        pairs_beyond_depth_units: u("pairs_beyond_depth_units"),
        pairs_with_iup_allowance: u("pairs_with_iup_allowance"),
        max_pair_diff_by_depth: mf("max_pair_diff_by_depth"),
        max_source_diff_by_depth: mf("max_source_diff_by_depth"),
        skrifa_crosschecks: u("skrifa_crosschecks"),
        skrifa_max_unrounded_diff: v["skrifa_max_unrounded_diff"].as_f64().unwrap_or(0.0),
        cases_three_locations: u("cases_three_locations"),
        glyph_locations_skipped_no_source_in_closure: u("glyph_locations_skipped_no_source_in_closure"),
        glyph_locations_skipped_interpolation_ambiguous: u("glyph_locations_skipped_interpolation_ambiguous"),
        glyphs_judged_at_middle: u("glyphs_judged_at_middle"),
        glyphs_judged_at_middle_without_own_source: u("glyphs_judged_at_middle_without_own_source"),
        pairs_compared_at_middle: u("pairs_compared_at_middle"),
    }
}

struct EvalOut {
    viol: Vec<Viol>,
    stats: Stats,
    machinery: Vec<String>,
    nontrivial: bool,
    summary: Value,
}

fn contours_json(r: &[Vec<P>]) -> Value {
    json!(r.iter().map(|c| c.iter().map(|p| json!([p.0, p.1, p.2])).collect::<Vec<_>>()).collect::<Vec<_>>())
}

/// Compile `d` under every configuration of `cfgs` (index 0 must be the reference) and judge.
/// `skrifa_cfgs`: configurations whose fonts are also run through the skrifa cross-check.
fn evaluate(d: &Design, cfgs: &[Opts], skrifa_cfgs: &[usize]) -> EvalOut {
    let mut out = EvalOut { viol: vec![], stats: Stats::default(), machinery: vec![], nontrivial: false, summary: Value::Null };
    let st = &mut out.stats;
    st.cases = 1;
    let sc = vcore::Scratch::new("c12");
    let path = match d.write_designspace(sc.path()) {
        Ok(p) => p,
        Err(e) => {
            out.machinery.push(format!("cannot write the source: {e}"));
            return out;
        }
    };
    let fonts: Vec<Result<Vec<u8>, fcx::Failure>> = cfgs.iter().map(|o| fcx::compile(&path, o, None)).collect();
    st.compiles = cfgs.len() as u64;
    drop(sc);

    if fonts.iter().all(|f| f.is_err()) {
        st.rejected_by_all_configs = 1;
        out.summary = json!({"rejected": format!("{:?}", fonts[0].as_ref().err())});
        return out;
    }
    let bad = |cfg: usize, what: String| Viol {
        class: "build-fails",
        cfg,
        glyph: String::new(),
        master: 0,
        what,
        contours_x: Value::Null,
        contours_0: Value::Null,
    };
    let ref_bytes = match &fonts[0] {
        Ok(b) => b,
        Err(e) => {
            out.viol.push(bad(0, format!("the empty configuration fails ({e:?}) while another configuration builds")));
            return out;
        }
    };
    let fv0 = match FontView::new(ref_bytes) {
        Ok(f) => f,
        Err(e) => {
            out.machinery.push(format!("otvar cannot read the reference font: {e}"));
            return out;
        }
    };
    let exported: Vec<&Glyph> = d.glyphs.iter().filter(|g| g.export).collect();
    let tag = d.axes[0].tag.clone();
    let users: Vec<f64> = (0..d.masters.len()).map(|m| d.master_user(m)[0]).collect();

    // ---- the reference font against the source, and its resolved glyphs
    struct Ref {
        /// (master index, normalized coordinates, resolution in the reference font, source truth)
        per_master: Vec<(usize, Vec<f64>, Resolved, Truth)>,
    }
    let mut refs: BTreeMap<String, Ref> = BTreeMap::new();
    let mut any_flip = false;
    let mut max_depth = 0;
    let mut nonexport_inlined = false;
    let mut forced = false;
    for g in &exported {
        let Some(gid) = fv0.gid(&g.name) else {
            out.viol.push(Viol {
                class: "glyph-missing",
                cfg: 0,
                glyph: g.name.clone(),
                master: 0,
                what: format!("exported glyph {} is not in the font of the empty configuration", g.name),
                contours_x: Value::Null,
                contours_0: Value::Null,
            });
            continue;
        };
        let mut per_master = vec![];
        for (m, u) in users.iter().enumerate() {
            // a location is judged for a glyph when the glyph or anything it is built from has a
            // source there (elsewhere "the glyph at that location" is not fixed by the source:
            // interpolating a composite and composing interpolations differ legitimately)
            if !closure_has_source(d, &g.name, m, 0) {
                st.glyph_locations_skipped_no_source_in_closure += 1;
                continue;
            }
            if ambiguous_at(d, &g.name, m, 0) {
                st.glyph_locations_skipped_interpolation_ambiguous += 1;
                continue;
            }
            if m >= 2 {
                st.glyphs_judged_at_middle += 1;
                if !g.layers.contains_key(&m) {
                    st.glyphs_judged_at_middle_without_own_source += 1;
                }
            }
            let coords = fv0.vf.normalize(&[(tag.clone(), *u)]);
            let t = match truth(d, &g.name, m) {
                Ok(t) => t,
                Err(e) => {
                    out.machinery.push(format!("source resolution: {e}"));
                    return out;
                }
            };
            let r = match resolve(&fv0, gid, &coords) {
                Ok(r) => r,
                Err(e) => {
                    out.machinery.push(format!("resolve {} in the reference font: {e}", g.name));
                    return out;
                }
            };
            any_flip |= t.flips_seen;
            max_depth = max_depth.max(t.depth);
            if r.depth == 3 && m == 0 {
                st.glyphs_stored_depth3_by_default += 1;
            }
            per_master.push((m, coords, r, t));
        }
        if per_master.is_empty() {
            continue;
        }
        // measured: a base of this glyph is absent from the font although the glyph resolves to its outline
        let l0 = &g.layers[&0];
        if l0.components.iter().any(|c| fv0.gid(&c.base).is_none()) {
            nonexport_inlined = true;
        }
        let varies = |c: usize| {
            g.layers.values().any(|l| l.components[c].xform[..4] != l0.components[c].xform[..4])
        };
        let must = (0..l0.components.len()).any(|c| varies(c) || l0.components[c].xform[..4].iter().any(|v| v.abs() > 2.0));
        if must {
            forced = true;
            if per_master[0].2.stored == Stored::Simple {
                st.glyphs_forced_decomposition_stored_simple_by_default += 1;
            }
        }
        refs.insert(g.name.clone(), Ref { per_master });
    }
    st.cases_three_locations = (d.masters.len() > 2) as u64;
    st.cases_with_flip = any_flip as u64;
    st.cases_depth3 = (max_depth >= 3) as u64;
    st.cases_nonexport_inlined = nonexport_inlined as u64;
    st.cases_forced_decomposition = forced as u64;

    // ---- every configuration: against the source and against the reference
    let mut src0_ok: BTreeMap<(String, usize), bool> = BTreeMap::new();
    let mut any_form_diff = false;
    let mut forms: Vec<Value> = vec![];
    for (ci, f) in fonts.iter().enumerate() {
        let cname = cfgs[ci].name();
        let bytes = match f {
            Ok(b) => b,
            Err(e) => {
                out.viol.push(bad(ci, format!("configuration {cname} fails to build ({e:?}); the empty configuration builds")));
                continue;
            }
        };
        let fvx;
        let fv = if ci == 0 {
            &fv0
        } else {
            fvx = match FontView::new(bytes) {
                Ok(f) => f,
                Err(e) => {
                    out.machinery.push(format!("otvar cannot read the font of {cname}: {e}"));
                    continue;
                }
            };
            &fvx
        };
        let source_names: HashSet<&str> = d.glyphs.iter().map(|g| g.name.as_str()).collect();
        st.derived_glyphs_seen +=
            fv.names.iter().filter(|n| *n != ".notdef" && !source_names.contains(n.as_str())).count() as u64;
        let mut form_row = vec![];
        for g in &exported {
            let Some(rf) = refs.get(&g.name) else { continue };
            let Some(gid) = fv.gid(&g.name) else {
                out.viol.push(Viol {
                    class: "glyph-missing",
                    cfg: ci,
                    glyph: g.name.clone(),
                    master: 0,
                    what: format!("exported glyph {} is not in the font of {cname}", g.name),
                    contours_x: Value::Null,
                    contours_0: Value::Null,
                });
                continue;
            };
            for (m, coords, r0, t) in rf.per_master.iter().map(|(m, c, r, t)| (*m, c, r, t)) {
                let rx_owned;
                let rx = if ci == 0 {
                    r0
                } else {
                    rx_owned = match resolve(fv, gid, coords) {
                        Ok(r) => r,
                        Err(e) => {
                            out.machinery.push(format!("resolve {} in the font of {cname}: {e}", g.name));
                            continue;
                        }
                    };
                    &rx_owned
                };
                let dkey = format!("depth{}", t.depth);
                let mk = |class: &'static str, what: String| Viol {
                    class,
                    cfg: ci,
                    glyph: g.name.clone(),
                    master: m,
                    what,
                    contours_x: contours_json(&rx.raw),
                    contours_0: contours_json(&r0.raw),
                };
                // (1) against the source
                st.source_comparisons += 1;
                let src = compare(&rx.canon, &t.contours);
                if let Cmp::Same(dmax) = &src {
                    bump_max(&mut st.max_source_diff_by_depth, &dkey, *dmax);
                }
                if ci == 0 {
                    src0_ok.insert((g.name.clone(), m), matches!(src, Cmp::Same(_)));
                }
                let want_adv = match layer_at(d, g, m) {
                    Ok(l) => dgen::ot_round(l.advance),
                    Err(e) => {
                        out.machinery.push(format!("source advance: {e}"));
                        continue;
                    }
                };
                if (rx.adv_metrics - want_adv).abs() > 1e-6 {
                    out.viol.push(mk(
                        "source-advance-differs",
                        format!("{} at master {m} under {cname}: advance {} but the source says {}", g.name, rx.adv_metrics, want_adv),
                    ));
                }
                // counters on the way the configuration stores the glyph
                if m == 0 {
                    st.contours_flip_left_to_rasteriser += rx.stored_flips as u64;
                    form_row.push(format!("{}: {}", g.name, rx.stored.short()));
                    if ci != 0 && rx.stored != r0.stored {
                        bump(&mut st.stored_form_differs, &cname);
                        any_form_diff = true;
                        if matches!((&rx.stored, &r0.stored), (Stored::Simple, Stored::Composite(_)) | (Stored::Composite(_), Stored::Simple)) {
                            bump(&mut st.simple_vs_composite, &cname);
                        }
                    }
                    // flips the compiler resolved itself: source flips on a path minus stored ones (parity view)
                    if let Ok((raw, _)) = truth_raw(d, &g.name, 0, 0) {
                        let src_odd = raw.iter().filter(|(_, k)| k % 2 == 1).count();
                        st.contours_flip_resolved_by_compiler += src_odd.saturating_sub(rx.stored_flips) as u64;
                    }
                }
                if ci == 0 {
                    report_source(&src, &mut out.viol, &mk, &g.name, m, &cname);
                    continue;
                }
                // (2) against the empty configuration
                st.glyph_location_pairs_compared += 1;
                if m >= 2 {
                    st.pairs_compared_at_middle += 1;
                }
                if rx.iup || r0.iup {
                    st.pairs_with_iup_allowance += 1;
                }
                let pair = compare(&rx.canon, &r0.canon);
                match &pair {
                    Cmp::Same(dmax) => {
                        bump_max(&mut st.max_pair_diff_by_depth, &dkey, *dmax);
                        if *dmax > 1e-9 {
                            st.pairs_with_nonzero_diff += 1;
                        }
                        if *dmax > t.depth as f64 + 1e-6 {
                            st.pairs_beyond_depth_units += 1;
                        }
                    }
                    other => {
                        let (class, why) = match other {
                            Cmp::Dup(w) => ("duplicate-contour-dropped", w),
                            Cmp::Dir(w) => ("direction-differs", w),
                            Cmp::Shape(w) => ("shape-differs", w),
                            Cmp::Same(_) => unreachable!(),
                        };
                        out.viol.push(mk(
                            class,
                            format!(
                                "{} at master {m}: configuration {cname} and the empty configuration resolve to different outlines: {why}",
                                g.name
                            ),
                        ));
                    }
                }
                // a source mismatch of X is reported when it is not the reference's own mismatch again
                // and not already explained by the pair comparison
                if matches!(pair, Cmp::Same(_)) && src0_ok.get(&(g.name.clone(), m)) == Some(&true) {
                    report_source(&src, &mut out.viol, &mk, &g.name, m, &cname);
                }
                if (rx.adv_metrics - r0.adv_metrics).abs() > 1e-6 {
                    out.viol.push(mk(
                        "advance-differs",
                        format!("{} at master {m}: advance {} under {cname}, {} under the empty configuration", g.name, rx.adv_metrics, r0.adv_metrics),
                    ));
                }
                if (rx.adv_phantom - r0.adv_phantom).abs() > 1e-6 {
                    out.viol.push(mk(
                        "phantom-advance-differs",
                        format!(
                            "{} at master {m}: advance from the phantom points {} under {cname}, {} under the empty configuration",
                            g.name, rx.adv_phantom, r0.adv_phantom
                        ),
                    ));
                }
            }
            // second opinion on the evaluator
            if skrifa_cfgs.contains(&ci) {
                for (_, coords, _, _) in &rf.per_master {
                    match otvar::crosscheck_skrifa_detail(bytes, gid, coords) {
                        Ok(cc) => {
                            st.skrifa_crosschecks += 1;
                            st.skrifa_max_unrounded_diff = st.skrifa_max_unrounded_diff.max(cc.unrounded_diff);
                            if !cc.ok() {
                                out.machinery.push(format!(
                                    "otvar and skrifa disagree on {} under {cname} at {coords:?}: {cc:?}",
                                    g.name
                                ));
                            }
                        }
                        Err(e) => out.machinery.push(format!("skrifa cross-check of {} under {cname}: {e}", g.name)),
                    }
                }
            }
        }
        if ci == 0 || forms.len() < 4 {
            forms.push(json!({ "config": cname, "glyphs": form_row }));
        }
    }
    st.cases_with_stored_form_difference = any_form_diff as u64;
    out.nontrivial = any_form_diff;
    out.summary = json!({ "stored": forms });
    out
}

fn report_source(
    src: &Cmp,
    viol: &mut Vec<Viol>,
    mk: &dyn Fn(&'static str, String) -> Viol,
    glyph: &str,
    m: usize,
    cname: &str,
) {
    let (class, why) = match src {
        Cmp::Same(_) => return,
        Cmp::Dup(w) => ("source-duplicate-contour-dropped", w),
        Cmp::Dir(w) => ("source-direction-differs", w),
        Cmp::Shape(w) => ("source-differs", w),
    };
    viol.push(mk(
        class,
        format!("{glyph} at master {m} under {cname} differs from the source's own f64 resolution: {why}"),
    ));
}

enum Cmp {
    /// equal within the allowances; largest difference
    Same(f64),
    /// equal as sets, but one side has fewer copies of coincident contours
    Dup(String),
    /// equal when direction is ignored
    Dir(String),
    Shape(String),
}

/// Remove contours that coincide exactly with an earlier one.
fn dedup(a: &[CC]) -> Vec<CC> {
    let mut out: Vec<CC> = vec![];
    for c in a {
        if !out.iter().any(|o| cyclic_diff(&o.pts, &c.pts).is_some_and(|d| d <= 1e-9)) {
            out.push(c.clone());
        }
    }
    out
}

fn compare(a: &[CC], b: &[CC]) -> Cmp {
    let mo = match_contours(a, b);
    if mo.ok {
        return Cmp::Same(mo.max_diff);
    }
    if a.len() != b.len() {
        let (da, db) = (dedup(a), dedup(b));
        if (da.len() < a.len() || db.len() < b.len()) && match_contours(&da, &db).ok {
            return Cmp::Dup(format!(
                "{} contours vs {}; equal once coincident copies of a contour are collapsed ({} distinct)",
                a.len(),
                b.len(),
                da.len()
            ));
        }
        return Cmp::Shape(mo.why);
    }
    let flipped: Vec<CC> = a.iter().map(|c| CC { pts: reversed(&c.pts), err: c.err }).collect();
    if match_either(a, &flipped, b) { Cmp::Dir(mo.why) } else { Cmp::Shape(mo.why) }
}

/// Is there a perfect matching when every contour of the left side may be taken in either direction?
fn match_either(a: &[CC], a_rev: &[CC], b: &[CC]) -> bool {
    // a contour and its reverse share the index: build a combined candidate list per index
    let n = a.len();
    if n != b.len() {
        return false;
    }
    let mut adj: Vec<Vec<usize>> = vec![vec![]; n];
    for i in 0..n {
        for j in 0..n {
            let tol = a[i].err + b[j].err + 1e-6;
            let d1 = cyclic_diff(&a[i].pts, &b[j].pts).map(|d| d <= tol).unwrap_or(false);
            let d2 = cyclic_diff(&a_rev[i].pts, &b[j].pts).map(|d| d <= tol).unwrap_or(false);
            if d1 || d2 {
                adj[i].push(j);
            }
        }
    }
    fn go(i: usize, adj: &[Vec<usize>], seen: &mut [bool], mate: &mut [Option<usize>]) -> bool {
        for &j in &adj[i] {
            if seen[j] {
                continue;
            }
            seen[j] = true;
            if mate[j].is_none() || go(mate[j].unwrap(), adj, seen, mate) {
                mate[j] = Some(i);
                return true;
            }
        }
        false
    }
    let mut mate = vec![None; n];
    (0..n).all(|i| {
        let mut seen = vec![false; n];
        go(i, &adj, &mut seen, &mut mate)
    })
}

// ------------------------------------------------------------------------------------ replay

fn replay(path: &std::path::Path) -> ! {
    let s = std::fs::read_to_string(path).unwrap_or_else(|e| vcore::machinery_error(&format!("{path:?}: {e}")));
    let v: Value = serde_json::from_str(&s).unwrap_or_else(|e| vcore::machinery_error(&format!("{path:?}: {e}")));
    let r = v.get("replay").cloned().unwrap_or(v.clone());
    let d: Design = serde_json::from_value(r["design"].clone())
        .unwrap_or_else(|e| vcore::machinery_error(&format!("replay has no usable design: {e}")));
    let ox: Opts = serde_json::from_value(r["opts_x"].clone()).unwrap_or_default();
    let o0: Opts = serde_json::from_value(r["opts_0"].clone()).unwrap_or_default();
    println!("replaying {}: {} vs {}", v["key"].as_str().unwrap_or("?"), ox.name(), o0.name());
    if let Some(c) = r.get("case") {
        if let Ok(c) = serde_json::from_value::<Case>(c.clone()) {
            println!("source: {}", c.label());
        }
    }
    if let Ok(dir) = std::env::var("C12_KEEP") {
        // leave the source behind for a run of the product binary
        match d.write_designspace(std::path::Path::new(&dir)) {
            Ok(p) => println!("source written to {} (options: {})", p.display(), ox.cli_args().join(" ")),
            Err(e) => println!("cannot write the source to {dir}: {e}"),
        }
    }
    if v["key"].as_str().is_some_and(|k| k.starts_with("build-fails")) {
        // whether this build fails depends on HashMap iteration order inside the compiler: every
        // compile on this thread sees other hash keys, so try a number of them
        let sc = vcore::Scratch::new("c12-replay");
        let path = d
            .write_designspace(sc.path())
            .unwrap_or_else(|e| vcore::machinery_error(&format!("cannot write the source: {e}")));
        let mut fails = 0;
        let mut builds = 0;
        let mut msg = String::new();
        for i in 0..64 {
            match fcx::compile(&path, if i % 2 == 0 { &ox } else { &o0 }, None) {
                Ok(_) => builds += 1,
                Err(e) => {
                    fails += 1;
                    msg = format!("{e:?}");
                }
            }
        }
        println!("64 builds under varying hash keys: {builds} succeed, {fails} fail {msg}");
        vcore::cleanup_scratch();
        std::process::exit(if fails > 0 { 1 } else { 0 });
    }
    let out = evaluate(&d, &[o0, ox], &[]);
    for m in &out.machinery {
        println!("machinery: {m}");
    }
    for x in &out.viol {
        println!("{}: glyph {} master {}: {}", x.class, x.glyph, x.master, x.what);
    }
    println!("stored forms: {}", out.summary);
    vcore::cleanup_scratch();
    if !out.machinery.is_empty() && out.viol.is_empty() {
        std::process::exit(2);
    }
    if out.viol.is_empty() {
        println!("the case no longer fails");
        std::process::exit(0);
    }
    std::process::exit(1)
}

// ------------------------------------------------------------------------------------ main

const LANES: usize = 32;

/// counting semaphore: how many lanes may work at a time
struct Permits {
    free: std::sync::Mutex<usize>,
    cv: std::sync::Condvar,
}
struct Permit<'a>(&'a Permits);
impl Permits {
    fn new(n: usize) -> Self {
        Permits { free: std::sync::Mutex::new(n.max(1)), cv: std::sync::Condvar::new() }
    }
    fn acquire(&self) -> Permit<'_> {
        let mut g = self.free.lock().unwrap();
        while *g == 0 {
            g = self.cv.wait(g).unwrap();
        }
        *g -= 1;
        Permit(self)
    }
}
impl Drop for Permit<'_> {
    fn drop(&mut self) {
        *self.0.free.lock().unwrap() += 1;
        self.0.cv.notify_one();
    }
}

fn main() {
    let args = vcore::parse_args();
    // fixed hash keys: the sweep's verdicts are a function of (tier, seed), see the lanes below
    vcore::ensure_shim(args.seed);
    std::panic::set_hook(Box::new(|info| {
        if info.location().is_some_and(|l| l.file().ends_with("c12.rs")) {
            eprintln!("harness panic: {info}");
        }
    }));
    if let Some(p) = &args.replay {
        replay(p);
    }
    let mut rep = Reporter::new("C12", "exploration", &args);
    let (cases, notes) = spaces(args.tier);
    let cfgs = all_configs();
    let only: Option<usize> = std::env::var("C12_LIMIT").ok().and_then(|s| s.parse().ok());
    let total_cases = only.map(|n| n.min(cases.len())).unwrap_or(cases.len());
    // development aid: skip the first n cases of the list (the run is then not exhaustive)
    let from: usize = std::env::var("C12_FROM").ok().and_then(|s| s.parse().ok()).unwrap_or(0);
    let skrifa_every = args.tier.pick(37usize, 211usize);
    // A fixed number of lanes, each a thread of its own working through a fixed subsequence of the case
    // list: with the shimmed getrandom the hash keys every compile sees are then a function of
    // (tier, seed) alone, so verdicts repeat exactly although fontc's behaviour on some of these sources
    // depends on HashMap iteration order (see `build-fails`). A fresh thread per compile would be cleaner
    // but costs ~30 ms of per-thread initialisation inside the compiler. VERIF_JOBS bounds how many lanes
    // run at a time.
    let permits = Permits::new(vcore::ncores());
    // safety cap on wall time (never reached on an idle 16-core machine: quick ~15 s, thorough ~10 min)
    let cap_s: f64 = std::env::var("C12_CAP_S")
        .ok()
        .and_then(|s| s.parse().ok())
        .unwrap_or(args.tier.pick(600.0, 5400.0));
    let t0 = std::time::Instant::now();
    let skipped = std::sync::atomic::AtomicUsize::new(0);
    let lane_fn = |lane: usize| {
        let mut st = Stats::default();
        let mut viol: Vec<(String, String, Value)> = vec![];
        let mut machinery: Vec<String> = vec![];
        let mut samples: Vec<Value> = vec![];
        let mut nontrivial = 0u64;
        let mut seen = BTreeSet::new();
        for idx in (lane..total_cases).step_by(LANES) {
            if idx < from {
                continue;
            }
            let _permit = permits.acquire();
            if t0.elapsed().as_secs_f64() > cap_s {
                skipped.fetch_add(1, std::sync::atomic::Ordering::Relaxed);
                continue;
            }
            let case = &cases[idx];
            let d = build_design(case);
            let sk: Vec<usize> = if idx % skrifa_every == 0 { vec![0, (idx / skrifa_every) % 16] } else { vec![] };
            let ev = evaluate(&d, &cfgs, &sk);
            add_stats(&mut st, &ev.stats);
            if ev.nontrivial {
                nontrivial += 1;
            }
            machinery.extend(ev.machinery.into_iter().map(|m| format!("{m} [source {}]", case.label())));
            if idx % 509 == 3 && ev.viol.is_empty() {
                samples.push(json!({"source": case.label(), "result": ev.summary}));
            }
            for x in ev.viol {
                let gi = NAMES.iter().position(|n| *n == x.glyph);
                let cname = cfgs[x.cfg].name();
                let key = match (x.class, gi) {
                    ("advance-differs" | "phantom-advance-differs" | "source-advance-differs", _) => {
                        format!("{}:{cname}", x.class)
                    }
                    ("build-fails", _) => format!("build-fails:{}", slug(&x.what)),
                    ("duplicate-contour-dropped" | "source-duplicate-contour-dropped", Some(gi)) => {
                        // one mechanism whatever the configuration and transform: key on the glyph kind only
                        format!("{}:{}", x.class, case.kind_label(gi))
                    }
                    (_, Some(gi)) => match case.finding_class(gi, x.master, &cfgs[x.cfg], x.class) {
                        Some(f) => format!("{f}:{cname}"),
                        None => format!("{}:{cname}:{}:{}", x.class, case.transform_label(gi), case.kind_label(gi)),
                    },
                    _ => format!("{}:{cname}", x.class),
                };
                if seen.insert(key.clone()) {
                    viol.push((
                        key,
                        format!("{} [source {}]", x.what, case.label()),
                        json!({
                            "design": serde_json::to_value(&d).unwrap_or(Value::Null),
                            "case": case,
                            "opts_x": cfgs[x.cfg],
                            "opts_0": cfgs[0],
                            "glyph": x.glyph,
                            "master": x.master,
                            "contours_x": x.contours_x,
                            "contours_0": x.contours_0,
                        }),
                    ));
                }
            }
        }
        (st, viol, machinery, samples, nontrivial)
    };
    let results: Vec<_> = std::thread::scope(|s| {
        let lane_fn = &lane_fn;
        let hs: Vec<_> = (0..LANES).map(|lane| s.spawn(move || lane_fn(lane))).collect();
        hs.into_iter()
            .map(|h| h.join().unwrap_or_else(|_| vcore::machinery_error("a lane of the sweep panicked")))
            .collect()
    });
    let mut total = Stats::default();
    let mut samples: Vec<Value> = vec![];
    let mut machinery: Vec<String> = vec![];
    let mut nontrivial = 0u64;
    for (st, viol, mach, s, nt) in results {
        add_stats(&mut total, &st);
        for (k, w, r) in viol {
            rep.violation(&k, &w, r);
        }
        machinery.extend(mach);
        nontrivial += nt;
        for x in s {
            if samples.len() < 8 {
                samples.push(x);
            }
        }
    }
    if !machinery.is_empty() {
        for m in machinery.iter().take(10) {
            eprintln!("  {m}");
        }
        vcore::machinery_error(&format!("{} evaluator/harness failures (first ones above)", machinery.len()));
    }
    // how the enumerated sources exercise the alphabet (structural, from the case list)
    let mut by_tk: BTreeMap<String, u64> = BTreeMap::new();
    let mut structurally_forced = 0u64;
    for c in &cases[..total_cases] {
        if (1..c.n).any(|gi| c.comps[gi].iter().any(|(_, x)| x.forced())) {
            structurally_forced += 1;
        }
        for t in every_tk() {
            if (1..c.n).any(|gi| c.comps[gi].iter().any(|(_, x)| *x == t)) {
                *by_tk.entry(t.name().to_string()).or_default() += 1;
            }
        }
    }
    // the new dimensions, counted structurally from the case list
    let mut dims: BTreeMap<&str, u64> = BTreeMap::new();
    for c in &cases[..total_cases] {
        let any_edge = |f: &dyn Fn(TK) -> bool| (1..c.n).any(|gi| c.comps[gi].iter().any(|(_, x)| f(*x)));
        let any_glyph = |f: &dyn Fn(usize) -> bool| (1..c.n).any(|gi| c.export[gi] && f(gi));
        let mut hit = |k: &'static str, b: bool| *dims.entry(k).or_default() += b as u64;
        hit("offdiagonal_overflow_2x2", any_edge(&|t| t.offdiag_overflow()));
        hit("single_coefficient_variation", any_edge(&|t| t.single_coeff_var()));
        hit("single_coefficient_variation_yy_only", any_edge(&|t| t == TK::VarYY));
        hit("product_overflow_through_nonexport_glyph", any_glyph(&|g| c.product_overflow_below(g, false)));
        hit("product_overflow_through_exported_glyph", any_glyph(&|g| c.product_overflow_below(g, true)));
        hit("three_locations", c.three_locations());
        hit("three_locations_middle_as_layer", c.three_locations() && c.mid_kind == 0);
        hit("three_locations_middle_as_ufo", c.three_locations() && c.mid_kind == 1);
        hit("middle_source_only_below_an_exported_glyph", any_glyph(&|g| !c.has_mid(g) && c.closure_has_mid(g)));
        hit("two_nonexport_parts_middle_source_not_in_last", any_glyph(&|g| c.nonexport_parts_mid_not_last(g)));
        hit("two_nonexport_parts_middle_source_in_last_only", any_glyph(&|g| {
            let ne: Vec<usize> = c.comps[g].iter().map(|(b, _)| *b).filter(|b| !c.export[*b]).collect();
            ne.len() >= 2 && !c.has_mid(g) && c.has_mid(*ne.last().unwrap()) && !ne[..ne.len() - 1].iter().any(|b| c.has_mid(*b))
        }));
        hit("exported_nested_composite_with_middle_source", any_glyph(&|g| c.nested_composite_mid_below(g)));
        hit("nonexport_nested_varying_2x2", any_glyph(&|g| c.nonexport_nested_varying_2x2(g)));
        hit("second_simple_glyph", (1..c.n).any(|gi| c.comps[gi].is_empty()));
    }
    rep.set("evaluations", total.compiles);
    rep.set("cases", total.cases);
    rep.set("configurations", cfgs.iter().map(|c| c.name()).collect::<Vec<_>>());
    rep.set("distinct_nontrivial", nontrivial);
    rep.set(
        "rule",
        "distinct enumerated sources for which at least one of the 15 non-empty configurations stores at least one exported glyph differently from the empty configuration (simple vs composite, or another component list / 2x2), measured by reading glyf of both fonts; every case list entry is a distinct source by construction",
    );
    rep.set("counts", serde_json::to_value(&total).unwrap());
    rep.set("cases_using_transform", serde_json::to_value(&by_tk).unwrap());
    rep.set("cases_with_unstorable_transform_in_source", structurally_forced);
    rep.set("cases_by_new_dimension", serde_json::to_value(&dims).unwrap());
    rep.set("spaces", notes);
    rep.set("samples", samples);
    let skipped = skipped.load(std::sync::atomic::Ordering::Relaxed);
    rep.set("exhaustive", only.is_none() && from == 0 && skipped == 0);
    if from > 0 {
        rep.set("cap", format!("C12_FROM={from}: the first {from} of {} cases not run", cases.len()));
    }
    if skipped > 0 {
        rep.set("cap", format!("wall-time cap of {cap_s} s hit: {skipped} of {total_cases} cases not run"));
    }
    if only.is_some() {
        rep.set("cap", format!("C12_LIMIT={total_cases} of {} cases", cases.len()));
    }
    rep.assume("three-location sources: masters at wght 400 (default), 700 and a middle location 550 (normalized 0.5) at which only a stated non-empty subset of glyphs has a source, written as a sparse layer of the default UFO (thorough: also as a UFO of its own holding only those glyphs). A glyph at a location where it has no source is the linear interpolation of its own sources (outline points, component coefficients, advance), its components resolved AT that location. A glyph is judged at the middle only when it or something below it has a source there, and not when a glyph below it is purely interpolated there while a 2x2 in that glyph's closure varies (interpolating resolved outlines vs composing interpolated components: linear vs bilinear, both legitimate; counted in glyph_locations_skipped_interpolation_ambiguous). Advances of these sources are integers with even differences so the interpolated advance is an integer and advances stay exactly comparable");
    rep.assume("one-axis fonts: the outline of a stored simple glyph (and a stored component offset) at any judged location is a convex combination of per-master ROUNDED values (piecewise-linear model, regions end at the neighbouring master), hence within 0.5 of the source; each active gvar tuple that omits points adds 0.5 x its scalar (IUP tolerance)");
    rep.assume("extension alphabet: all numbers dyadic, so a 2x2 kept in a composite (0.5, 1, 1.25, 1.5, 1.875 and signs) is exact in F2Dot14 and no quantisation term is needed; through a stored component the allowance is ||M||_inf x allowance(child) + 0.5 with ||M||_inf up to 1.875");
    rep.assume("violations that have the minimal feature of a known defect class of the unchanged compiler are keyed by it: flatten-nested-scale-overflow (flatten composes 2x2s of nested EXPORTED composites without re-checking [-2, 2]), flatten-drops-nested-intermediate (flatten of a glyph without a middle source over an exported composite that has one), nonexport-inline-varying-2x2 (a non-export glyph used through a per-master varying 2x2, at a location only a deeper glyph has: products are interpolated instead of interpolations multiplied)");
    rep.assume("sources: UFO/designspace, 1 axis, 2 full masters, every glyph present in both; outlines of lines and quadratics only (cubics differ legitimately through cu2qu of transformed vs untransformed curves); no anchors, no USE_MY_METRICS (fontc sets it on static fonts only)");
    rep.assume("transforms that stay stored as components are exact in F2Dot14 (entries 0, +-0.5, +-1 and their products); scale 2.5 and the per-master varying 2x2 can never be stored");
    rep.assume("direction: contours are compared direction-SENSITIVELY after reversing those reached through an odd number of stored flipped components (a rasteriser mirrors them without re-winding; the compiler re-winds when it decomposes a flip), so all 16 configurations must agree and must equal the source direction reversed once plus once per source flip; a mismatch in direction alone is keyed direction-differs");
    rep.assume("implied on-curve points are made explicit before comparing: the compiler drops an on-curve point when it is the midpoint of its ROUNDED neighbours, which legitimately depends on the stored form");
    rep.assume("tolerance per contour pair = sum of the two fonts' derived allowances: 0.5 per rounding (simple-glyph coordinates once, each stored component offset once, scaled by the 2x2 norms above it) + 0.5 where the active gvar tuple omits points (IUP tolerance of the compiler); float composition order eps 1e-6");
    rep.assume("glyph sets may differ (prefer-simple off derives glyphs such as B.0; non-export bases are absent): only exported glyphs of the source are compared");
    rep.finish()
}
