//! C12 — component handling options never change what a glyph looks like.
//!
//! Bounded-exhaustive: every component tree of a stated family (see `spaces`) is written as a
//! 2-master designspace, compiled in process under all 16 subsets of {flatten, decompose (all),
//! decompose-transformed, prefer-simple off}, and every exported source glyph is resolved through
//! its component graph at both master locations with the independent evaluator `otvar`.
//!
//! Oracle (all contours are brought to a canonical form first: implied on-curve points made
//! explicit — dropping them is decided by the compiler from *rounded* coordinates, so it differs
//! legitimately between stored forms — and a contour reached through an odd number of STORED
//! flipped components is reversed, i.e. the reversal the rasteriser performs implicitly is undone):
//!
//! * configuration X vs the empty configuration: equal advance (exact); equal multiset of contours,
//!   contours compared as cyclic point sequences with equal on/off flags, direction-sensitive,
//!   per-coordinate tolerance = err_X(contour) + err_0(contour);
//! * every configuration vs the source: the Design's own component tree resolved in f64 without
//!   rounding; tolerance err_F(contour); expected direction = source direction reversed once (the
//!   compiler's TrueType direction reversal) and once more per flip on the source path.
//!
//! err_F is derived from the way font F stores the contour:
//!   simple glyph: 0.5 (one `ot_round` of the f64 outline) + 0.5 when the location is not the
//!     default master and the active gvar tuple omits points (IUP inference is accepted by the
//!     compiler up to 0.5 per coordinate);
//!   through a stored component: ||M||_inf * err(child) + 0.5 (the offset is `ot_round`ed per master,
//!     its deltas are integers, so it is exact up to that one rounding at a master location).
//!   Stored 2x2 entries are exact in F2Dot14 for the whole alphabet (0, +-0.5, +-1 and products).
//! With ||M||_inf <= 1 for every storable transform of the alphabet this is at most
//! 0.5 * (stored depth + 1) (+0.5), i.e. the pair tolerance never exceeds `depth + 1 (+1 IUP)` units;
//! how the observed differences compare with the plain "1 unit per nesting level" is reported in the
//! evidence (`max_pair_diff_by_depth`, `pairs_beyond_depth_units`).

use dgen::{Axis, Component, Contour as DContour, Design, Glyph, Layer, Pt as DPt, PtKind};
use fcx::Opts;
use otvar::{InstKind, VFont};
use serde::{Deserialize, Serialize};
use serde_json::{Value, json};
use std::collections::{BTreeMap, BTreeSet, HashSet};
use vcore::{Reporter, Tier};

// ------------------------------------------------------------------------------------ alphabet

#[derive(Clone, Copy, Debug, PartialEq, Eq, Hash, PartialOrd, Ord, Serialize, Deserialize)]
enum TK {
    Id,
    Translate,
    Scale05,
    FlipX,
    Rot90,
    Scale25,
    Var2x2,
    VarOff,
}

const ALL_TK: [TK; 8] = [
    TK::Id,
    TK::Translate,
    TK::Scale05,
    TK::FlipX,
    TK::Rot90,
    TK::Scale25,
    TK::Var2x2,
    TK::VarOff,
];
/// reduced alphabet for the widest trees (one representative per mechanism: offset only, exact 2x2
/// with fractional offset, flip, non-commuting rotation, forced decomposition)
const R5_TK: [TK; 5] = [TK::Translate, TK::Scale05, TK::FlipX, TK::Rot90, TK::Var2x2];

impl TK {
    fn name(self) -> &'static str {
        match self {
            TK::Id => "identity",
            TK::Translate => "translate",
            TK::Scale05 => "scale0.5",
            TK::FlipX => "flipx",
            TK::Rot90 => "rot90",
            TK::Scale25 => "scale2.5",
            TK::Var2x2 => "var2x2",
            TK::VarOff => "varoffset",
        }
    }
    /// UFO order: xScale xyScale yxScale yScale xOffset yOffset, i.e. x' = a x + c y + e, y' = b x + d y + f
    fn xform(self, m: usize) -> [f64; 6] {
        match self {
            TK::Id => [1.0, 0.0, 0.0, 1.0, 0.0, 0.0],
            TK::Translate => [1.0, 0.0, 0.0, 1.0, 30.0, -20.0],
            // a fractional offset under a 2x2: the stored offset is rounded, the decomposed outline is not
            TK::Scale05 => [0.5, 0.0, 0.0, 0.5, 12.5, 7.0],
            TK::FlipX => [-1.0, 0.0, 0.0, 1.0, 0.0, 0.0],
            // 90 degrees counter-clockwise: x' = -y, y' = x
            TK::Rot90 => [0.0, 1.0, -1.0, 0.0, 0.0, 15.5],
            // outside F2Dot14: cannot be stored, must be decomposed
            TK::Scale25 => [2.5, 0.0, 0.0, 2.5, 0.0, 0.0],
            // 2x2 differs between masters: cannot be stored, must be decomposed
            TK::Var2x2 => {
                if m == 0 {
                    [1.0, 0.0, 0.0, 1.0, 0.0, 0.0]
                } else {
                    [1.2, 0.0, 0.0, 1.2, 0.0, 0.0]
                }
            }
            TK::VarOff => {
                if m == 0 {
                    [1.0, 0.0, 0.0, 1.0, 10.0, 0.0]
                } else {
                    [1.0, 0.0, 0.0, 1.0, 40.5, -15.5]
                }
            }
        }
    }
    fn forced(self) -> bool {
        matches!(self, TK::Scale25 | TK::Var2x2)
    }
}

const NAMES: [&str; 4] = ["A", "B", "C", "D"];

/// One enumerated source: glyph 0 is the simple glyph A; glyph i > 0 is a composite.
#[derive(Clone, Debug, PartialEq, Eq, Hash, Serialize, Deserialize)]
struct Case {
    n: usize,
    /// per glyph: (index of the base glyph, transform kind); empty for glyph 0
    comps: Vec<Vec<(usize, TK)>>,
    /// per glyph: has a contour of its own next to its components
    mixed: Vec<bool>,
    /// per glyph: exported
    export: Vec<bool>,
}

impl Case {
    fn depth_of(&self, gi: usize) -> usize {
        self.comps[gi].iter().map(|(b, _)| 1 + self.depth_of(*b)).max().unwrap_or(0)
    }
    fn label(&self) -> String {
        let mut s = String::new();
        for gi in 1..self.n {
            if gi > 1 {
                s.push(' ');
            }
            s.push_str(NAMES[gi]);
            if self.mixed[gi] {
                s.push('*');
            }
            if !self.export[gi] {
                s.push('~');
            }
            s.push('=');
            let v: Vec<String> = self.comps[gi]
                .iter()
                .map(|(b, t)| format!("{}{}@{}", NAMES[*b], if self.export[*b] { "" } else { "~" }, t.name()))
                .collect();
            s.push_str(&v.join(","));
        }
        s
    }
    fn uses_nonexport(&self, gi: usize) -> bool {
        self.comps[gi].iter().any(|(b, _)| !self.export[*b])
    }
    fn transform_label(&self, gi: usize) -> String {
        let s: BTreeSet<&str> = self.comps[gi].iter().map(|(_, t)| t.name()).collect();
        s.into_iter().collect::<Vec<_>>().join("+")
    }
    fn kind_label(&self, gi: usize) -> String {
        let mut s = if self.comps[gi].is_empty() {
            "simple".to_string()
        } else if self.mixed[gi] {
            "mixed".to_string()
        } else {
            "composite".to_string()
        };
        if self.uses_nonexport(gi) {
            s.push_str("+nonexport-base");
        }
        s.push_str(&format!(":depth{}", self.depth_of(gi)));
        s
    }
}

// ------------------------------------------------------------------------------------ design

fn on(x: f64, y: f64, kind: PtKind) -> DPt {
    DPt { x, y, kind }
}

/// The simple glyph: an asymmetric polygon (no rotation or reflection maps it to itself) with .5
/// coordinates, and a quadratic contour with some on-curve points exactly half way between their
/// off-curve neighbours (the compiler may drop those) and one that is not.
fn leaf_contours(m: usize) -> Vec<DContour> {
    let poly: [(f64, f64); 6] = if m == 0 {
        [(50.0, 0.0), (250.5, 0.0), (250.5, 101.0), (151.0, 101.0), (151.0, 300.5), (50.0, 300.5)]
    } else {
        [(61.0, 0.0), (281.0, 0.0), (281.0, 110.5), (171.5, 110.5), (171.5, 321.0), (61.0, 330.0)]
    };
    let (cx, cy, r) = if m == 0 { (400.0, 351.0, 61.0) } else { (421.0, 361.5, 70.5) };
    let q = |x: f64, y: f64, k| on(cx + x, cy + y, k);
    let blob = DContour {
        points: vec![
            q(r, 0.0, PtKind::QCurve),
            q(r, r, PtKind::Off),
            q(9.0, r, PtKind::QCurve), // not a midpoint
            q(-r, r, PtKind::Off),
            q(-r, 0.0, PtKind::QCurve),
            q(-r, -r, PtKind::Off),
            q(0.0, -r, PtKind::QCurve),
            q(r, -r, PtKind::Off),
        ],
    };
    vec![dgen::shapes::line_contour(&poly), blob]
}

fn own_contour(gi: usize, m: usize) -> DContour {
    let g = gi as f64 * 10.0;
    let w = m as f64 * 20.5;
    dgen::shapes::line_contour(&[(600.0 + g, 0.0), (700.0 + g + w, 0.0), (650.5 + g, 120.0 + 5.0 * m as f64)])
}

fn advance(gi: usize, m: usize) -> f64 {
    500.0 + 50.0 * gi as f64 + if m == 0 { 0.0 } else if gi % 2 == 0 { 60.5 } else { 20.0 }
}

fn build_design(c: &Case) -> Design {
    let mut d = Design::skeleton(
        "C12",
        vec![Axis::new("wght", "Weight", 400.0, 400.0, 700.0)],
        vec![vec![400.0], vec![700.0]],
    );
    for gi in 0..c.n {
        let mut g = Glyph::new(NAMES[gi], &[0x41 + gi as u32]);
        g.export = c.export[gi];
        for m in 0..2 {
            let mut l = Layer { advance: advance(gi, m), ..Default::default() };
            if gi == 0 {
                l.contours = leaf_contours(m);
            } else {
                if c.mixed[gi] {
                    l.contours.push(own_contour(gi, m));
                }
                for (b, t) in &c.comps[gi] {
                    l.components.push(Component { base: NAMES[*b].into(), xform: t.xform(m) });
                }
            }
            g.layers.insert(m, l);
        }
        d.glyphs.push(g);
    }
    d
}

// ------------------------------------------------------------------------------------ enumeration

fn comp_choices(gi: usize, alphabet: &[TK], counts: &[usize]) -> Vec<Vec<(usize, TK)>> {
    let single: Vec<(usize, TK)> = (0..gi).flat_map(|b| alphabet.iter().map(move |t| (b, *t))).collect();
    let mut out = vec![];
    if counts.contains(&1) {
        out.extend(single.iter().map(|s| vec![*s]));
    }
    if counts.contains(&2) {
        // ordered pairs: component order is part of the source
        for a in &single {
            for b in &single {
                out.push(vec![*a, *b]);
            }
        }
    }
    out
}

fn bool_vectors(n: usize, free: &[usize]) -> Vec<Vec<bool>> {
    // all assignments of `false` to subsets of `free`, everything else true
    (0..(1usize << free.len()))
        .map(|mask| {
            let mut v = vec![true; n];
            for (k, gi) in free.iter().enumerate() {
                if mask >> k & 1 == 1 {
                    v[*gi] = false;
                }
            }
            v
        })
        .collect()
}

/// All trees over `n` glyphs where composite `gi` takes its component list from `choices(gi)`,
/// kept when `keep(comps)`, crossed with the `mixed` and `export` profiles.
fn enum_trees(
    n: usize,
    choices: &dyn Fn(usize) -> Vec<Vec<(usize, TK)>>,
    keep: &dyn Fn(&[Vec<(usize, TK)>]) -> bool,
    mixed_profiles: &[Vec<bool>],
    export_profiles: &[Vec<bool>],
    out: &mut Vec<Case>,
) {
    let per: Vec<Vec<Vec<(usize, TK)>>> = (1..n).map(choices).collect();
    let mut idx = vec![0usize; n - 1];
    loop {
        let mut comps: Vec<Vec<(usize, TK)>> = vec![vec![]];
        for (k, i) in idx.iter().enumerate() {
            comps.push(per[k][*i].clone());
        }
        if keep(&comps) {
            for mx in mixed_profiles {
                for ex in export_profiles {
                    out.push(Case { n, comps: comps.clone(), mixed: mx.clone(), export: ex.clone() });
                }
            }
        }
        // odometer
        let mut k = 0;
        loop {
            if k == idx.len() {
                return;
            }
            idx[k] += 1;
            if idx[k] < per[k].len() {
                break;
            }
            idx[k] = 0;
            k += 1;
        }
    }
}

fn mixed_all(n: usize) -> Vec<Vec<bool>> {
    // glyph 0 is never "mixed"; `false` bits mark mixed glyphs here, so invert
    bool_vectors(n, &(1..n).collect::<Vec<_>>())
        .into_iter()
        .map(|v| v.iter().enumerate().map(|(i, b)| i > 0 && !*b).collect())
        .collect()
}

fn spaces(tier: Tier) -> (Vec<Case>, Vec<Value>) {
    let mut cases = vec![];
    let mut notes = vec![];
    let mut add = |name: &str, what: &str, cases: &mut Vec<Case>, f: &dyn Fn(&mut Vec<Case>)| {
        let before = cases.len();
        f(cases);
        notes.push(json!({"space": name, "what": what, "cases": cases.len() - before}));
    };
    let two = |c: &[Vec<(usize, TK)>]| c.iter().filter(|v| v.len() == 2).count();
    let edges = |c: &[Vec<(usize, TK)>]| c.iter().map(|v| v.len()).sum::<usize>();

    add(
        "n2-full",
        "2 glyphs: B has 1 or 2 components of A (ordered), all 8 transforms each; B pure/mixed; A exported or not",
        &mut cases,
        &|o| {
            enum_trees(2, &|gi| comp_choices(gi, &ALL_TK, &[1, 2]), &|_| true, &mixed_all(2), &bool_vectors(2, &[0]), o)
        },
    );
    add(
        "n3-single",
        "3 glyphs, one component per composite (C uses A or B), all 8x8 transforms; every pure/mixed combination; every export combination of A, B",
        &mut cases,
        &|o| {
            enum_trees(3, &|gi| comp_choices(gi, &ALL_TK, &[1]), &|_| true, &mixed_all(3), &bool_vectors(3, &[0, 1]), o)
        },
    );
    match tier {
        Tier::Quick => {
            add(
                "n3-double-3edges",
                "3 glyphs, exactly one composite with 2 components (ordered pairs over base x all 8 transforms), 3 edges in all; pure composites, everything exported",
                &mut cases,
                &|o| {
                    enum_trees(
                        3,
                        &|gi| comp_choices(gi, &ALL_TK, &[1, 2]),
                        &|c| two(c) == 1 && edges(c) == 3,
                        &[vec![false; 3]],
                        &[vec![true; 3]],
                        o,
                    )
                },
            );
        }
        Tier::Thorough => {
            add(
                "n3-double-full",
                "3 glyphs, at least one composite with 2 components (ordered pairs over base x all 8 transforms, 3 or 4 edges); profiles: all pure + all exported, all mixed + all exported, pure + A not exported, pure + B not exported",
                &mut cases,
                &|o| {
                    let ch = |gi| comp_choices(gi, &ALL_TK, &[1, 2]);
                    let keep = |c: &[Vec<(usize, TK)>]| two(c) >= 1;
                    enum_trees(3, &ch, &keep, &[vec![false; 3]], &[vec![true; 3]], o);
                    enum_trees(3, &ch, &keep, &[vec![false, true, true]], &[vec![true; 3]], o);
                    enum_trees(3, &ch, &keep, &[vec![false; 3]], &[vec![false, true, true], vec![true, false, true]], o);
                },
            );
            add(
                "n4-single",
                "4 glyphs, one component per composite (all 6 reference patterns, depth up to 3), all 8^3 transforms; every pure/mixed combination; export profiles: all exported, exactly one of A/B/C not exported, A and B not exported",
                &mut cases,
                &|o| {
                    let ex = vec![
                        vec![true, true, true, true],
                        vec![false, true, true, true],
                        vec![true, false, true, true],
                        vec![true, true, false, true],
                        vec![false, false, true, true],
                    ];
                    enum_trees(4, &|gi| comp_choices(gi, &ALL_TK, &[1]), &|_| true, &mixed_all(4), &ex, o)
                },
            );
            add(
                "n4-double-r5",
                "4 glyphs, exactly one composite with 2 components (ordered), transforms from {translate, scale0.5, flipx, rot90, var2x2} on all 4 edges; pure composites, everything exported",
                &mut cases,
                &|o| {
                    enum_trees(
                        4,
                        &|gi| comp_choices(gi, &R5_TK, &[1, 2]),
                        &|c| two(c) == 1,
                        &[vec![false; 4]],
                        &[vec![true; 4]],
                        o,
                    )
                },
            );
        }
    }
    (cases, notes)
}

/// the compiler's error text without quoted names, as a key fragment
fn slug(what: &str) -> String {
    let msg = what.split("Error(\"").nth(1).or(what.split("Panic(\"").nth(1)).unwrap_or(what);
    let msg = msg.split("\")").next().unwrap_or(msg);
    let mut out = String::new();
    let mut quoted = false;
    for ch in msg.chars() {
        if ch == '\'' {
            quoted = !quoted;
            continue;
        }
        if quoted {
            continue;
        }
        if ch.is_ascii_alphanumeric() {
            out.push(ch.to_ascii_lowercase());
        } else if !out.ends_with('-') && !out.is_empty() {
            out.push('-');
        }
    }
    out.trim_matches('-').chars().take(60).collect()
}

fn all_configs() -> Vec<Opts> {
    (0..16u32)
        .map(|b| Opts {
            flatten: b & 1 != 0,
            decompose: b & 2 != 0,
            decompose_transformed: b & 4 != 0,
            no_prefer_simple: b & 8 != 0,
            ..Default::default()
        })
        .collect()
}

// ------------------------------------------------------------------------------------ geometry

type P = (f64, f64, bool);

/// Make implied on-curve points explicit (midpoint between two consecutive off-curve points).
fn explicit(pts: &[P]) -> Vec<P> {
    let n = pts.len();
    if n < 2 {
        return pts.to_vec();
    }
    let mut out = Vec::with_capacity(n * 2);
    for i in 0..n {
        let a = pts[i];
        let b = pts[(i + 1) % n];
        out.push(a);
        if !a.2 && !b.2 {
            out.push(((a.0 + b.0) / 2.0, (a.1 + b.1) / 2.0, true));
        }
    }
    out
}

fn reversed(pts: &[P]) -> Vec<P> {
    pts.iter().rev().cloned().collect()
}

/// Smallest over all rotations (with equal on/off flags) of the largest coordinate difference.
fn cyclic_diff(a: &[P], b: &[P]) -> Option<f64> {
    if a.len() != b.len() {
        return None;
    }
    let n = a.len();
    if n == 0 {
        return Some(0.0);
    }
    let mut best: Option<f64> = None;
    'rot: for r in 0..n {
        let mut worst = 0.0f64;
        for i in 0..n {
            let (p, q) = (a[i], b[(i + r) % n]);
            if p.2 != q.2 {
                continue 'rot;
            }
            worst = worst.max((p.0 - q.0).abs()).max((p.1 - q.1).abs());
            if let Some(bst) = best {
                if worst >= bst {
                    continue 'rot;
                }
            }
        }
        best = Some(worst);
    }
    best
}

/// A canonical contour with its error allowance.
#[derive(Clone, Debug)]
struct CC {
    pts: Vec<P>,
    err: f64,
}

struct MatchOut {
    ok: bool,
    /// largest difference over the matched pairs (when ok)
    max_diff: f64,
    why: String,
}

/// Perfect matching between two contour lists where (i, j) may be paired when their cyclic
/// difference is within err_i + err_j (+ eps for float composition order).
fn match_contours(a: &[CC], b: &[CC]) -> MatchOut {
    if a.len() != b.len() {
        return MatchOut { ok: false, max_diff: f64::INFINITY, why: format!("{} contours vs {}", a.len(), b.len()) };
    }
    let n = a.len();
    let mut diff = vec![vec![None; n]; n];
    let mut adj: Vec<Vec<usize>> = vec![vec![]; n];
    for i in 0..n {
        for j in 0..n {
            let d = cyclic_diff(&a[i].pts, &b[j].pts);
            diff[i][j] = d;
            if let Some(d) = d {
                if d <= a[i].err + b[j].err + 1e-6 {
                    adj[i].push(j);
                }
            }
        }
        // prefer the closest partner (keeps `max_diff` meaningful with coincident contours)
        adj[i].sort_by(|x, y| diff[i][*x].partial_cmp(&diff[i][*y]).unwrap());
    }
    fn try_kuhn(i: usize, adj: &[Vec<usize>], seen: &mut [bool], mate: &mut [Option<usize>]) -> bool {
        for &j in &adj[i] {
            if seen[j] {
                continue;
            }
            seen[j] = true;
            if mate[j].is_none() || try_kuhn(mate[j].unwrap(), adj, seen, mate) {
                mate[j] = Some(i);
                return true;
            }
        }
        false
    }
    let mut mate: Vec<Option<usize>> = vec![None; n];
    for i in 0..n {
        let mut seen = vec![false; n];
        if !try_kuhn(i, &adj, &mut seen, &mut mate) {
            let best = (0..n)
                .filter_map(|j| diff[i][j].map(|d| (d, j)))
                .min_by(|x, y| x.0.partial_cmp(&y.0).unwrap());
            let rev = reversed(&a[i].pts);
            let best_rev = (0..n).filter_map(|j| cyclic_diff(&rev, &b[j].pts)).fold(f64::INFINITY, f64::min);
            let why = match best {
                Some((d, j)) => format!(
                    "contour {i} ({} points) has no partner: closest is {d:.3} away (allowed {:.3}); reversed closest {best_rev:.3}",
                    a[i].pts.len(),
                    a[i].err + b[j].err
                ),
                None => format!(
                    "contour {i} ({} points) has no partner with the same point structure; reversed closest {best_rev:.3}",
                    a[i].pts.len()
                ),
            };
            return MatchOut { ok: false, max_diff: f64::INFINITY, why };
        }
    }
    let mut max_diff = 0.0f64;
    for j in 0..n {
        if let Some(i) = mate[j] {
            max_diff = max_diff.max(diff[i][j].unwrap_or(0.0));
        }
    }
    MatchOut { ok: true, max_diff, why: String::new() }
}

// ------------------------------------------------------------------------------------ source truth

struct Truth {
    /// canonical: direction as every correct font shows it after undoing stored flips
    contours: Vec<CC>,
    depth: usize,
    flips_seen: bool,
}

fn apply(x: &[f64; 6], p: P) -> P {
    (x[0] * p.0 + x[2] * p.1 + x[4], x[1] * p.0 + x[3] * p.1 + x[5], p.2)
}

/// (contour in source order, number of negative-determinant transforms on the path)
fn truth_raw(d: &Design, name: &str, m: usize, guard: usize) -> Result<(Vec<(Vec<P>, u32)>, usize), String> {
    if guard > 8 {
        return Err("component nesting too deep / cyclic".into());
    }
    let g = d.glyph(name).ok_or_else(|| format!("source has no glyph {name}"))?;
    let l = g.layers.get(&m).ok_or_else(|| format!("glyph {name} has no layer for master {m}"))?;
    let mut out = vec![];
    for c in &l.contours {
        let mut pts = vec![];
        for p in &c.points {
            let on = match p.kind {
                PtKind::Line | PtKind::QCurve => true,
                PtKind::Off => false,
                PtKind::Curve | PtKind::Move => return Err("cubic or open contours are outside C12".into()),
            };
            pts.push((p.x, p.y, on));
        }
        out.push((pts, 0));
    }
    let mut depth = 0;
    for comp in &l.components {
        let (sub, sd) = truth_raw(d, &comp.base, m, guard + 1)?;
        depth = depth.max(sd + 1);
        let x = comp.xform;
        let flip = (x[0] * x[3] - x[1] * x[2]) < 0.0;
        for (pts, k) in sub {
            out.push((pts.iter().map(|p| apply(&x, *p)).collect(), k + flip as u32));
        }
    }
    Ok((out, depth))
}

fn truth(d: &Design, name: &str, m: usize) -> Result<Truth, String> {
    let (raw, depth) = truth_raw(d, name, m, 0)?;
    let mut flips_seen = false;
    let contours = raw
        .into_iter()
        .map(|(pts, k)| {
            flips_seen |= k > 0;
            let e = explicit(&pts);
            // the compiler reverses every contour once (TrueType direction), and once more per flip it
            // resolves itself; flips it leaves to the rasteriser are undone on the font side
            CC { pts: if k % 2 == 0 { reversed(&e) } else { e }, err: 0.0 }
        })
        .collect();
    Ok(Truth { contours, depth, flips_seen })
}

// ------------------------------------------------------------------------------------ font side

#[derive(Clone, Debug, PartialEq)]
enum Stored {
    Empty,
    Simple,
    /// (base glyph name, 2x2 as xx yx xy yy)
    Composite(Vec<(String, [i64; 4])>),
}

impl Stored {
    fn short(&self) -> String {
        match self {
            Stored::Empty => "empty".into(),
            Stored::Simple => "simple".into(),
            Stored::Composite(v) => {
                let parts: Vec<String> = v
                    .iter()
                    .map(|(n, m)| {
                        let f = |x: i64| x as f64 / 16384.0;
                        if *m == [16384, 0, 0, 16384] {
                            n.clone()
                        } else {
                            format!("{n}[{} {} {} {}]", f(m[0]), f(m[1]), f(m[2]), f(m[3]))
                        }
                    })
                    .collect();
                format!("composite({})", parts.join(", "))
            }
        }
    }
}

struct FontGlyph {
    /// raw resolved contours (no canonicalisation), stored flips on the path, error allowance
    raw: Vec<(Vec<P>, u32, f64)>,
    depth: usize,
    stored: Stored,
    iup: bool,
}

struct FontView<'a> {
    vf: VFont<'a>,
    names: Vec<String>,
}

impl<'a> FontView<'a> {
    fn new(bytes: &'a [u8]) -> Result<Self, String> {
        let vf = VFont::new(bytes)?;
        let names = vf.glyph_names();
        Ok(FontView { vf, names })
    }
    fn gid(&self, name: &str) -> Option<u16> {
        self.names.iter().position(|n| n == name).map(|i| i as u16)
    }

    fn glyph(&self, gid: u16, coords: &[f64], guard: usize) -> Result<FontGlyph, String> {
        if guard > 16 {
            return Err("stored component nesting too deep".into());
        }
        let g = self.vf.glyph_at(gid, coords)?;
        let nondefault = coords.iter().any(|c| *c != 0.0);
        match g.kind {
            InstKind::Empty => Ok(FontGlyph { raw: vec![], depth: 0, stored: Stored::Empty, iup: false }),
            InstKind::Simple { contours } => {
                let mut iup = false;
                if nondefault {
                    for t in self.vf.glyph_tuples(gid)? {
                        if t.scalar(coords) != 0.0 && t.points.is_some() {
                            iup = true;
                        }
                    }
                }
                let err = 0.5 + if iup { 0.5 } else { 0.0 };
                Ok(FontGlyph {
                    raw: contours
                        .into_iter()
                        .map(|c| (c.into_iter().map(|p| (p.x, p.y, p.on)).collect(), 0, err))
                        .collect(),
                    depth: 0,
                    stored: Stored::Simple,
                    iup,
                })
            }
            InstKind::Composite { components } => {
                let mut raw = vec![];
                let mut depth = 0;
                let mut iup = false;
                let mut st = vec![];
                for c in &components {
                    if c.flags & otvar::glyf::ARGS_ARE_XY_VALUES == 0 || c.flags & otvar::glyf::SCALED_COMPONENT_OFFSET != 0 {
                        return Err(format!("gid {gid}: component uses point matching or scaled offsets (flags {:#x})", c.flags));
                    }
                    let sub = self.glyph(c.gid, coords, guard + 1)?;
                    depth = depth.max(sub.depth + 1);
                    iup |= sub.iup;
                    let q = |v: f64| (v * 16384.0).round() as i64;
                    st.push((self.names[c.gid as usize].clone(), [q(c.xx), q(c.yx), q(c.xy), q(c.yy)]));
                    let norm = (c.xx.abs() + c.xy.abs()).max(c.yx.abs() + c.yy.abs());
                    let flip = c.xx * c.yy - c.xy * c.yx < 0.0;
                    for (pts, k, e) in sub.raw {
                        raw.push((
                            pts.iter()
                                .map(|p| (c.xx * p.0 + c.xy * p.1 + c.dx, c.yx * p.0 + c.yy * p.1 + c.dy, p.2))
                                .collect(),
                            k + flip as u32,
                            norm * e + 0.5,
                        ));
                    }
                }
                Ok(FontGlyph { raw, depth, stored: Stored::Composite(st), iup })
            }
        }
    }
}

struct Resolved {
    canon: Vec<CC>,
    raw: Vec<Vec<P>>,
    depth: usize,
    stored: Stored,
    iup: bool,
    stored_flips: usize,
    adv_metrics: f64,
    adv_phantom: f64,
}

/// Resolve `gid`; cross-checks the walk against `otvar`'s own `resolve` (machinery error when the two
/// disagree: this file only adds the per-contour bookkeeping).
fn resolve(fv: &FontView, gid: u16, coords: &[f64]) -> Result<Resolved, String> {
    let g = fv.glyph(gid, coords, 0)?;
    let r = fv.vf.resolve(gid, coords)?;
    let flat: Vec<Vec<P>> = r.contours.iter().map(|c| c.iter().map(|p| (p.x, p.y, p.on)).collect()).collect();
    let mine: Vec<Vec<P>> = g.raw.iter().map(|(p, _, _)| p.clone()).collect();
    if flat != mine || r.depth != g.depth {
        return Err(format!("c12 walk and otvar::resolve disagree on gid {gid}"));
    }
    let stored_flips = g.raw.iter().filter(|(_, k, _)| k % 2 == 1).count();
    let canon = g
        .raw
        .iter()
        .map(|(pts, k, e)| {
            let ex = explicit(pts);
            CC { pts: if k % 2 == 1 { reversed(&ex) } else { ex }, err: *e }
        })
        .collect();
    Ok(Resolved {
        canon,
        raw: mine,
        depth: g.depth,
        stored: g.stored,
        iup: g.iup,
        stored_flips,
        adv_metrics: fv.vf.h_advance_at(gid, coords),
        adv_phantom: r.advance,
    })
}

// ------------------------------------------------------------------------------------ evaluation

#[derive(Clone, Debug)]
struct Viol {
    /// shape-differs | direction-differs | advance-differs | phantom-advance-differs | source-differs |
    /// source-direction-differs | source-advance-differs | build-fails | glyph-missing
    class: &'static str,
    cfg: usize,
    glyph: String,
    master: usize,
    what: String,
    contours_x: Value,
    contours_0: Value,
}

#[derive(Default, Clone, Debug, Serialize)]
struct Stats {
    cases: u64,
    compiles: u64,
    rejected_by_all_configs: u64,
    glyph_location_pairs_compared: u64,
    source_comparisons: u64,
    /// per configuration name: (case, glyph) pairs stored differently from the empty configuration
    stored_form_differs: BTreeMap<String, u64>,
    simple_vs_composite: BTreeMap<String, u64>,
    cases_with_stored_form_difference: u64,
    cases_forced_decomposition: u64,
    glyphs_forced_decomposition_stored_simple_by_default: u64,
    cases_nonexport_inlined: u64,
    cases_depth3: u64,
    glyphs_stored_depth3_by_default: u64,
    cases_with_flip: u64,
    contours_flip_left_to_rasteriser: u64,
    contours_flip_resolved_by_compiler: u64,
    derived_glyphs_seen: u64,
    pairs_with_nonzero_diff: u64,
    pairs_beyond_depth_units: u64,
    pairs_with_iup_allowance: u64,
    max_pair_diff_by_depth: BTreeMap<String, f64>,
    max_source_diff_by_depth: BTreeMap<String, f64>,
    skrifa_crosschecks: u64,
    skrifa_max_unrounded_diff: f64,
}

fn bump(m: &mut BTreeMap<String, u64>, k: &str) {
    *m.entry(k.to_string()).or_default() += 1;
}
fn bump_max(m: &mut BTreeMap<String, f64>, k: &str, v: f64) {
    let e = m.entry(k.to_string()).or_default();
    if v > *e {
        *e = v;
    }
}

fn add_stats(a: &mut Stats, b: &Stats) {
    let mut va = serde_json::to_value(&*a).unwrap();
    let vb = serde_json::to_value(b).unwrap();
    // numbers add, except the maxima
    fn merge(a: &mut Value, b: &Value, maxima: bool) {
        match (a, b) {
            (Value::Object(ma), Value::Object(mb)) => {
                for (k, v) in mb {
                    let mx = maxima || k.starts_with("max_") || k.contains("_max_");
                    match ma.get_mut(k) {
                        Some(x) => merge(x, v, mx),
                        None => {
                            ma.insert(k.clone(), v.clone());
                        }
                    }
                }
            }
            (a @ Value::Number(_), Value::Number(nb)) => {
                if maxima {
                    let (x, y) = (a.as_f64().unwrap_or(0.0), nb.as_f64().unwrap_or(0.0));
                    *a = json!(x.max(y));
                } else if let (Some(x), Some(y)) = (a.as_u64(), nb.as_u64()) {
                    *a = json!(x + y);
                } else {
                    *a = json!(a.as_f64().unwrap_or(0.0) + nb.as_f64().unwrap_or(0.0));
                }
            }
            _ => {}
        }
    }
    merge(&mut va, &vb, false);
    *a = stats_from_value(&va);
}

fn stats_from_value(v: &Value) -> Stats {
    let u = |k: &str| v[k].as_u64().unwrap_or(0);
    let mu = |k: &str| -> BTreeMap<String, u64> {
        v[k].as_object().map(|m| m.iter().map(|(k, v)| (k.clone(), v.as_u64().unwrap_or(0))).collect()).unwrap_or_default()
    };
    let mf = |k: &str| -> BTreeMap<String, f64> {
        v[k].as_object().map(|m| m.iter().map(|(k, v)| (k.clone(), v.as_f64().unwrap_or(0.0))).collect()).unwrap_or_default()
    };
    Stats {
        cases: u("cases"),
        compiles: u("compiles"),
        rejected_by_all_configs: u("rejected_by_all_configs"),
        glyph_location_pairs_compared: u("glyph_location_pairs_compared"),
        source_comparisons: u("source_comparisons"),
        stored_form_differs: mu("stored_form_differs"),
        simple_vs_composite: mu("simple_vs_composite"),
        cases_with_stored_form_difference: u("cases_with_stored_form_difference"),
        cases_forced_decomposition: u("cases_forced_decomposition"),
        glyphs_forced_decomposition_stored_simple_by_default: u("glyphs_forced_decomposition_stored_simple_by_default"),
        cases_nonexport_inlined: u("cases_nonexport_inlined"),
        cases_depth3: u("cases_depth3"),
        glyphs_stored_depth3_by_default: u("glyphs_stored_depth3_by_default"),
        cases_with_flip: u("cases_with_flip"),
        contours_flip_left_to_rasteriser: u("contours_flip_left_to_rasteriser"),
        contours_flip_resolved_by_compiler: u("contours_flip_resolved_by_compiler"),
        derived_glyphs_seen: u("derived_glyphs_seen"),
        pairs_with_nonzero_diff: u("pairs_with_nonzero_diff"),
        pairs_beyond_depth_units: u("pairs_beyond_depth_units"),
        pairs_with_iup_allowance: u("pairs_with_iup_allowance"),
        max_pair_diff_by_depth: mf("max_pair_diff_by_depth"),
        max_source_diff_by_depth: mf("max_source_diff_by_depth"),
        skrifa_crosschecks: u("skrifa_crosschecks"),
        skrifa_max_unrounded_diff: v["skrifa_max_unrounded_diff"].as_f64().unwrap_or(0.0),
    }
}

struct EvalOut {
    viol: Vec<Viol>,
    stats: Stats,
    machinery: Vec<String>,
    nontrivial: bool,
    summary: Value,
}

fn contours_json(r: &[Vec<P>]) -> Value {
    json!(r.iter().map(|c| c.iter().map(|p| json!([p.0, p.1, p.2])).collect::<Vec<_>>()).collect::<Vec<_>>())
}

/// Compile `d` under every configuration of `cfgs` (index 0 must be the reference) and judge.
/// `skrifa_cfgs`: configurations whose fonts are also run through the skrifa cross-check.
fn evaluate(d: &Design, cfgs: &[Opts], skrifa_cfgs: &[usize]) -> EvalOut {
    let mut out = EvalOut { viol: vec![], stats: Stats::default(), machinery: vec![], nontrivial: false, summary: Value::Null };
    let st = &mut out.stats;
    st.cases = 1;
    let sc = vcore::Scratch::new("c12");
    let path = match d.write_designspace(sc.path()) {
        Ok(p) => p,
        Err(e) => {
            out.machinery.push(format!("cannot write the source: {e}"));
            return out;
        }
    };
    let fonts: Vec<Result<Vec<u8>, fcx::Failure>> = cfgs.iter().map(|o| fcx::compile(&path, o, None)).collect();
    st.compiles = cfgs.len() as u64;
    drop(sc);

    if fonts.iter().all(|f| f.is_err()) {
        st.rejected_by_all_configs = 1;
        out.summary = json!({"rejected": format!("{:?}", fonts[0].as_ref().err())});
        return out;
    }
    let bad = |cfg: usize, what: String| Viol {
        class: "build-fails",
        cfg,
        glyph: String::new(),
        master: 0,
        what,
        contours_x: Value::Null,
        contours_0: Value::Null,
    };
    let ref_bytes = match &fonts[0] {
        Ok(b) => b,
        Err(e) => {
            out.viol.push(bad(0, format!("the empty configuration fails ({e:?}) while another configuration builds")));
            return out;
        }
    };
    let fv0 = match FontView::new(ref_bytes) {
        Ok(f) => f,
        Err(e) => {
            out.machinery.push(format!("otvar cannot read the reference font: {e}"));
            return out;
        }
    };
    let exported: Vec<&Glyph> = d.glyphs.iter().filter(|g| g.export).collect();
    let tag = d.axes[0].tag.clone();
    let users: Vec<f64> = (0..d.masters.len()).map(|m| d.master_user(m)[0]).collect();

    // ---- the reference font against the source, and its resolved glyphs
    struct Ref {
        per_master: Vec<(Vec<f64>, Resolved, Truth)>,
    }
    let mut refs: BTreeMap<String, Ref> = BTreeMap::new();
    let mut any_flip = false;
    let mut max_depth = 0;
    let mut nonexport_inlined = false;
    let mut forced = false;
    for g in &exported {
        let Some(gid) = fv0.gid(&g.name) else {
            out.viol.push(Viol {
                class: "glyph-missing",
                cfg: 0,
                glyph: g.name.clone(),
                master: 0,
                what: format!("exported glyph {} is not in the font of the empty configuration", g.name),
                contours_x: Value::Null,
                contours_0: Value::Null,
            });
            continue;
        };
        let mut per_master = vec![];
        for (m, u) in users.iter().enumerate() {
            let coords = fv0.vf.normalize(&[(tag.clone(), *u)]);
            let t = match truth(d, &g.name, m) {
                Ok(t) => t,
                Err(e) => {
                    out.machinery.push(format!("source resolution: {e}"));
                    return out;
                }
            };
            let r = match resolve(&fv0, gid, &coords) {
                Ok(r) => r,
                Err(e) => {
                    out.machinery.push(format!("resolve {} in the reference font: {e}", g.name));
                    return out;
                }
            };
            any_flip |= t.flips_seen;
            max_depth = max_depth.max(t.depth);
            if r.depth == 3 && m == 0 {
                st.glyphs_stored_depth3_by_default += 1;
            }
            per_master.push((coords, r, t));
        }
        // measured: a base of this glyph is absent from the font although the glyph resolves to its outline
        let l0 = &g.layers[&0];
        if l0.components.iter().any(|c| fv0.gid(&c.base).is_none()) {
            nonexport_inlined = true;
        }
        let varies = |c: usize| {
            g.layers.values().any(|l| l.components[c].xform[..4] != l0.components[c].xform[..4])
        };
        let must = (0..l0.components.len()).any(|c| varies(c) || l0.components[c].xform[..4].iter().any(|v| v.abs() > 2.0));
        if must {
            forced = true;
            if per_master[0].1.stored == Stored::Simple {
                st.glyphs_forced_decomposition_stored_simple_by_default += 1;
            }
        }
        refs.insert(g.name.clone(), Ref { per_master });
    }
    st.cases_with_flip = any_flip as u64;
    st.cases_depth3 = (max_depth >= 3) as u64;
    st.cases_nonexport_inlined = nonexport_inlined as u64;
    st.cases_forced_decomposition = forced as u64;

    // ---- every configuration: against the source and against the reference
    let mut src0_ok: BTreeMap<(String, usize), bool> = BTreeMap::new();
    let mut any_form_diff = false;
    let mut forms: Vec<Value> = vec![];
    for (ci, f) in fonts.iter().enumerate() {
        let cname = cfgs[ci].name();
        let bytes = match f {
            Ok(b) => b,
            Err(e) => {
                out.viol.push(bad(ci, format!("configuration {cname} fails to build ({e:?}); the empty configuration builds")));
                continue;
            }
        };
        let fvx;
        let fv = if ci == 0 {
            &fv0
        } else {
            fvx = match FontView::new(bytes) {
                Ok(f) => f,
                Err(e) => {
                    out.machinery.push(format!("otvar cannot read the font of {cname}: {e}"));
                    continue;
                }
            };
            &fvx
        };
        let source_names: HashSet<&str> = d.glyphs.iter().map(|g| g.name.as_str()).collect();
        st.derived_glyphs_seen +=
            fv.names.iter().filter(|n| *n != ".notdef" && !source_names.contains(n.as_str())).count() as u64;
        let mut form_row = vec![];
        for g in &exported {
            let Some(rf) = refs.get(&g.name) else { continue };
            let Some(gid) = fv.gid(&g.name) else {
                out.viol.push(Viol {
                    class: "glyph-missing",
                    cfg: ci,
                    glyph: g.name.clone(),
                    master: 0,
                    what: format!("exported glyph {} is not in the font of {cname}", g.name),
                    contours_x: Value::Null,
                    contours_0: Value::Null,
                });
                continue;
            };
            for (m, (coords, r0, t)) in rf.per_master.iter().enumerate() {
                let rx_owned;
                let rx = if ci == 0 {
                    r0
                } else {
                    rx_owned = match resolve(fv, gid, coords) {
                        Ok(r) => r,
                        Err(e) => {
                            out.machinery.push(format!("resolve {} in the font of {cname}: {e}", g.name));
                            continue;
                        }
                    };
                    &rx_owned
                };
                let dkey = format!("depth{}", t.depth);
                let mk = |class: &'static str, what: String| Viol {
                    class,
                    cfg: ci,
                    glyph: g.name.clone(),
                    master: m,
                    what,
                    contours_x: contours_json(&rx.raw),
                    contours_0: contours_json(&r0.raw),
                };
                // (1) against the source
                st.source_comparisons += 1;
                let src = compare(&rx.canon, &t.contours);
                if let Cmp::Same(dmax) = &src {
                    bump_max(&mut st.max_source_diff_by_depth, &dkey, *dmax);
                }
                if ci == 0 {
                    src0_ok.insert((g.name.clone(), m), matches!(src, Cmp::Same(_)));
                }
                let want_adv = dgen::ot_round(g.layers[&m].advance);
                if (rx.adv_metrics - want_adv).abs() > 1e-6 {
                    out.viol.push(mk(
                        "source-advance-differs",
                        format!("{} at master {m} under {cname}: advance {} but the source says {}", g.name, rx.adv_metrics, want_adv),
                    ));
                }
                // counters on the way the configuration stores the glyph
                if m == 0 {
                    st.contours_flip_left_to_rasteriser += rx.stored_flips as u64;
                    form_row.push(format!("{}: {}", g.name, rx.stored.short()));
                    if ci != 0 && rx.stored != r0.stored {
                        bump(&mut st.stored_form_differs, &cname);
                        any_form_diff = true;
                        if matches!((&rx.stored, &r0.stored), (Stored::Simple, Stored::Composite(_)) | (Stored::Composite(_), Stored::Simple)) {
                            bump(&mut st.simple_vs_composite, &cname);
                        }
                    }
                    // flips the compiler resolved itself: source flips on a path minus stored ones (parity view)
                    if let Ok((raw, _)) = truth_raw(d, &g.name, 0, 0) {
                        let src_odd = raw.iter().filter(|(_, k)| k % 2 == 1).count();
                        st.contours_flip_resolved_by_compiler += src_odd.saturating_sub(rx.stored_flips) as u64;
                    }
                }
                if ci == 0 {
                    report_source(&src, &mut out.viol, &mk, &g.name, m, &cname);
                    continue;
                }
                // (2) against the empty configuration
                st.glyph_location_pairs_compared += 1;
                if rx.iup || r0.iup {
                    st.pairs_with_iup_allowance += 1;
                }
                let pair = compare(&rx.canon, &r0.canon);
                match &pair {
                    Cmp::Same(dmax) => {
                        bump_max(&mut st.max_pair_diff_by_depth, &dkey, *dmax);
                        if *dmax > 1e-9 {
                            st.pairs_with_nonzero_diff += 1;
                        }
                        if *dmax > t.depth as f64 + 1e-6 {
                            st.pairs_beyond_depth_units += 1;
                        }
                    }
                    other => {
                        let (class, why) = match other {
                            Cmp::Dup(w) => ("duplicate-contour-dropped", w),
                            Cmp::Dir(w) => ("direction-differs", w),
                            Cmp::Shape(w) => ("shape-differs", w),
                            Cmp::Same(_) => unreachable!(),
                        };
                        out.viol.push(mk(
                            class,
                            format!(
                                "{} at master {m}: configuration {cname} and the empty configuration resolve to different outlines: {why}",
                                g.name
                            ),
                        ));
                    }
                }
                // a source mismatch of X is reported when it is not the reference's own mismatch again
                // and not already explained by the pair comparison
                if matches!(pair, Cmp::Same(_)) && src0_ok.get(&(g.name.clone(), m)) == Some(&true) {
                    report_source(&src, &mut out.viol, &mk, &g.name, m, &cname);
                }
                if (rx.adv_metrics - r0.adv_metrics).abs() > 1e-6 {
                    out.viol.push(mk(
                        "advance-differs",
                        format!("{} at master {m}: advance {} under {cname}, {} under the empty configuration", g.name, rx.adv_metrics, r0.adv_metrics),
                    ));
                }
                if (rx.adv_phantom - r0.adv_phantom).abs() > 1e-6 {
                    out.viol.push(mk(
                        "phantom-advance-differs",
                        format!(
                            "{} at master {m}: advance from the phantom points {} under {cname}, {} under the empty configuration",
                            g.name, rx.adv_phantom, r0.adv_phantom
                        ),
                    ));
                }
            }
            // second opinion on the evaluator
            if skrifa_cfgs.contains(&ci) {
                for (coords, _, _) in &rf.per_master {
                    match otvar::crosscheck_skrifa_detail(bytes, gid, coords) {
                        Ok(cc) => {
                            st.skrifa_crosschecks += 1;
                            st.skrifa_max_unrounded_diff = st.skrifa_max_unrounded_diff.max(cc.unrounded_diff);
                            if !cc.ok() {
                                out.machinery.push(format!(
                                    "otvar and skrifa disagree on {} under {cname} at {coords:?}: {cc:?}",
                                    g.name
                                ));
                            }
                        }
                        Err(e) => out.machinery.push(format!("skrifa cross-check of {} under {cname}: {e}", g.name)),
                    }
                }
            }
        }
        if ci == 0 || forms.len() < 4 {
            forms.push(json!({ "config": cname, "glyphs": form_row }));
        }
    }
    st.cases_with_stored_form_difference = any_form_diff as u64;
    out.nontrivial = any_form_diff;
    out.summary = json!({ "stored": forms });
    out
}

fn report_source(
    src: &Cmp,
    viol: &mut Vec<Viol>,
    mk: &dyn Fn(&'static str, String) -> Viol,
    glyph: &str,
    m: usize,
    cname: &str,
) {
    let (class, why) = match src {
        Cmp::Same(_) => return,
        Cmp::Dup(w) => ("source-duplicate-contour-dropped", w),
        Cmp::Dir(w) => ("source-direction-differs", w),
        Cmp::Shape(w) => ("source-differs", w),
    };
    viol.push(mk(
        class,
        format!("{glyph} at master {m} under {cname} differs from the source's own f64 resolution: {why}"),
    ));
}

enum Cmp {
    /// equal within the allowances; largest difference
    Same(f64),
    /// equal as sets, but one side has fewer copies of coincident contours
    Dup(String),
    /// equal when direction is ignored
    Dir(String),
    Shape(String),
}

/// Remove contours that coincide exactly with an earlier one.
fn dedup(a: &[CC]) -> Vec<CC> {
    let mut out: Vec<CC> = vec![];
    for c in a {
        if !out.iter().any(|o| cyclic_diff(&o.pts, &c.pts).is_some_and(|d| d <= 1e-9)) {
            out.push(c.clone());
        }
    }
    out
}

fn compare(a: &[CC], b: &[CC]) -> Cmp {
    let mo = match_contours(a, b);
    if mo.ok {
        return Cmp::Same(mo.max_diff);
    }
    if a.len() != b.len() {
        let (da, db) = (dedup(a), dedup(b));
        if (da.len() < a.len() || db.len() < b.len()) && match_contours(&da, &db).ok {
            return Cmp::Dup(format!(
                "{} contours vs {}; equal once coincident copies of a contour are collapsed ({} distinct)",
                a.len(),
                b.len(),
                da.len()
            ));
        }
        return Cmp::Shape(mo.why);
    }
    let flipped: Vec<CC> = a.iter().map(|c| CC { pts: reversed(&c.pts), err: c.err }).collect();
    if match_either(a, &flipped, b) { Cmp::Dir(mo.why) } else { Cmp::Shape(mo.why) }
}

/// Is there a perfect matching when every contour of the left side may be taken in either direction?
fn match_either(a: &[CC], a_rev: &[CC], b: &[CC]) -> bool {
    // a contour and its reverse share the index: build a combined candidate list per index
    let n = a.len();
    if n != b.len() {
        return false;
    }
    let mut adj: Vec<Vec<usize>> = vec![vec![]; n];
    for i in 0..n {
        for j in 0..n {
            let tol = a[i].err + b[j].err + 1e-6;
            let d1 = cyclic_diff(&a[i].pts, &b[j].pts).map(|d| d <= tol).unwrap_or(false);
            let d2 = cyclic_diff(&a_rev[i].pts, &b[j].pts).map(|d| d <= tol).unwrap_or(false);
            if d1 || d2 {
                adj[i].push(j);
            }
        }
    }
    fn go(i: usize, adj: &[Vec<usize>], seen: &mut [bool], mate: &mut [Option<usize>]) -> bool {
        for &j in &adj[i] {
            if seen[j] {
                continue;
            }
            seen[j] = true;
            if mate[j].is_none() || go(mate[j].unwrap(), adj, seen, mate) {
                mate[j] = Some(i);
                return true;
            }
        }
        false
    }
    let mut mate = vec![None; n];
    (0..n).all(|i| {
        let mut seen = vec![false; n];
        go(i, &adj, &mut seen, &mut mate)
    })
}

// ------------------------------------------------------------------------------------ replay

fn replay(path: &std::path::Path) -> ! {
    let s = std::fs::read_to_string(path).unwrap_or_else(|e| vcore::machinery_error(&format!("{path:?}: {e}")));
    let v: Value = serde_json::from_str(&s).unwrap_or_else(|e| vcore::machinery_error(&format!("{path:?}: {e}")));
    let r = v.get("replay").cloned().unwrap_or(v.clone());
    let d: Design = serde_json::from_value(r["design"].clone())
        .unwrap_or_else(|e| vcore::machinery_error(&format!("replay has no usable design: {e}")));
    let ox: Opts = serde_json::from_value(r["opts_x"].clone()).unwrap_or_default();
    let o0: Opts = serde_json::from_value(r["opts_0"].clone()).unwrap_or_default();
    println!("replaying {}: {} vs {}", v["key"].as_str().unwrap_or("?"), ox.name(), o0.name());
    if let Some(c) = r.get("case") {
        if let Ok(c) = serde_json::from_value::<Case>(c.clone()) {
            println!("source: {}", c.label());
        }
    }
    if let Ok(dir) = std::env::var("C12_KEEP") {
        // leave the source behind for a run of the product binary
        match d.write_designspace(std::path::Path::new(&dir)) {
            Ok(p) => println!("source written to {} (options: {})", p.display(), ox.cli_args().join(" ")),
            Err(e) => println!("cannot write the source to {dir}: {e}"),
        }
    }
    if v["key"].as_str().is_some_and(|k| k.starts_with("build-fails")) {
        // whether this build fails depends on HashMap iteration order inside the compiler: every
        // compile on this thread sees other hash keys, so try a number of them
        let sc = vcore::Scratch::new("c12-replay");
        let path = d
            .write_designspace(sc.path())
            .unwrap_or_else(|e| vcore::machinery_error(&format!("cannot write the source: {e}")));
        let mut fails = 0;
        let mut builds = 0;
        let mut msg = String::new();
        for i in 0..64 {
            match fcx::compile(&path, if i % 2 == 0 { &ox } else { &o0 }, None) {
                Ok(_) => builds += 1,
                Err(e) => {
                    fails += 1;
                    msg = format!("{e:?}");
                }
            }
        }
        println!("64 builds under varying hash keys: {builds} succeed, {fails} fail {msg}");
        vcore::cleanup_scratch();
        std::process::exit(if fails > 0 { 1 } else { 0 });
    }
    let out = evaluate(&d, &[o0, ox], &[]);
    for m in &out.machinery {
        println!("machinery: {m}");
    }
    for x in &out.viol {
        println!("{}: glyph {} master {}: {}", x.class, x.glyph, x.master, x.what);
    }
    println!("stored forms: {}", out.summary);
    vcore::cleanup_scratch();
    if !out.machinery.is_empty() && out.viol.is_empty() {
        std::process::exit(2);
    }
    if out.viol.is_empty() {
        println!("the case no longer fails");
        std::process::exit(0);
    }
    std::process::exit(1)
}

// ------------------------------------------------------------------------------------ main

const LANES: usize = 32;

/// counting semaphore: how many lanes may work at a time
struct Permits {
    free: std::sync::Mutex<usize>,
    cv: std::sync::Condvar,
}
struct Permit<'a>(&'a Permits);
impl Permits {
    fn new(n: usize) -> Self {
        Permits { free: std::sync::Mutex::new(n.max(1)), cv: std::sync::Condvar::new() }
    }
    fn acquire(&self) -> Permit<'_> {
        let mut g = self.free.lock().unwrap();
        while *g == 0 {
            g = self.cv.wait(g).unwrap();
        }
        *g -= 1;
        Permit(self)
    }
}
impl Drop for Permit<'_> {
    fn drop(&mut self) {
        *self.0.free.lock().unwrap() += 1;
        self.0.cv.notify_one();
    }
}

fn main() {
    let args = vcore::parse_args();
    // fixed hash keys: the sweep's verdicts are a function of (tier, seed), see the lanes below
    vcore::ensure_shim(args.seed);
    std::panic::set_hook(Box::new(|info| {
        if info.location().is_some_and(|l| l.file().ends_with("c12.rs")) {
            eprintln!("harness panic: {info}");
        }
    }));
    if let Some(p) = &args.replay {
        replay(p);
    }
    let mut rep = Reporter::new("C12", "exploration", &args);
    let (cases, notes) = spaces(args.tier);
    let cfgs = all_configs();
    let only: Option<usize> = std::env::var("C12_LIMIT").ok().and_then(|s| s.parse().ok());
    let total_cases = only.map(|n| n.min(cases.len())).unwrap_or(cases.len());
    let skrifa_every = args.tier.pick(37usize, 211usize);
    // A fixed number of lanes, each a thread of its own working through a fixed subsequence of the case
    // list: with the shimmed getrandom the hash keys every compile sees are then a function of
    // (tier, seed) alone, so verdicts repeat exactly although fontc's behaviour on some of these sources
    // depends on HashMap iteration order (see `build-fails`). A fresh thread per compile would be cleaner
    // but costs ~30 ms of per-thread initialisation inside the compiler. VERIF_JOBS bounds how many lanes
    // run at a time.
    let permits = Permits::new(vcore::ncores());
    // safety cap on wall time (never reached on an idle 16-core machine: quick ~15 s, thorough ~10 min)
    let cap_s: f64 = std::env::var("C12_CAP_S")
        .ok()
        .and_then(|s| s.parse().ok())
        .unwrap_or(args.tier.pick(600.0, 5400.0));
    let t0 = std::time::Instant::now();
    let skipped = std::sync::atomic::AtomicUsize::new(0);
    let lane_fn = |lane: usize| {
        let mut st = Stats::default();
        let mut viol: Vec<(String, String, Value)> = vec![];
        let mut machinery: Vec<String> = vec![];
        let mut samples: Vec<Value> = vec![];
        let mut nontrivial = 0u64;
        let mut seen = BTreeSet::new();
        for idx in (lane..total_cases).step_by(LANES) {
            let _permit = permits.acquire();
            if t0.elapsed().as_secs_f64() > cap_s {
                skipped.fetch_add(1, std::sync::atomic::Ordering::Relaxed);
                continue;
            }
            let case = &cases[idx];
            let d = build_design(case);
            let sk: Vec<usize> = if idx % skrifa_every == 0 { vec![0, (idx / skrifa_every) % 16] } else { vec![] };
            let ev = evaluate(&d, &cfgs, &sk);
            add_stats(&mut st, &ev.stats);
            if ev.nontrivial {
                nontrivial += 1;
            }
            machinery.extend(ev.machinery.into_iter().map(|m| format!("{m} [source {}]", case.label())));
            if idx % 509 == 3 && ev.viol.is_empty() {
                samples.push(json!({"source": case.label(), "result": ev.summary}));
            }
            for x in ev.viol {
                let gi = NAMES.iter().position(|n| *n == x.glyph);
                let cname = cfgs[x.cfg].name();
                let key = match (x.class, gi) {
                    ("advance-differs" | "phantom-advance-differs" | "source-advance-differs", _) => {
                        format!("{}:{cname}", x.class)
                    }
                    ("build-fails", _) => format!("build-fails:{}", slug(&x.what)),
                    ("duplicate-contour-dropped" | "source-duplicate-contour-dropped", Some(gi)) => {
                        // one mechanism whatever the configuration and transform: key on the glyph kind only
                        format!("{}:{}", x.class, case.kind_label(gi))
                    }
                    (_, Some(gi)) => {
                        format!("{}:{cname}:{}:{}", x.class, case.transform_label(gi), case.kind_label(gi))
                    }
                    _ => format!("{}:{cname}", x.class),
                };
                if seen.insert(key.clone()) {
                    viol.push((
                        key,
                        format!("{} [source {}]", x.what, case.label()),
                        json!({
                            "design": serde_json::to_value(&d).unwrap_or(Value::Null),
                            "case": case,
                            "opts_x": cfgs[x.cfg],
                            "opts_0": cfgs[0],
                            "glyph": x.glyph,
                            "master": x.master,
                            "contours_x": x.contours_x,
                            "contours_0": x.contours_0,
                        }),
                    ));
                }
            }
        }
        (st, viol, machinery, samples, nontrivial)
    };
    let results: Vec<_> = std::thread::scope(|s| {
        let lane_fn = &lane_fn;
        let hs: Vec<_> = (0..LANES).map(|lane| s.spawn(move || lane_fn(lane))).collect();
        hs.into_iter()
            .map(|h| h.join().unwrap_or_else(|_| vcore::machinery_error("a lane of the sweep panicked")))
            .collect()
    });
    let mut total = Stats::default();
    let mut samples: Vec<Value> = vec![];
    let mut machinery: Vec<String> = vec![];
    let mut nontrivial = 0u64;
    for (st, viol, mach, s, nt) in results {
        add_stats(&mut total, &st);
        for (k, w, r) in viol {
            rep.violation(&k, &w, r);
        }
        machinery.extend(mach);
        nontrivial += nt;
        for x in s {
            if samples.len() < 8 {
                samples.push(x);
            }
        }
    }
    if !machinery.is_empty() {
        for m in machinery.iter().take(10) {
            eprintln!("  {m}");
        }
        vcore::machinery_error(&format!("{} evaluator/harness failures (first ones above)", machinery.len()));
    }
    // how the enumerated sources exercise the alphabet (structural, from the case list)
    let mut by_tk: BTreeMap<String, u64> = BTreeMap::new();
    let mut structurally_forced = 0u64;
    for c in &cases[..total_cases] {
        if (1..c.n).any(|gi| c.comps[gi].iter().any(|(_, x)| x.forced())) {
            structurally_forced += 1;
        }
        for t in ALL_TK {
            if (1..c.n).any(|gi| c.comps[gi].iter().any(|(_, x)| *x == t)) {
                *by_tk.entry(t.name().to_string()).or_default() += 1;
            }
        }
    }
    rep.set("evaluations", total.compiles);
    rep.set("cases", total.cases);
    rep.set("configurations", cfgs.iter().map(|c| c.name()).collect::<Vec<_>>());
    rep.set("distinct_nontrivial", nontrivial);
    rep.set(
        "rule",
        "distinct enumerated sources for which at least one of the 15 non-empty configurations stores at least one exported glyph differently from the empty configuration (simple vs composite, or another component list / 2x2), measured by reading glyf of both fonts; every case list entry is a distinct source by construction",
    );
    rep.set("counts", serde_json::to_value(&total).unwrap());
    rep.set("cases_using_transform", serde_json::to_value(&by_tk).unwrap());
    rep.set("cases_with_unstorable_transform_in_source", structurally_forced);
    rep.set("spaces", notes);
    rep.set("samples", samples);
    let skipped = skipped.load(std::sync::atomic::Ordering::Relaxed);
    rep.set("exhaustive", only.is_none() && skipped == 0);
    if skipped > 0 {
        rep.set("cap", format!("wall-time cap of {cap_s} s hit: {skipped} of {total_cases} cases not run"));
    }
    if only.is_some() {
        rep.set("cap", format!("C12_LIMIT={total_cases} of {} cases", cases.len()));
    }
    rep.assume("sources: UFO/designspace, 1 axis, 2 full masters, every glyph present in both; outlines of lines and quadratics only (cubics differ legitimately through cu2qu of transformed vs untransformed curves); no anchors, no USE_MY_METRICS (fontc sets it on static fonts only)");
    rep.assume("transforms that stay stored as components are exact in F2Dot14 (entries 0, +-0.5, +-1 and their products); scale 2.5 and the per-master varying 2x2 can never be stored");
    rep.assume("direction: contours are compared direction-SENSITIVELY after reversing those reached through an odd number of stored flipped components (a rasteriser mirrors them without re-winding; the compiler re-winds when it decomposes a flip), so all 16 configurations must agree and must equal the source direction reversed once plus once per source flip; a mismatch in direction alone is keyed direction-differs");
    rep.assume("implied on-curve points are made explicit before comparing: the compiler drops an on-curve point when it is the midpoint of its ROUNDED neighbours, which legitimately depends on the stored form");
    rep.assume("tolerance per contour pair = sum of the two fonts' derived allowances: 0.5 per rounding (simple-glyph coordinates once, each stored component offset once, scaled by the 2x2 norms above it) + 0.5 where the active gvar tuple omits points (IUP tolerance of the compiler); float composition order eps 1e-6");
    rep.assume("glyph sets may differ (prefer-simple off derives glyphs such as B.0; non-export bases are absent): only exported glyphs of the source are compared");
    rep.finish()
}
