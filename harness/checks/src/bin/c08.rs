//! C08 — axis mapping into fvar/avar.
//!
//! This file currently implements part (i) of the design, the API-level sweep:
//!   * `fontdrasil::coords::CoordConverter::new` over every axis definition of the bounded
//!     alphabet (user nodes, non-decreasing design values incl. flat segments, default at
//!     min / inside / at max), compared with a piecewise-linear reference written here;
//!   * the real avar and fvar work items of `fontbe` (`create_avar_work`, `create_fvar_work`)
//!     executed on a `StaticMetadata` holding just that axis: required maps, monotonicity,
//!     `avar(fvar_norm(u))` against the reference, fvar bounds and instance coordinates.
//! Part (ii), `part_font`: the same axes written as a designspace `<map>` on a small font and
//! compiled; fvar/avar of the font are judged, and NAMED INSTANCES are a dimension of their own:
//! every location over {min, default, max, an interior node, a midpoint} per axis, spelling every
//! axis or leaving out any subset of the `<dimension>` elements (a missing dimension = axis default).
use fontbe::{
    avar::{PossiblyEmptyAvar, create_avar_work},
    fvar::create_fvar_work,
    orchestration::Context as BeContext,
};
use fontdrasil::{
    coords::{
        CoordConverter, DesignCoord, NormalizedCoord, NormalizedLocation, UserCoord, UserLocation,
    },
    orchestration::Access,
    types::Axis,
};
use fontir::{
    ir::{NamedInstance, StaticMetadata},
    orchestration::{Context as FeContext, Flags},
};
use serde_json::{Value, json};
use std::{
    collections::BTreeMap,
    panic::{AssertUnwindSafe, catch_unwind},
    path::Path,
};
use vcore::{Reporter, Tier};
use write_fonts::types::Tag;

const USERS: [f64; 10] = [100.0, 150.5, 200.0, 300.0, 400.0, 500.0, 600.0, 700.0, 800.0, 900.0];
const DESIGNS: [f64; 11] = [20.0, 40.0, 60.0, 80.0, 90.5, 100.0, 120.0, 140.0, 160.0, 180.0, 200.0];
const EPS: f64 = 1e-9;
const TAG: Tag = Tag::new(b"wght");

/// One axis definition: mapping nodes sorted by user value (strictly increasing), design values
/// non-decreasing; the axis runs from the first to the last node; the default is a node.
#[derive(Clone, Debug)]
struct AxisDef {
    nodes: Vec<(f64, f64)>,
    default_idx: usize,
}

impl AxisDef {
    fn json(&self) -> Value {
        json!({"nodes": self.nodes, "default_idx": self.default_idx})
    }
    fn describe(&self) -> String {
        let n: Vec<String> = self
            .nodes
            .iter()
            .enumerate()
            .map(|(i, (u, d))| format!("{u}->{d}{}", if i == self.default_idx { " (default)" } else { "" }))
            .collect();
        format!("user->design {{{}}}", n.join(", "))
    }
    fn flat_segments(&self) -> usize {
        self.nodes.windows(2).filter(|w| w[0].1 == w[1].1).count()
    }
}

// ------------------------------------------------------------------ the reference (own arithmetic)

/// Piecewise-linear interpolation through `nodes` (x strictly increasing), x inside the range.
fn pl(nodes: &[(f64, f64)], x: f64) -> f64 {
    for w in nodes.windows(2) {
        let (a, b) = (w[0], w[1]);
        if x >= a.0 && x <= b.0 {
            if x == a.0 {
                return a.1;
            }
            if x == b.0 {
                return b.1;
            }
            return a.1 + (x - a.0) * (b.1 - a.1) / (b.0 - a.0);
        }
    }
    if x < nodes[0].0 { nodes[0].1 } else { nodes[nodes.len() - 1].1 }
}

/// Design normalisation: default to 0, design minimum to -1, design maximum to +1.
fn norm(d: f64, dmin: f64, ddef: f64, dmax: f64) -> f64 {
    if d < ddef {
        if ddef == dmin { 0.0 } else { -(ddef - d) / (ddef - dmin) }
    } else if d > ddef {
        if dmax == ddef { 0.0 } else { (d - ddef) / (dmax - ddef) }
    } else {
        0.0
    }
}

/// Piecewise-linear evaluation of an avar segment map (from strictly increasing).
fn eval_segment_map(maps: &[(f64, f64)], x: f64) -> f64 {
    if maps.is_empty() {
        return x;
    }
    pl(maps, x)
}

struct Reference {
    dmin: f64,
    ddef: f64,
    dmax: f64,
    umin: f64,
    udef: f64,
    umax: f64,
}

impl Reference {
    fn of(def: &AxisDef) -> Reference {
        let k = def.nodes.len();
        Reference {
            dmin: def.nodes[0].1,
            ddef: def.nodes[def.default_idx].1,
            dmax: def.nodes[k - 1].1,
            umin: def.nodes[0].0,
            udef: def.nodes[def.default_idx].0,
            umax: def.nodes[k - 1].0,
        }
    }
    fn user_to_norm(&self, def: &AxisDef, u: f64) -> f64 {
        norm(pl(&def.nodes, u), self.dmin, self.ddef, self.dmax)
    }
    /// Default normalisation of the fvar triple.
    fn fvar_norm(min: f64, default: f64, max: f64, u: f64) -> f64 {
        let u = u.clamp(min, max);
        if u < default {
            -(default - u) / (default - min)
        } else if u > default {
            (u - default) / (max - default)
        } else {
            0.0
        }
    }
}

fn sample_users(def: &AxisDef) -> Vec<f64> {
    let mut v = vec![];
    for w in def.nodes.windows(2) {
        for t in [0.0, 0.25, 0.5, 0.75] {
            v.push(w[0].0 + t * (w[1].0 - w[0].0));
        }
    }
    v.push(def.nodes[def.nodes.len() - 1].0);
    v
}

// ------------------------------------------------------------------ running the real code

fn panic_msg(p: Box<dyn std::any::Any + Send>) -> String {
    p.downcast_ref::<String>()
        .cloned()
        .or(p.downcast_ref::<&str>().map(|s| s.to_string()))
        .unwrap_or_else(|| "panic".into())
}

fn guarded<T>(f: impl FnOnce() -> T) -> Result<T, String> {
    catch_unwind(AssertUnwindSafe(f)).map_err(panic_msg)
}

struct Tables {
    /// None: no avar (identity); Some: the axis' segment map as (from, to)
    avar: Option<Vec<(f64, f64)>>,
    fvar_axis: (f64, f64, f64),
    instances: Vec<f64>,
}

/// Execute the real avar and fvar work on a one-axis StaticMetadata.
fn run_tables(def: &AxisDef, conv: &CoordConverter, instance_users: &[f64]) -> Result<Tables, String> {
    let r = Reference::of(def);
    let axis = Axis {
        name: "Weight".to_string(),
        tag: TAG,
        min: UserCoord::new(r.umin),
        default: UserCoord::new(r.udef),
        max: UserCoord::new(r.umax),
        hidden: false,
        converter: conv.clone(),
        localized_names: Default::default(),
    };
    let named_instances: Vec<NamedInstance> = instance_users
        .iter()
        .enumerate()
        .map(|(i, u)| NamedInstance {
            name: format!("Instance{i}"),
            postscript_name: None,
            location: UserLocation::from(vec![(TAG, UserCoord::new(*u))]),
        })
        .collect();
    let mut locations = vec![NormalizedLocation::from(vec![(TAG, NormalizedCoord::new(0.0))])];
    if r.ddef < r.dmax {
        locations.push(NormalizedLocation::from(vec![(TAG, NormalizedCoord::new(1.0))]));
    }
    if r.dmin < r.ddef {
        locations.push(NormalizedLocation::from(vec![(TAG, NormalizedCoord::new(-1.0))]));
    }
    let meta = StaticMetadata::new(
        1000,
        Default::default(),
        vec![axis],
        named_instances,
        locations.into_iter().collect(),
        None,
        0.0,
        None,
        false,
    )
    .map_err(|e| format!("StaticMetadata::new: {e}"))?;
    // fresh contexts per case: nothing can leak from one case into the next
    let fe_root = FeContext::new_root(Flags::default(), None);
    let be_root = BeContext::new_root(Flags::default(), None, None, None, false, &fe_root);
    fe_root
        .copy_for_work(Access::All, Access::All)
        .static_metadata
        .set(meta);
    let be = be_root.copy_for_work(Access::All, Access::All);
    create_avar_work().exec(&be).map_err(|e| format!("avar work: {e}"))?;
    create_fvar_work().exec(&be).map_err(|e| format!("fvar work: {e}"))?;
    let avar = match &*be.avar.get() {
        PossiblyEmptyAvar::Empty => None,
        PossiblyEmptyAvar::NonEmpty(a) => {
            if a.axis_segment_maps.len() != 1 {
                return Err(format!("avar has {} segment maps for 1 axis", a.axis_segment_maps.len()));
            }
            Some(
                a.axis_segment_maps[0]
                    .axis_value_maps
                    .iter()
                    .map(|m| (m.from_coordinate.to_f32() as f64, m.to_coordinate.to_f32() as f64))
                    .collect(),
            )
        }
    };
    let fvar = be.fvar.get();
    let arrays = &*fvar.axis_instance_arrays;
    if arrays.axes.len() != 1 {
        return Err(format!("fvar has {} axes for 1 axis", arrays.axes.len()));
    }
    let a = &arrays.axes[0];
    Ok(Tables {
        avar,
        fvar_axis: (a.min_value.to_f64(), a.default_value.to_f64(), a.max_value.to_f64()),
        instances: arrays
            .instances
            .iter()
            .map(|i| i.coordinates.first().map(|c| c.to_f64()).unwrap_or(f64::NAN))
            .collect(),
    })
}

#[derive(Default, Clone)]
struct Counts {
    defs: u64,
    rejected: u64,
    evaluations: u64,
    nontrivial: u64,
    with_flat: u64,
    default_at_min: u64,
    default_inside: u64,
    default_at_max: u64,
    zero_design_extent: u64,
    avar_empty: u64,
    avar_checked_points: u64,
    round_trips: u64,
    max_avar_err_over_tol: f64,
    max_slope: f64,
}

impl Counts {
    fn add(&mut self, o: &Counts) {
        self.defs += o.defs;
        self.rejected += o.rejected;
        self.evaluations += o.evaluations;
        self.nontrivial += o.nontrivial;
        self.with_flat += o.with_flat;
        self.default_at_min += o.default_at_min;
        self.default_inside += o.default_inside;
        self.default_at_max += o.default_at_max;
        self.zero_design_extent += o.zero_design_extent;
        self.avar_empty += o.avar_empty;
        self.avar_checked_points += o.avar_checked_points;
        self.round_trips += o.round_trips;
        self.max_avar_err_over_tol = self.max_avar_err_over_tol.max(o.max_avar_err_over_tol);
        self.max_slope = self.max_slope.max(o.max_slope);
    }
}

/// All findings on one axis definition: (class key, message).
fn check_def(def: &AxisDef, cnt: &mut Counts, sample: Option<&mut Vec<Value>>) -> Vec<(String, String)> {
    let mut bad: Vec<(String, String)> = vec![];
    let k = def.nodes.len();
    let r = Reference::of(def);
    cnt.defs += 1;
    let mappings: Vec<(UserCoord, DesignCoord)> = def
        .nodes
        .iter()
        .map(|(u, d)| (UserCoord::new(*u), DesignCoord::new(*d)))
        .collect();
    let conv = match guarded(|| CoordConverter::new(mappings.clone(), def.default_idx)) {
        Ok(Ok(c)) => c,
        Ok(Err(_)) => {
            cnt.rejected += 1;
            return bad;
        }
        Err(m) => {
            bad.push(("panic:converter-new".into(), format!("CoordConverter::new panics: {m}")));
            return bad;
        }
    };
    if def.default_idx == 0 {
        cnt.default_at_min += 1;
    } else if def.default_idx == k - 1 {
        cnt.default_at_max += 1;
    } else {
        cnt.default_inside += 1;
    }
    let flat = def.flat_segments();
    if flat > 0 {
        cnt.with_flat += 1;
    }
    // qualifiers that name degenerate-but-accepted shapes, so that classes stay specific
    let zero_extent = r.dmin == r.dmax;
    if zero_extent {
        cnt.zero_design_extent += 1;
    }
    let flat_below_default = def.default_idx > 0 && r.dmin == r.ddef;
    let flat_above_default = def.default_idx < k - 1 && r.dmax == r.ddef;
    let qual = if zero_extent {
        ":design-extent-zero"
    } else if flat_below_default {
        ":no-design-range-below-default"
    } else if flat_above_default {
        ":no-design-range-above-default"
    } else {
        ""
    };

    // the mappings may be given in any order
    let mut rev = mappings.clone();
    rev.reverse();
    match guarded(|| CoordConverter::new(rev, k - 1 - def.default_idx)) {
        Ok(Ok(c2)) => {
            // (the struct itself keeps the caller's default index, so `==` is not the right question)
            let view = |c: &CoordConverter| -> Vec<(f64, f64, f64)> {
                let mut v: Vec<(f64, f64, f64)> = c.iter().map(|(u, d, n)| (u.to_f64(), d.to_f64(), n.to_f64())).collect();
                for u in sample_users(def) {
                    let uc = UserCoord::new(u);
                    let n = uc.to_normalized(c);
                    v.push((uc.to_design(c).to_f64(), n.to_f64(), n.to_user(c).to_f64()));
                }
                v
            };
            match guarded(|| (view(&conv), view(&c2))) {
                Ok((a, b)) => {
                    if a != b {
                        bad.push(("input-order-dependence".into(), "the converter built from the reversed mapping list converts differently".into()));
                    }
                }
                Err(m) => bad.push((format!("panic:convert{qual}"), format!("conversion panics: {m}"))),
            }
        }
        Ok(Err(e)) => bad.push(("input-order-dependence".into(), format!("reversed mapping list is rejected: {e}"))),
        Err(m) => bad.push(("panic:converter-new".into(), format!("CoordConverter::new (reversed list) panics: {m}"))),
    }

    // the vertices it reports are the ones it was given
    match guarded(|| conv.iter().map(|(u, d, n)| (u.to_f64(), d.to_f64(), n.to_f64())).collect::<Vec<_>>()) {
        Ok(v) => {
            let want: Vec<(f64, f64)> = def.nodes.clone();
            let got: Vec<(f64, f64)> = v.iter().map(|x| (x.0, x.1)).collect();
            if want != got {
                bad.push(("vertices-differ".into(), format!("iter() yields {got:?}")));
            }
            for (u, _, n) in &v {
                let want = r.user_to_norm(def, *u);
                if (n - want).abs() > EPS {
                    bad.push((format!("user-to-normalized-mismatch{qual}"), format!("iter(): node {u} has normalized {n}, reference {want}")));
                    break;
                }
            }
        }
        Err(m) => bad.push(("panic:iter".into(), format!("CoordConverter::iter panics: {m}"))),
    }

    // user -> design -> normalized at nodes, midpoints, quarter points
    let samples = sample_users(def);
    for u in &samples {
        cnt.evaluations += 1;
        let d_ref = pl(&def.nodes, *u);
        let n_ref = norm(d_ref, r.dmin, r.ddef, r.dmax);
        let got = guarded(|| {
            let uc = UserCoord::new(*u);
            let d = uc.to_design(&conv);
            let n = uc.to_normalized(&conv);
            let n2 = DesignCoord::new(d_ref).to_normalized(&conv);
            let back_u = d.to_user(&conv);
            let back_d = back_u.to_design(&conv);
            (d.to_f64(), n.to_f64(), n2.to_f64(), back_u.to_f64(), back_d.to_f64())
        });
        let (d, n, n2, back_u, back_d) = match got {
            Ok(x) => x,
            Err(m) => {
                bad.push((format!("panic:convert{qual}"), format!("conversion of user {u} panics: {m}")));
                break;
            }
        };
        if (d - d_ref).abs() > EPS {
            bad.push(("user-to-design-mismatch".into(), format!("user {u} -> design {d}, reference {d_ref}")));
        }
        if (n - n_ref).abs() > EPS {
            bad.push((format!("user-to-normalized-mismatch{qual}"), format!("user {u} -> normalized {n}, reference {n_ref} (design {d_ref})")));
        }
        if (n2 - n_ref).abs() > EPS {
            bad.push((format!("design-to-normalized-mismatch{qual}"), format!("design {d_ref} -> normalized {n2}, reference {n_ref}")));
        }
        if !(-1.0 - EPS..=1.0 + EPS).contains(&n) {
            bad.push((format!("normalized-out-of-range{qual}"), format!("user {u} inside the axis range -> normalized {n}")));
        }
        // round trips. design -> user is a right inverse everywhere (many-to-one on flat segments);
        // user -> design -> user is the identity where the map is strictly increasing around u.
        cnt.round_trips += 1;
        if (back_d - d_ref).abs() > EPS {
            bad.push(("roundtrip-design-user-design".into(), format!("design {d_ref} -> user {back_u} -> design {back_d}")));
        }
        let strictly = def.nodes.windows(2).all(|w| !(w[0].0 <= *u && *u <= w[1].0) || w[0].1 < w[1].1);
        if strictly && (back_u - u).abs() > 1e-7 {
            bad.push(("roundtrip-user-design-user".into(), format!("user {u} -> design {d} -> user {back_u}")));
        }
    }
    // normalized -> design -> normalized and normalized -> user -> normalized, on the sides that exist
    for nv in [-1.0, -0.5, 0.0, 0.5, 1.0] {
        if (nv < 0.0 && r.dmin == r.ddef) || (nv > 0.0 && r.dmax == r.ddef) {
            continue;
        }
        cnt.round_trips += 1;
        match guarded(|| {
            let n = NormalizedCoord::new(nv);
            let d = n.to_design(&conv);
            (d.to_f64(), d.to_normalized(&conv).to_f64(), n.to_user(&conv).to_normalized(&conv).to_f64())
        }) {
            Ok((d, back, via_user)) => {
                let want_d = if nv < 0.0 { r.ddef + nv * (r.ddef - r.dmin) } else { r.ddef + nv * (r.dmax - r.ddef) };
                if (d - want_d).abs() > EPS {
                    bad.push((format!("normalized-to-design-mismatch{qual}"), format!("normalized {nv} -> design {d}, reference {want_d}")));
                }
                if (back - nv).abs() > EPS || (via_user - nv).abs() > 1e-7 {
                    bad.push((format!("roundtrip-normalized{qual}"), format!("normalized {nv} -> design -> normalized {back}; -> user -> normalized {via_user}")));
                }
            }
            Err(m) => bad.push((format!("panic:convert{qual}"), format!("conversion of normalized {nv} panics: {m}"))),
        }
    }

    // the three anchors, exactly
    let anchors = guarded(|| {
        (
            UserCoord::new(r.udef).to_normalized(&conv).to_f64(),
            DesignCoord::new(r.ddef).to_normalized(&conv).to_f64(),
            DesignCoord::new(r.dmin).to_normalized(&conv).to_f64(),
            DesignCoord::new(r.dmax).to_normalized(&conv).to_f64(),
            UserCoord::new(r.umin).to_normalized(&conv).to_f64(),
            UserCoord::new(r.umax).to_normalized(&conv).to_f64(),
            NormalizedCoord::new(0.0).to_design(&conv).to_f64(),
            NormalizedCoord::new(0.0).to_user(&conv).to_normalized(&conv).to_f64(),
        )
    });
    match anchors {
        Ok((n_udef, n_ddef, n_dmin, n_dmax, n_umin, n_umax, d0, n0)) => {
            if n_udef != 0.0 || n_ddef != 0.0 {
                bad.push((format!("default-not-zero{qual}"), format!("default user -> {n_udef}, default design -> {n_ddef}")));
            }
            let want_min = if r.dmin < r.ddef { -1.0 } else { 0.0 };
            let want_max = if r.dmax > r.ddef { 1.0 } else { 0.0 };
            if n_dmin != want_min || n_umin != want_min {
                bad.push((format!("design-min-not-minus-one{qual}"), format!("design min {} -> {n_dmin}, user min -> {n_umin}, want {want_min}", r.dmin)));
            }
            if n_dmax != want_max || n_umax != want_max {
                bad.push((format!("design-max-not-plus-one{qual}"), format!("design max {} -> {n_dmax}, user max -> {n_umax}, want {want_max}", r.dmax)));
            }
            if d0 != r.ddef || n0 != 0.0 {
                bad.push((format!("zero-not-default{qual}"), format!("normalized 0 -> design {d0} (default {}), 0 -> user -> normalized {n0}", r.ddef)));
            }
        }
        Err(m) => bad.push((format!("panic:convert{qual}"), format!("conversion of an anchor panics: {m}"))),
    }

    // is the mapping more than the default normalisation? (then avar has real work to do)
    let ref_map: Vec<(f64, f64)> = def
        .nodes
        .iter()
        .map(|(u, d)| (Reference::fvar_norm(r.umin, r.udef, r.umax, *u), norm(*d, r.dmin, r.ddef, r.dmax)))
        .collect();
    let nontrivial = ref_map.iter().any(|(x, y)| (x - y).abs() > 1e-12);
    if nontrivial {
        cnt.nontrivial += 1;
    }
    let slope = ref_map
        .windows(2)
        .map(|w| (w[1].1 - w[0].1) / (w[1].0 - w[0].0))
        .fold(0.0f64, f64::max);
    cnt.max_slope = cnt.max_slope.max(slope);

    // avar and fvar from the real work items
    let mut inst = vec![r.umin, r.udef, r.umax];
    inst.push(samples[samples.len() / 2]);
    inst.dedup();
    match guarded(|| run_tables(def, &conv, &inst)) {
        Err(m) => bad.push((format!("panic:avar-fvar-work{qual}"), format!("building avar/fvar panics: {m}"))),
        Ok(Err(e)) => bad.push((format!("avar-fvar-work-error{qual}"), e)),
        Ok(Ok(t)) => {
            let fx = |v: f64| (v * 65536.0).round() / 65536.0;
            if t.fvar_axis != (fx(r.umin), fx(r.udef), fx(r.umax)) {
                bad.push(("fvar-bounds-mismatch".into(), format!("fvar axis record {:?}, source bounds ({}, {}, {})", t.fvar_axis, r.umin, r.udef, r.umax)));
            }
            if t.instances.len() != inst.len() {
                bad.push(("fvar-instance-count".into(), format!("{} instances given, {} in fvar", inst.len(), t.instances.len())));
            }
            for (got, want) in t.instances.iter().zip(&inst) {
                if !(t.fvar_axis.0..=t.fvar_axis.2).contains(got) {
                    bad.push(("instance-out-of-range".into(), format!("instance coordinate {got} outside [{}, {}]", t.fvar_axis.0, t.fvar_axis.2)));
                }
                if *got != fx(*want) {
                    bad.push(("instance-coordinate-mismatch".into(), format!("instance at user {want} has coordinate {got}")));
                }
            }
            let maps: Vec<(f64, f64)> = match &t.avar {
                Some(m) => m.clone(),
                None => {
                    cnt.avar_empty += 1;
                    vec![(-1.0, -1.0), (0.0, 0.0), (1.0, 1.0)]
                }
            };
            for req in [(-1.0, -1.0), (0.0, 0.0), (1.0, 1.0)] {
                if !maps.contains(&req) {
                    bad.push((format!("avar-missing-required-map{qual}"), format!("segment map {maps:?} lacks {}:{}", req.0, req.1)));
                    break;
                }
            }
            let from_ok = maps.windows(2).all(|w| w[0].0 < w[1].0);
            let to_ok = maps.windows(2).all(|w| w[0].1 <= w[1].1);
            if !from_ok {
                bad.push((format!("avar-from-not-increasing{qual}"), format!("segment map {maps:?}: fromCoordinate values are not strictly increasing")));
            }
            if !to_ok {
                bad.push((format!("avar-to-decreasing{qual}"), format!("segment map {maps:?}: toCoordinate values decrease")));
            }
            if maps.iter().any(|(a, b)| !(-1.0..=1.0).contains(a) || !(-1.0..=1.0).contains(b)) {
                bad.push((format!("avar-out-of-range{qual}"), format!("segment map {maps:?} leaves [-1, 1]")));
            }
            if from_ok {
                // S: the steepest segment of this instance's own normalized->normalized map
                let tol = (1.0 + slope) / 16384.0;
                let (fmin, fdef, fmax) = t.fvar_axis;
                for u in &samples {
                    cnt.avar_checked_points += 1;
                    let x = Reference::fvar_norm(fmin, fdef, fmax, *u);
                    let y = eval_segment_map(&maps, x);
                    let want = r.user_to_norm(def, *u);
                    let err = (y - want).abs();
                    cnt.max_avar_err_over_tol = cnt.max_avar_err_over_tol.max(err / tol);
                    if err > tol {
                        bad.push((
                            format!("avar-evaluation-mismatch{qual}"),
                            format!("user {u}: fvar-normalized {x}, avar {maps:?} gives {y}, source mapping gives {want} (tolerance {tol:.6}, steepest slope {slope:.3})"),
                        ));
                        break;
                    }
                }
            }
            if let Some(s) = sample {
                s.push(json!({"axis": def.describe(), "avar_segment_map": t.avar, "fvar": [t.fvar_axis.0, t.fvar_axis.1, t.fvar_axis.2],
                    "checked_users": samples.len(), "steepest_slope": slope, "verdict": if bad.is_empty() { "held" } else { "violated" }}));
            }
        }
    }
    // one finding per class per definition
    bad.sort();
    bad.dedup_by(|a, b| a.0 == b.0);
    bad
}

// ------------------------------------------------------------------ enumeration

fn combos(n: usize, k: usize) -> Vec<Vec<usize>> {
    fn rec(n: usize, k: usize, start: usize, cur: &mut Vec<usize>, out: &mut Vec<Vec<usize>>) {
        if cur.len() == k {
            out.push(cur.clone());
            return;
        }
        for i in start..n {
            cur.push(i);
            rec(n, k, i + 1, cur, out);
            cur.pop();
        }
    }
    let mut out = vec![];
    rec(n, k, 0, &mut vec![], &mut out);
    out
}

/// Non-decreasing index sequences of length k over 0..n.
fn multisets(n: usize, k: usize) -> Vec<Vec<usize>> {
    fn rec(n: usize, k: usize, start: usize, cur: &mut Vec<usize>, out: &mut Vec<Vec<usize>>) {
        if cur.len() == k {
            out.push(cur.clone());
            return;
        }
        for i in start..n {
            cur.push(i);
            rec(n, k, i, cur, out);
            cur.pop();
        }
    }
    let mut out = vec![];
    rec(n, k, 0, &mut vec![], &mut out);
    out
}

type Size = (usize, usize, u64);

#[derive(Default)]
struct Classes(BTreeMap<String, (u64, Size, String, Value)>);

impl Classes {
    fn add(&mut self, key: String, size: Size, what: String, replay: Value) {
        match self.0.get_mut(&key) {
            Some(e) => {
                e.0 += 1;
                if size < e.1 {
                    *e = (e.0, size, what, replay);
                }
            }
            None => {
                self.0.insert(key, (1, size, what, replay));
            }
        }
    }
    fn merge(&mut self, o: Classes) {
        for (k, (n, size, w, r)) in o.0 {
            match self.0.get_mut(&k) {
                Some(e) => {
                    e.0 += n;
                    if size < e.1 {
                        *e = (e.0, size, w, r);
                    }
                }
                None => {
                    self.0.insert(k, (n, size, w, r));
                }
            }
        }
    }
}

struct Stats {
    evaluations: u64,
    nontrivial: u64,
}

fn part_pure(rep: &mut Reporter, tier: Tier) -> Stats {
    // nodes = min, max, the default (if it is neither) and 0-3 further interior nodes
    let max_nodes = tier.pick(5, 6);
    let mut tasks: Vec<(usize, Vec<usize>)> = vec![];
    for k in 2..=max_nodes {
        for c in combos(USERS.len(), k) {
            tasks.push((k, c));
        }
    }
    let design_sets: Vec<Vec<Vec<usize>>> = (0..=max_nodes).map(|k| multisets(DESIGNS.len(), k)).collect();
    let results = vcore::par_for(tasks.len(), vcore::ncores(), |ti| {
        let (k, users) = &tasks[ti];
        let mut cnt = Counts::default();
        let mut cls = Classes::default();
        let mut samples: Vec<Value> = vec![];
        let mut seq = ti as u64 * 1_000_000;
        for ds in &design_sets[*k] {
            let nodes: Vec<(f64, f64)> = users.iter().zip(ds).map(|(u, d)| (USERS[*u], DESIGNS[*d])).collect();
            for default_idx in 0..*k {
                let others = k - 2 - (default_idx != 0 && default_idx != k - 1) as usize;
                if others > 3 {
                    continue;
                }
                seq += 1;
                let def = AxisDef { nodes: nodes.clone(), default_idx };
                let want_sample = samples.is_empty() && seq % 1000 == 617;
                let bad = check_def(&def, &mut cnt, if want_sample { Some(&mut samples) } else { None });
                for (key, msg) in bad {
                    let size: Size = (*k, def.flat_segments(), seq);
                    cls.add(key, size, format!("{}: {msg}", def.describe()), def.json());
                }
            }
        }
        (cnt, cls, samples)
    });
    let mut total = Counts::default();
    let mut cls = Classes::default();
    let mut samples = vec![];
    let n = results.len();
    for (i, (c, k, s)) in results.into_iter().enumerate() {
        total.add(&c);
        cls.merge(k);
        if samples.len() < 5 && (i == 0 || i == n / 3 || i == n / 2 || i == n - 1 || samples.is_empty()) {
            samples.extend(s.into_iter().take(1));
        }
    }
    let failing: BTreeMap<String, u64> = cls.0.iter().map(|(k, v)| (k.clone(), v.0)).collect();
    for (key, (n, _, what, replay)) in cls.0 {
        rep.violation(&key, &format!("{what} [{n} axis definition(s) in this class]"), replay);
    }
    rep.set("axis_definitions", total.defs);
    rep.set("rejected_by_api", total.rejected);
    rep.set("max_nodes", max_nodes);
    rep.set("user_alphabet", json!(USERS));
    rep.set("design_alphabet", json!(DESIGNS));
    rep.set("definitions_with_flat_segment", total.with_flat);
    rep.set("definitions_with_zero_design_extent", total.zero_design_extent);
    rep.set("default_at_min", total.default_at_min);
    rep.set("default_inside", total.default_inside);
    rep.set("default_at_max", total.default_at_max);
    rep.set("round_trips", total.round_trips);
    rep.set("avar_absent_identity", total.avar_empty);
    rep.set("avar_points_checked", total.avar_checked_points);
    rep.set("max_avar_error_over_tolerance", (total.max_avar_err_over_tol * 1000.0).round() / 1000.0);
    rep.set("steepest_slope_seen", (total.max_slope * 1000.0).round() / 1000.0);
    rep.set("failing_definitions_by_class", json!(failing));
    rep.set("samples", samples);
    rep.assume("part (i) only: one axis at a time; user nodes from {100,150.5,200,...,900}, design values from {20,40,...,200,90.5}; every node set of 2..max_nodes nodes with at most 3 nodes besides min, max and default; the default is a mapping node (the source front ends require it)");
    rep.assume("avar/fvar are produced by executing fontbe's real avar and fvar work items on a StaticMetadata that holds only this axis; the bytes of a compiled font are judged by the font-level part");
    rep.assume("avar(fvar_norm(u)) is evaluated in f64 on the F2Dot14 node values; tolerance 2^-14*(1+S), S = steepest slope of that definition's own map, derived from the quantisation of node abscissae and ordinates");
    rep.assume("oracle: piecewise-linear interpolation and the default-to-0 / min-to--1 / max-to-+1 normalisation written in the harness; float tolerance 1e-9 on conversions, 1e-7 on round trips; user->design->user is only required where the mapping is strictly increasing");
    Stats {
        evaluations: total.evaluations + total.avar_checked_points,
        nontrivial: total.nontrivial,
    }
}


// ================================================================== part (ii): font level
//
// The same kind of axis definition written as a designspace `<map>` on a small variable font,
// compiled by the real compiler, and read back with otvar (raw fvar/avar bytes, spec pipeline).

const F_USERS: [f64; 7] = [100.0, 150.5, 200.0, 300.0, 400.0, 600.0, 900.0];
const F_DESIGNS: [f64; 7] = [20.0, 40.0, 60.0, 90.5, 120.0, 160.0, 200.0];
const F_AXES: [(&str, &str); 2] = [("wght", "Weight"), ("wdth", "Width")];

/// companion axes for the 2-axis variant: no map with the default inside; a fractional map with
/// the default at the minimum; a bent map with the default at the maximum
fn companions() -> Vec<AxisDef> {
    vec![
        AxisDef { nodes: vec![(50.0, 50.0), (100.0, 100.0), (200.0, 200.0)], default_idx: 1 },
        AxisDef { nodes: vec![(0.0, 10.5), (5.0, 20.0), (10.0, 21.0)], default_idx: 0 },
        AxisDef { nodes: vec![(1.0, 0.0), (2.0, 7.5), (4.0, 8.0), (8.0, 100.0)], default_idx: 3 },
    ]
}

fn degenerate_qual(def: &AxisDef) -> &'static str {
    let r = Reference::of(def);
    let k = def.nodes.len();
    if r.dmin == r.dmax {
        ":design-extent-zero"
    } else if def.default_idx > 0 && r.dmin == r.ddef {
        ":no-design-range-below-default"
    } else if def.default_idx < k - 1 && r.dmax == r.ddef {
        ":no-design-range-above-default"
    } else {
        ""
    }
}

/// One named instance of the source. Per axis: Some(user value) = the `<dimension>` is written
/// (in design coordinates, through the axis map), None = the dimension is left out of the
/// `<location>`, which in a designspace means "at the axis default".
#[derive(Clone, Debug)]
struct InstSpec {
    style: String,
    coords: Vec<Option<f64>>,
}

/// the name of a dimension that no axis declares (readers warn and skip it, as fontTools does);
/// it keeps a location that spells none of the axes non-empty
const UNDECLARED_DIMENSION: &str = "Unused";

/// Instance coordinates of one axis: min, default, max, the first interior mapping node that is
/// not the default (if any) and the midpoint of the first segment; duplicates removed.
fn instance_users(def: &AxisDef) -> Vec<f64> {
    let r = Reference::of(def);
    let k = def.nodes.len();
    let mut v = vec![r.umin, r.udef, r.umax];
    if let Some(i) = (1..k - 1).find(|i| *i != def.default_idx) {
        v.push(def.nodes[i].0);
    }
    v.push((def.nodes[0].0 + def.nodes[1].0) / 2.0);
    let mut out: Vec<f64> = vec![];
    for x in v {
        if !out.contains(&x) {
            out.push(x);
        }
    }
    out
}

/// Every instance of the stated space: for every subset of axes that is left out (none first),
/// every combination of the spelled axes' coordinates.
fn instance_specs(defs: &[AxisDef]) -> Vec<InstSpec> {
    let n = defs.len();
    let alph: Vec<Vec<f64>> = defs.iter().map(instance_users).collect();
    let mut out: Vec<InstSpec> = vec![];
    for omit_mask in 0u32..(1 << n) {
        let mut locs: Vec<Vec<Option<f64>>> = vec![vec![]];
        for (i, a) in alph.iter().enumerate() {
            let choices: Vec<Option<f64>> = if omit_mask & (1 << i) != 0 { vec![None] } else { a.iter().map(|u| Some(*u)).collect() };
            locs = locs.iter().flat_map(|l| choices.iter().map(move |c| { let mut l2 = l.clone(); l2.push(*c); l2 })).collect();
        }
        for coords in locs {
            // the instance that spells the default location carries the default master's style name
            let at_default = omit_mask == 0 && coords.iter().zip(defs).all(|(c, d)| *c == Some(Reference::of(d).udef));
            let style = if at_default { "Regular".to_string() } else { format!("Inst{}", out.len()) };
            out.push(InstSpec { style, coords });
        }
    }
    out
}

/// The design for a list of axis definitions: masters at the default and at every design
/// extreme that differs from it (on-axis), one glyph, the named instances of `instance_specs`.
/// `tags[i]` = (tag, name) of axis i, in declared order.
fn axes_design(defs: &[AxisDef], tags: &[(&str, &str)], inst: &[InstSpec]) -> (dgen::Design, dgen::DsOpts) {
    use dgen::*;
    let axes: Vec<Axis> = defs
        .iter()
        .enumerate()
        .map(|(i, d)| {
            let r = Reference::of(d);
            let mut a = Axis::new(tags[i].0, tags[i].1, r.umin, r.udef, r.umax);
            // identity maps are written without a <map> element
            if d.nodes.iter().any(|(u, dv)| u != dv) {
                a.map = d.nodes.clone();
            }
            a
        })
        .collect();
    let default_loc: Vec<f64> = defs.iter().map(|d| Reference::of(d).ddef).collect();
    let mut locs = vec![default_loc.clone()];
    for (i, d) in defs.iter().enumerate() {
        let r = Reference::of(d);
        for v in [r.dmin, r.dmax] {
            if v != r.ddef {
                let mut l = default_loc.clone();
                l[i] = v;
                locs.push(l);
            }
        }
    }
    let nm = locs.len();
    let mut design = Design::skeleton("AxesC08", axes, locs);
    let mut g = Glyph::new("A", &[0x41]);
    for m in 0..nm {
        let w = 200.0 + 40.0 * m as f64;
        g.layers.insert(m, Layer { advance: w + 100.0, contours: vec![shapes::rect(50.0, 0.0, 50.0 + w, 700.0)], ..Default::default() });
    }
    design.glyphs.push(g);
    let mut opts = DsOpts::default();
    for (ii, spec) in inst.iter().enumerate() {
        // what the source SAYS: a left-out dimension is the axis default
        let user_loc: Vec<f64> = spec.coords.iter().zip(defs).map(|(c, d)| c.unwrap_or(Reference::of(d).udef)).collect();
        let omitted: Vec<usize> = spec.coords.iter().enumerate().filter(|(_, c)| c.is_none()).map(|(i, _)| i).collect();
        if !omitted.is_empty() {
            if omitted.len() == defs.len() {
                opts.instance_extra_dims.insert(ii, vec![(UNDECLARED_DIMENSION.to_string(), 0.0)]);
            }
            opts.instance_omit.insert(ii, omitted);
        }
        design.instances.push(Instance { family: None, style: spec.style.clone(), ps_name: None, user_loc });
    }
    (design, opts)
}

fn case_tags(n_axes: usize, swap_tags: bool) -> Vec<(&'static str, &'static str)> {
    let mut t: Vec<(&str, &str)> = F_AXES[..n_axes].to_vec();
    if swap_tags {
        t.reverse();
    }
    t
}

/// The Windows / Unicode BMP / en-US strings of the name table, by name id.
fn win_names(font: &[u8]) -> Result<BTreeMap<u16, String>, String> {
    use write_fonts::read::{FontRef, TableProvider};
    let f = FontRef::new(font).map_err(|e| format!("sfnt: {e}"))?;
    let name = f.name().map_err(|e| format!("name: {e}"))?;
    let mut out = BTreeMap::new();
    for r in name.name_record() {
        if r.platform_id() == 3 && r.encoding_id() == 1 && r.language_id() == 0x409 {
            let s: String = r.string(name.string_data()).map_err(|e| format!("name string: {e}"))?.chars().collect();
            out.entry(r.name_id().to_u16()).or_insert(s);
        }
    }
    Ok(out)
}

/// Worker-local source directories, one per master count (the UFOs do not depend on the case).
struct FontRig {
    dirs: BTreeMap<usize, vcore::Scratch>,
}

impl FontRig {
    fn new() -> FontRig {
        FontRig { dirs: BTreeMap::new() }
    }
    fn compile(&mut self, design: &dgen::Design, opts: &dgen::DsOpts) -> Result<Vec<u8>, fcx::Failure> {
        let nm = design.masters.len();
        let dir = self.dirs.entry(nm).or_insert_with(|| {
            let sc = vcore::Scratch::new("c08");
            if let Err(e) = design.write_designspace(sc.path()) {
                vcore::machinery_error(&format!("cannot write sources: {e}"));
            }
            sc
        });
        let path = dir.join("design.designspace");
        if let Err(e) = std::fs::write(&path, design.designspace_xml_with(opts)) {
            vcore::machinery_error(&format!("cannot write designspace: {e}"));
        }
        fcx::compile(&path, &fcx::Opts::default(), None)
    }
}

#[derive(Default, Clone)]
struct FCounts {
    fonts: u64,
    skipped_zero_extent: u64,
    degenerate_compiled: u64,
    compile_failures: u64,
    points: u64,
    nontrivial: u64,
    with_avar: u64,
    without_avar: u64,
    instances_checked: u64,
    instances_exact: u64,
    max_err_over_tol: f64,
    two_axis_fonts: u64,
    instances_judged: u64,
    instances_with_omitted_axis: u64,
    instances_spelling_no_axis: u64,
    omitted_coordinates: u64,
    omitted_coordinates_default_nonzero: u64,
    instance_names_resolved: u64,
    instances_reusing_subfamily_id: u64,
    nonalphabetical_axis_order: u64,
    max_instances_per_font: u64,
}

impl FCounts {
    fn add(&mut self, o: &FCounts) {
        self.fonts += o.fonts;
        self.skipped_zero_extent += o.skipped_zero_extent;
        self.degenerate_compiled += o.degenerate_compiled;
        self.compile_failures += o.compile_failures;
        self.points += o.points;
        self.nontrivial += o.nontrivial;
        self.with_avar += o.with_avar;
        self.without_avar += o.without_avar;
        self.instances_checked += o.instances_checked;
        self.instances_exact += o.instances_exact;
        self.max_err_over_tol = self.max_err_over_tol.max(o.max_err_over_tol);
        self.two_axis_fonts += o.two_axis_fonts;
        self.instances_judged += o.instances_judged;
        self.instances_with_omitted_axis += o.instances_with_omitted_axis;
        self.instances_spelling_no_axis += o.instances_spelling_no_axis;
        self.omitted_coordinates += o.omitted_coordinates;
        self.omitted_coordinates_default_nonzero += o.omitted_coordinates_default_nonzero;
        self.instance_names_resolved += o.instance_names_resolved;
        self.instances_reusing_subfamily_id += o.instances_reusing_subfamily_id;
        self.nonalphabetical_axis_order += o.nonalphabetical_axis_order;
        self.max_instances_per_font = self.max_instances_per_font.max(o.max_instances_per_font);
    }
}

/// Compile the axes and judge fvar/avar. Findings: (class key, message).
fn check_font(defs: &[AxisDef], swap_tags: bool, rig: &mut FontRig, cnt: &mut FCounts, sample: Option<&mut Vec<Value>>) -> Vec<(String, String)> {
    let mut bad: Vec<(String, String)> = vec![];
    if defs.iter().any(|d| degenerate_qual(d) == ":design-extent-zero") {
        // no two masters can differ on such an axis: not a variable-font source at all
        cnt.skipped_zero_extent += 1;
        return bad;
    }
    let quals: Vec<&str> = defs.iter().map(degenerate_qual).collect();
    if quals.iter().any(|q| !q.is_empty()) {
        cnt.degenerate_compiled += 1;
    }
    cnt.fonts += 1;
    if defs.len() > 1 {
        cnt.two_axis_fonts += 1;
    }
    let tags = case_tags(defs.len(), swap_tags);
    if tags.windows(2).any(|w| w[0].0 > w[1].0) {
        cnt.nonalphabetical_axis_order += 1;
    }
    let inst = instance_specs(defs);
    cnt.max_instances_per_font = cnt.max_instances_per_font.max(inst.len() as u64);
    let (design, opts) = axes_design(defs, &tags, &inst);
    let font = match rig.compile(&design, &opts) {
        Ok(f) => f,
        Err(f) => {
            cnt.compile_failures += 1;
            let q = quals.iter().find(|q| !q.is_empty()).copied().unwrap_or("");
            let (kind, msg) = match f {
                fcx::Failure::Error(e) => ("compile-error", e),
                fcx::Failure::Panic(e) => ("compile-panic", e),
            };
            return vec![(format!("{kind}{q}:font"), format!("the compiler fails: {msg}"))];
        }
    };
    let vf = match otvar::VFont::new(&font) {
        Ok(v) => v,
        Err(e) => return vec![("font-unreadable:font".into(), format!("otvar: {e}"))],
    };
    let axes = vf.axes();
    // fvar axes: the declared ones in the declared order (not sorted by tag)
    if axes.len() != defs.len() || axes.iter().zip(&tags).any(|(a, t)| a.tag != t.0) {
        return vec![("fvar-axes-differ:font".into(), format!("fvar axes {:?}, declared {:?}", axes.iter().map(|a| a.tag.clone()).collect::<Vec<_>>(), tags.iter().map(|t| t.0).collect::<Vec<_>>()))];
    }
    let data = vf.axes_data();
    match &data.avar {
        Some(m) if m.len() != defs.len() => {
            return vec![("avar-axis-count:font".into(), format!("avar has {} segment maps for {} axes", m.len(), defs.len()))];
        }
        Some(_) => cnt.with_avar += 1,
        None => cnt.without_avar += 1,
    }
    let fx = |v: f64| (v * 65536.0).round() as i64;
    let mut any_nontrivial = false;
    let mut sample_axes = vec![];
    for (i, def) in defs.iter().enumerate() {
        let r = Reference::of(def);
        let q = quals[i];
        let a = &axes[i];
        // fvar = the source's user bounds, exactly (as Fixed 16.16)
        if (a.min_fx as i64, a.default_fx as i64, a.max_fx as i64) != (fx(r.umin), fx(r.udef), fx(r.umax)) {
            bad.push(("fvar-bounds-mismatch:font".into(), format!("axis {}: fvar ({}, {}, {}), source ({}, {}, {})", a.tag, a.min, a.default, a.max, r.umin, r.udef, r.umax)));
        }
        // avar structure
        let maps: Vec<(f64, f64)> = match &data.avar {
            Some(m) if !m[i].is_empty() => m[i].iter().map(|(f, t)| (*f as f64 / 16384.0, *t as f64 / 16384.0)).collect(),
            _ => vec![(-1.0, -1.0), (0.0, 0.0), (1.0, 1.0)],
        };
        let mut structure_ok = true;
        for req in [(-1.0, -1.0), (0.0, 0.0), (1.0, 1.0)] {
            if !maps.contains(&req) {
                structure_ok = false;
                bad.push((format!("avar-missing-required-map{q}:font"), format!("axis {}: segment map {maps:?} lacks {}:{}", a.tag, req.0, req.1)));
                break;
            }
        }
        if !maps.windows(2).all(|w| w[0].0 < w[1].0) {
            structure_ok = false;
            bad.push((format!("avar-from-not-increasing{q}:font"), format!("axis {}: segment map {maps:?}: fromCoordinate values are not strictly increasing", a.tag)));
        }
        if !maps.windows(2).all(|w| w[0].1 <= w[1].1) {
            bad.push((format!("avar-to-decreasing{q}:font"), format!("axis {}: segment map {maps:?}: toCoordinate values decrease", a.tag)));
        }
        // normalisation through the font against the source's own mapping
        let ref_map: Vec<(f64, f64)> = def
            .nodes
            .iter()
            .map(|(u, d)| (Reference::fvar_norm(r.umin, r.udef, r.umax, *u), norm(*d, r.dmin, r.ddef, r.dmax)))
            .collect();
        if ref_map.iter().any(|(x, y)| (x - y).abs() > 1e-12) {
            any_nontrivial = true;
        }
        let slope = ref_map.windows(2).map(|w| (w[1].1 - w[0].1) / (w[1].0 - w[0].0)).fold(0.0f64, f64::max);
        let tol = (1.0 + slope) / 16384.0;
        if structure_ok {
            for u in sample_users(def) {
                cnt.points += 1;
                let got = vf.normalize(&[(a.tag.clone(), u)]);
                let want = r.user_to_norm(def, u);
                // the other axes stay at their defaults
                if got.iter().enumerate().any(|(j, v)| j != i && *v != 0.0) {
                    bad.push(("other-axis-moved:font".into(), format!("setting only {} = {u} gives normalized {got:?}", a.tag)));
                    break;
                }
                let err = (got[i] - want).abs();
                cnt.max_err_over_tol = cnt.max_err_over_tol.max(err / tol);
                if err > tol {
                    bad.push((
                        format!("avar-evaluation-mismatch{q}:font"),
                        format!("axis {} at user {u}: the font normalizes to {} (without avar {}), the source mapping gives {want} (tolerance {tol:.6}, steepest slope {slope:.3}); avar {maps:?}", a.tag, got[i], vf.normalize_no_avar(&[(a.tag.clone(), u)])[i]),
                    ));
                    break;
                }
            }
        }
        sample_axes.push(json!({"axis": def.describe(), "fvar": [a.min, a.default, a.max], "avar": maps, "steepest_slope": slope}));
    }
    if any_nontrivial {
        cnt.nontrivial += 1;
    }
    // named instances: as many as in the source and in its order; every coordinate inside the
    // axis range (the font's own fvar range and the source's); a left-out dimension sits at the
    // axis default; a spelled one at the source's user value where the mapping can be inverted
    // there (instances are written in design coordinates); the subfamily name id resolves to the
    // instance's style name
    if data.instances.len() != inst.len() {
        bad.push(("fvar-instance-count:font".into(), format!("{} instances in the source, {} in fvar", inst.len(), data.instances.len())));
    }
    let names = match win_names(&font) {
        Ok(n) => n,
        Err(e) => {
            bad.push(("name-table-unreadable:font".into(), e));
            BTreeMap::new()
        }
    };
    for (ii, (got, want)) in data.instances.iter().zip(&inst).enumerate() {
        cnt.instances_judged += 1;
        let n_omitted = want.coords.iter().filter(|c| c.is_none()).count();
        if n_omitted > 0 {
            cnt.instances_with_omitted_axis += 1;
        }
        if n_omitted == defs.len() {
            cnt.instances_spelling_no_axis += 1;
        }
        let spelled = |w: &InstSpec| -> String {
            w.coords.iter().enumerate().map(|(i, c)| match c { Some(u) => format!("{}={u}", tags[i].0), None => format!("{} left out", tags[i].0) }).collect::<Vec<_>>().join(", ")
        };
        if got.coords.len() != defs.len() {
            bad.push(("instance-coordinate-count:font".into(), format!("instance {ii} has {} coordinates for {} axes", got.coords.len(), defs.len())));
            continue;
        }
        for (i, def) in defs.iter().enumerate() {
            let g = got.coords[i];
            let r = Reference::of(def);
            let a = &axes[i];
            cnt.instances_checked += 1;
            // a location that spells no axis at all is only expressible through the undeclared
            // dimension (see UNDECLARED_DIMENSION): its own class
            let q = match want.coords[i] {
                Some(_) => "",
                None if n_omitted == defs.len() => ":omitted-axis:undeclared-dimension-only",
                None => ":omitted-axis",
            };
            if !(a.min..=a.max).contains(&g) || !(r.umin..=r.umax).contains(&g) {
                bad.push((format!("instance-out-of-range{q}:font"), format!("instance {ii} ({}): axis {} coordinate {g} outside [{}, {}]", spelled(want), tags[i].0, r.umin, r.umax)));
            }
            match want.coords[i] {
                None => {
                    cnt.omitted_coordinates += 1;
                    if r.udef != 0.0 {
                        cnt.omitted_coordinates_default_nonzero += 1;
                    }
                    // the axis default is written as-is into the axis record; the same Fixed value here
                    if fx(g) != fx(r.udef) {
                        bad.push((format!("instance-coordinate-mismatch{q}:font"), format!("instance {ii} ({}): axis {} is left out of the location, so it sits at the axis default {}, but its fvar coordinate is {g}", spelled(want), tags[i].0, r.udef)));
                    }
                }
                Some(w) => {
                    let seg_of_w = |s: &&[(f64, f64)]| s[0].0 <= w && w <= s[1].0;
                    let invertible = def.nodes.windows(2).filter(seg_of_w).all(|s| s[0].1 < s[1].1);
                    if invertible {
                        cnt.instances_exact += 1;
                        // the location is written as the decimal text of design value d and read as
                        // f32; design -> user is interpolated in f64 (error << 2^-17) and rounded
                        // to Fixed 16.16 once. When d is an f32 and w a Fixed value, the result is w
                        // exactly; otherwise one Fixed unit plus the f32 error scaled by du/dd.
                        let d = pl(&def.nodes, w);
                        let f32_err = ((d as f32) as f64 - d).abs();
                        let du_dd = def.nodes.windows(2).filter(seg_of_w).map(|s| (s[1].0 - s[0].0) / (s[1].1 - s[0].1)).fold(0.0f64, f64::max);
                        let fixed_exact = (w * 65536.0).fract() == 0.0;
                        let tol = if f32_err == 0.0 && fixed_exact { 0.0 } else { 1.0 / 65536.0 + f32_err * du_dd + 1e-9 };
                        if (g - w).abs() > tol {
                            bad.push(("instance-coordinate-mismatch:font".into(), format!("instance {ii} ({}): axis {} placed at user {w} (design {d}) has fvar coordinate {g}", spelled(want), tags[i].0)));
                        }
                    }
                }
            }
        }
        // OpenType fvar: subfamilyNameID is 2, 17 or a font-specific id (> 255)
        let id = got.subfamily_name_id;
        if !(id == 2 || id == 17 || (256..32768).contains(&id)) {
            bad.push(("instance-name-id-reserved:font".into(), format!("instance {ii} ({}) has subfamilyNameID {id}", spelled(want))));
        }
        if id == 2 || id == 17 {
            cnt.instances_reusing_subfamily_id += 1;
        }
        if !names.is_empty() {
            match names.get(&id) {
                Some(s) if *s == want.style => cnt.instance_names_resolved += 1,
                other => bad.push(("instance-name-mismatch:font".into(), format!("instance {ii} ({}) is called {:?} in the source; its subfamilyNameID {id} resolves to {other:?}", spelled(want), want.style))),
            }
        }
    }
    if let Some(s) = sample {
        s.push(json!({"axes": sample_axes, "masters": design.masters.iter().map(|m| m.loc.clone()).collect::<Vec<_>>(),
            "axis_tags_declared": tags.iter().map(|t| t.0).collect::<Vec<_>>(),
            "instances_source": inst.iter().map(|i| json!({"style": i.style, "user (null = dimension left out)": i.coords})).collect::<Vec<_>>(),
            "instances_fvar": data.instances.iter().map(|i| json!({"coords": i.coords, "subfamily_name_id": i.subfamily_name_id})).collect::<Vec<_>>(),
            "verdict": if bad.is_empty() { "held" } else { "violated" }}));
    }
    bad.sort();
    bad.dedup_by(|a, b| a.0 == b.0);
    bad
}

fn defs_over(users: &[f64], designs: &[f64], max_nodes: usize) -> Vec<AxisDef> {
    let mut out = vec![];
    for k in 2..=max_nodes {
        let dsets = multisets(designs.len(), k);
        for us in combos(users.len(), k) {
            for ds in &dsets {
                let nodes: Vec<(f64, f64)> = us.iter().zip(ds).map(|(u, d)| (users[*u], designs[*d])).collect();
                for default_idx in 0..k {
                    out.push(AxisDef { nodes: nodes.clone(), default_idx });
                }
            }
        }
    }
    out
}

fn font_json(defs: &[AxisDef], swap_tags: bool) -> Value {
    json!({"part": "font", "axes": defs.iter().map(|d| d.json()).collect::<Vec<_>>(), "swap_tags": swap_tags,
        "axis_tags_declared": case_tags(defs.len(), swap_tags).iter().map(|t| t.0).collect::<Vec<_>>()})
}

/// A `<location>` without any `<dimension>` (valid: everything at default): does the compiler take
/// it, and if so where does the instance sit? Evidence only unless the font is built and wrong.
/// Returns (outcome text, findings).
fn run_empty_location_probe() -> (String, Vec<(String, String)>) {
    let defs = vec![AxisDef { nodes: vec![(100.0, 20.0), (400.0, 90.5), (900.0, 200.0)], default_idx: 1 }];
    let tags = case_tags(1, false);
    let inst = vec![InstSpec { style: "Inst0".into(), coords: vec![None] }];
    let (design, mut opts) = axes_design(&defs, &tags, &inst);
    opts.instance_extra_dims.clear();
    let mut rig = FontRig::new();
    match rig.compile(&design, &opts) {
        Err(fcx::Failure::Error(e)) => (format!("rejected: {e}"), vec![]),
        Err(fcx::Failure::Panic(e)) => (
            format!("panic: {e}"),
            vec![("compile-panic:empty-instance-location:font".into(), format!("an instance <location> without dimensions makes the compiler panic: {e}"))],
        ),
        Ok(font) => match otvar::VFont::new(&font) {
            Err(e) => (format!("built, unreadable: {e}"), vec![("font-unreadable:font".into(), format!("otvar: {e}"))]),
            Ok(vf) => {
                let c: Vec<Vec<f64>> = vf.axes_data().instances.iter().map(|i| i.coords.clone()).collect();
                let mut bad = vec![];
                if c != vec![vec![400.0]] {
                    bad.push(("instance-coordinate-mismatch:omitted-axis:empty-location:font".into(), format!("an instance <location> without dimensions sits at the axis default 400, fvar has {c:?}")));
                }
                (format!("accepted; fvar instance coordinates {c:?}"), bad)
            }
        },
    }
}

fn probe_empty_location(rep: &mut Reporter) {
    let (outcome, bad) = run_empty_location_probe();
    for (k, m) in bad {
        rep.violation(&k, &m, json!({"part": "empty-location-probe"}));
    }
    rep.set("font_empty_instance_location", outcome);
}

fn part_font(rep: &mut Reporter, tier: Tier) -> Stats {
    // single axis: every definition over the stated alphabets; two axes: every small definition
    // next to each companion axis, in both axis orders, with the tags declared as wght, wdth
    // (declared order differs from the alphabetical one) and as wdth, wght
    let mut cases: Vec<(Vec<AxisDef>, bool)> = match tier {
        Tier::Quick => defs_over(&F_USERS, &F_DESIGNS, 4),
        Tier::Thorough => {
            let mut v = defs_over(&USERS, &DESIGNS, 4);
            v.extend(defs_over(&F_USERS, &F_DESIGNS, 5).into_iter().filter(|d| d.nodes.len() == 5));
            v
        }
    }
    .into_iter()
    .map(|d| (vec![d], false))
    .collect();
    let single = cases.len();
    let small = defs_over(&F_USERS[..5], &[20.0, 40.0, 90.5, 120.0, 200.0], tier.pick(3, 4));
    for d in &small {
        for c in companions() {
            for swap_tags in [false, true] {
                cases.push((vec![d.clone(), c.clone()], swap_tags));
                cases.push((vec![c.clone(), d.clone()], swap_tags));
            }
        }
    }
    let chunk = 128usize;
    let ntasks = cases.len().div_ceil(chunk);
    let results = vcore::par_for(ntasks, vcore::ncores(), |ti| {
        let mut rig = FontRig::new();
        let mut cnt = FCounts::default();
        let mut cls = Classes::default();
        let mut samples = vec![];
        for (ci, (defs, swap_tags)) in cases[ti * chunk..((ti + 1) * chunk).min(cases.len())].iter().enumerate() {
            let seq = (ti * chunk + ci) as u64;
            let want_sample = samples.is_empty() && ci == 77;
            let found = check_font(defs, *swap_tags, &mut rig, &mut cnt, if want_sample { Some(&mut samples) } else { None });
            for (key, msg) in found {
                let size: Size = (defs.iter().map(|d| d.nodes.len()).sum::<usize>() + 10 * defs.len(), defs.iter().map(|d| d.flat_segments()).sum(), seq);
                let what = defs.iter().map(|d| d.describe()).collect::<Vec<_>>().join(" + ");
                let what = if defs.len() > 1 { format!("axes declared as {} — {what}", case_tags(defs.len(), *swap_tags).iter().map(|t| t.0).collect::<Vec<_>>().join(", ")) } else { what };
                cls.add(key, size, format!("{what}: {msg}"), font_json(defs, *swap_tags));
            }
        }
        (cnt, cls, samples)
    });
    let mut total = FCounts::default();
    let mut cls = Classes::default();
    let mut samples = vec![];
    let n = results.len();
    for (i, (c, k, s)) in results.into_iter().enumerate() {
        total.add(&c);
        cls.merge(k);
        if samples.len() < 4 && (i == 0 || i == n / 3 || i == (2 * n) / 3 || i == n - 1) {
            samples.extend(s.into_iter().take(1));
        }
    }
    let failing: BTreeMap<String, u64> = cls.0.iter().map(|(k, v)| (k.clone(), v.0)).collect();
    for (key, (n, _, what, replay)) in cls.0 {
        rep.violation(&key, &format!("{what} [{n} font(s) in this class]"), replay);
    }
    rep.set("fonts_compiled", total.fonts);
    rep.set("font_single_axis_cases", single);
    rep.set("font_two_axis_fonts", total.two_axis_fonts);
    rep.set("font_cases_skipped_zero_design_extent", total.skipped_zero_extent);
    rep.set("font_degenerate_one_sided_axes_compiled", total.degenerate_compiled);
    rep.set("font_compile_failures", total.compile_failures);
    rep.set("font_points_normalized", total.points);
    rep.set("fonts_with_avar", total.with_avar);
    rep.set("fonts_without_avar", total.without_avar);
    rep.set("fonts_with_bent_axis", total.nontrivial);
    rep.set("font_instance_coordinates_checked", total.instances_checked);
    rep.set("font_instance_coordinates_compared_exactly", total.instances_exact);
    rep.set("font_instances_judged", total.instances_judged);
    rep.set("font_instances_with_omitted_axis", total.instances_with_omitted_axis);
    rep.set("font_instances_spelling_no_axis", total.instances_spelling_no_axis);
    rep.set("font_omitted_axis_coordinates", total.omitted_coordinates);
    rep.set("font_omitted_axis_coordinates_with_nonzero_default", total.omitted_coordinates_default_nonzero);
    rep.set("font_instance_names_resolved", total.instance_names_resolved);
    rep.set("font_instances_reusing_name_id_2_or_17", total.instances_reusing_subfamily_id);
    rep.set("font_designs_nonalphabetical_axis_order", total.nonalphabetical_axis_order);
    rep.set("font_max_instances_per_font", total.max_instances_per_font);
    probe_empty_location(rep);
    rep.set("font_max_error_over_tolerance", (total.max_err_over_tol * 1000.0).round() / 1000.0);
    rep.set("failing_fonts_by_class", json!(failing));
    rep.set("font_samples", samples);
    rep.assume("part (ii): the axis is written as a designspace <map> (no <map> when it is the identity) on a one-glyph font with masters at the default and at each design extreme that differs from it; quick: user nodes from {100,150.5,200,300,400,600,900}, design values from {20,40,60,90.5,120,160,200}, 2-4 nodes, every default position; thorough: the full part (i) alphabets with 2-4 nodes plus all 5-node definitions over the quick alphabets; two-axis fonts pair every 2-3 (thorough 2-4) node definition over a 5x5 sub-alphabet with three fixed companion axes in both axis orders");
    rep.assume("part (ii) normalizes with otvar's integer pipeline (Fixed 16.16 default normalisation, avar segment map, F2Dot14 result) on the raw fvar/avar bytes; tolerance 2^-14*(1+S) as in part (i); axes whose design values are all equal are skipped (no variable font can be built on them) and counted");
    rep.assume("named instances (part ii): every font carries every instance of the space: per axis the user values {min, default, max, first interior mapping node other than the default, midpoint of the first segment} (duplicates removed); for every subset of axes whose <dimension> is left out of the <location> (1 axis: none / the axis; 2 axes: none / first / second / both) every combination of the other axes' values. A left-out dimension means the axis default (designspace semantics), so its fvar coordinate must be the axis default exactly (Fixed 16.16). Spelled dimensions are written in design coordinates through the axis map; the fvar coordinate is compared with the source's user value only where the mapping is strictly increasing around it: exactly when the design value is an f32 and the user value a Fixed 16.16 number (always, over these alphabets), else within 2^-16 + f32 error * du/dd. Every coordinate must lie inside the fvar range and the source range. Instance count and order as in the source; subfamilyNameID in {2, 17, 256..32767} and its Windows en-US string equals the instance's style name (the instance spelling the default location is called Regular like the default master, the others Inst<n>)");
    rep.assume("a location that spells none of the axes is written with one <dimension> naming an axis the document does not declare ('Unused'): the designspace reader (norad) rejects a <location> without any <dimension>, although such a location is valid (everything at default); fontc, like fontTools, skips dimensions of undeclared axes with a warning. The empty <location> itself is probed once per run and reported in evidence (font_empty_instance_location), not judged: acceptance of inputs is not part of this property");
    rep.assume("2-axis fonts are built with the axis tags declared as (wght, wdth) — declared order differs from the alphabetical order of the tags — and as (wdth, wght); fvar axis records, avar segment maps and instance coordinates must follow the declared order");
    Stats {
        evaluations: total.points,
        nontrivial: total.nontrivial,
    }
}

fn parse_def(r: &Value) -> Option<AxisDef> {
    let nodes: Vec<(f64, f64)> = r
        .get("nodes")?
        .as_array()?
        .iter()
        .map(|p| (p[0].as_f64().unwrap_or(f64::NAN), p[1].as_f64().unwrap_or(f64::NAN)))
        .collect();
    let default_idx = r.get("default_idx")?.as_u64()? as usize;
    if nodes.len() < 2 || default_idx >= nodes.len() || !nodes.windows(2).all(|w| w[0].0 < w[1].0 && w[0].1 <= w[1].1) {
        return None;
    }
    Some(AxisDef { nodes, default_idx })
}

fn replay_font(r: &Value) -> ! {
    let bad = |m: &str| -> ! { vcore::machinery_error(&format!("replay: {m}")) };
    let defs: Vec<AxisDef> = r
        .get("axes")
        .and_then(|x| x.as_array())
        .unwrap_or_else(|| bad("axes"))
        .iter()
        .map(|a| parse_def(a).unwrap_or_else(|| bad("axis definition")))
        .collect();
    if defs.is_empty() || defs.len() > 2 {
        bad("1 or 2 axes");
    }
    // replay files written before the tag order became a dimension have no such key: wght, wdth
    let swap_tags = r.get("swap_tags").and_then(|x| x.as_bool()).unwrap_or(false);
    let mut rig = FontRig::new();
    let mut cnt = FCounts::default();
    let mut sample = vec![];
    let found = check_font(&defs, swap_tags, &mut rig, &mut cnt, Some(&mut sample));
    for d in &defs {
        println!("{}", d.describe());
    }
    if let Some(s) = sample.first() {
        println!("{s}");
    }
    if cnt.skipped_zero_extent > 0 {
        println!("skipped: an axis without design extent");
    }
    for (k, m) in &found {
        println!("{k}: {m}");
    }
    drop(rig);
    let fails = !found.is_empty();
    println!("replay: the case {}", if fails { "still fails" } else { "no longer fails" });
    vcore::cleanup_scratch();
    std::process::exit(fails as i32)
}

fn replay(path: &Path) -> ! {
    let bad = |m: &str| -> ! { vcore::machinery_error(&format!("replay {path:?}: {m}")) };
    let text = std::fs::read_to_string(path).unwrap_or_else(|e| bad(&e.to_string()));
    let v: Value = serde_json::from_str(&text).unwrap_or_else(|e| bad(&e.to_string()));
    let r = v.get("replay").unwrap_or(&v);
    if r.get("part").and_then(|x| x.as_str()) == Some("empty-location-probe") {
        std::panic::set_hook(Box::new(|_| {}));
        let (outcome, found) = run_empty_location_probe();
        println!("instance <location> without dimensions: {outcome}");
        for (k, m) in &found {
            println!("{k}: {m}");
        }
        let fails = !found.is_empty();
        println!("replay: the case {}", if fails { "still fails" } else { "no longer fails" });
        vcore::cleanup_scratch();
        std::process::exit(fails as i32)
    }
    if r.get("part").and_then(|x| x.as_str()) == Some("font") {
        std::panic::set_hook(Box::new(|_| {}));
        replay_font(r);
    }
    let nodes: Vec<(f64, f64)> = r
        .get("nodes")
        .and_then(|x| x.as_array())
        .unwrap_or_else(|| bad("nodes"))
        .iter()
        .map(|p| (p[0].as_f64().unwrap_or(f64::NAN), p[1].as_f64().unwrap_or(f64::NAN)))
        .collect();
    let default_idx = r.get("default_idx").and_then(|x| x.as_u64()).unwrap_or_else(|| bad("default_idx")) as usize;
    if nodes.len() < 2
        || default_idx >= nodes.len()
        || !nodes.windows(2).all(|w| w[0].0 < w[1].0 && w[0].1 <= w[1].1)
    {
        bad("nodes must be >= 2, sorted by strictly increasing user value with non-decreasing design values");
    }
    std::panic::set_hook(Box::new(|_| {}));
    let def = AxisDef { nodes, default_idx };
    let mut cnt = Counts::default();
    let mut sample = vec![];
    let found = check_def(&def, &mut cnt, Some(&mut sample));
    println!("{}", def.describe());
    if let Some(s) = sample.first() {
        println!("{s}");
    }
    for (k, m) in &found {
        println!("{k}: {m}");
    }
    if let Some(k) = v.get("key").and_then(|k| k.as_str()) {
        println!("recorded class: {k}");
    }
    let fails = !found.is_empty();
    println!("replay: the case {}", if fails { "still fails" } else { "no longer fails" });
    std::process::exit(fails as i32)
}

fn main() {
    // one build epoch for every in-process compile
    unsafe { std::env::set_var("SOURCE_DATE_EPOCH", "1700000000") };
    let args = vcore::parse_args();
    if let Some(p) = &args.replay {
        replay(p);
    }
    let mut rep = Reporter::new("C08", "exploration", &args);
    let hook = std::panic::take_hook();
    std::panic::set_hook(Box::new(|_| {}));
    let t0 = std::time::Instant::now();
    let pure = part_pure(&mut rep, args.tier);
    let t1 = std::time::Instant::now();
    let font = part_font(&mut rep, args.tier);
    rep.set("wall_s_part_i", ((t1 - t0).as_secs_f64() * 10.0).round() / 10.0);
    rep.set("wall_s_part_ii", (t1.elapsed().as_secs_f64() * 10.0).round() / 10.0);
    std::panic::set_hook(hook);
    rep.set("evaluations", pure.evaluations + font.evaluations);
    rep.set("distinct_nontrivial", pure.nontrivial + font.nontrivial);
    rep.set("rule", "evaluations = user values converted through the real converter and compared with the reference (nodes, midpoints, quarter points of every segment) + user values pushed through fvar normalisation and the produced avar segment map. distinct_nontrivial = distinct axis definitions (distinct by construction) whose mapping is not the default normalisation, i.e. some node's design-normalized value differs from its fvar-normalized value, so avar has to bend the axis; part (ii) adds the user values normalized through compiled fonts and the compiled fonts with such a bent axis");
    rep.set("exhaustive", true);
    rep.set("parts_implemented", json!(["i: CoordConverter + avar/fvar work items", "ii: designspace <map> -> fvar/avar of the compiled font; named instances (every axis spelled / any subset of dimensions left out) -> fvar instance records and their names; declared axis order"]));
    rep.finish()
}
