//! C08 — axis mapping into fvar/avar.
//!
//! This file currently implements part (i) of the design, the API-level sweep:
//!   * `fontdrasil::coords::CoordConverter::new` over every axis definition of the bounded
//!     alphabet (user nodes, non-decreasing design values incl. flat segments, default at
//!     min / inside / at max), compared with a piecewise-linear reference written here;
//!   * the real avar and fvar work items of `fontbe` (`create_avar_work`, `create_fvar_work`)
//!     executed on a `StaticMetadata` holding just that axis: required maps, monotonicity,
//!     `avar(fvar_norm(u))` against the reference, fvar bounds and instance coordinates.
//! `part_font` (the same axes written as designspace / Glyphs sources and compiled) is added later.
use fontbe::{
    avar::{PossiblyEmptyAvar, create_avar_work},
    fvar::create_fvar_work,
    orchestration::Context as BeContext,
};
use fontdrasil::{
    coords::{
        CoordConverter, DesignCoord, NormalizedCoord, NormalizedLocation, UserCoord, UserLocation,
    },
    orchestration::Access,
    types::Axis,
};
use fontir::{
    ir::{NamedInstance, StaticMetadata},
    orchestration::{Context as FeContext, Flags},
};
use serde_json::{Value, json};
use std::{
    collections::BTreeMap,
    panic::{AssertUnwindSafe, catch_unwind},
    path::Path,
};
use vcore::{Reporter, Tier};
use write_fonts::types::Tag;

const USERS: [f64; 10] = [100.0, 150.5, 200.0, 300.0, 400.0, 500.0, 600.0, 700.0, 800.0, 900.0];
const DESIGNS: [f64; 11] = [20.0, 40.0, 60.0, 80.0, 90.5, 100.0, 120.0, 140.0, 160.0, 180.0, 200.0];
const EPS: f64 = 1e-9;
const TAG: Tag = Tag::new(b"wght");

/// One axis definition: mapping nodes sorted by user value (strictly increasing), design values
/// non-decreasing; the axis runs from the first to the last node; the default is a node.
#[derive(Clone, Debug)]
struct AxisDef {
    nodes: Vec<(f64, f64)>,
    default_idx: usize,
}

impl AxisDef {
    fn json(&self) -> Value {
        json!({"nodes": self.nodes, "default_idx": self.default_idx})
    }
    fn describe(&self) -> String {
        let n: Vec<String> = self
            .nodes
            .iter()
            .enumerate()
            .map(|(i, (u, d))| format!("{u}->{d}{}", if i == self.default_idx { " (default)" } else { "" }))
            .collect();
        format!("user->design {{{}}}", n.join(", "))
    }
    fn flat_segments(&self) -> usize {
        self.nodes.windows(2).filter(|w| w[0].1 == w[1].1).count()
    }
}

// ------------------------------------------------------------------ the reference (own arithmetic)

/// Piecewise-linear interpolation through `nodes` (x strictly increasing), x inside the range.
fn pl(nodes: &[(f64, f64)], x: f64) -> f64 {
    for w in nodes.windows(2) {
        let (a, b) = (w[0], w[1]);
        if x >= a.0 && x <= b.0 {
            if x == a.0 {
                return a.1;
            }
            if x == b.0 {
                return b.1;
            }
            return a.1 + (x - a.0) * (b.1 - a.1) / (b.0 - a.0);
        }
    }
    if x < nodes[0].0 { nodes[0].1 } else { nodes[nodes.len() - 1].1 }
}

/// Design normalisation: default to 0, design minimum to -1, design maximum to +1.
fn norm(d: f64, dmin: f64, ddef: f64, dmax: f64) -> f64 {
    if d < ddef {
        if ddef == dmin { 0.0 } else { -(ddef - d) / (ddef - dmin) }
    } else if d > ddef {
        if dmax == ddef { 0.0 } else { (d - ddef) / (dmax - ddef) }
    } else {
        0.0
    }
}

/// Piecewise-linear evaluation of an avar segment map (from strictly increasing).
fn eval_segment_map(maps: &[(f64, f64)], x: f64) -> f64 {
    if maps.is_empty() {
        return x;
    }
    pl(maps, x)
}

struct Reference {
    dmin: f64,
    ddef: f64,
    dmax: f64,
    umin: f64,
    udef: f64,
    umax: f64,
}

impl Reference {
    fn of(def: &AxisDef) -> Reference {
        let k = def.nodes.len();
        Reference {
            dmin: def.nodes[0].1,
            ddef: def.nodes[def.default_idx].1,
            dmax: def.nodes[k - 1].1,
            umin: def.nodes[0].0,
            udef: def.nodes[def.default_idx].0,
            umax: def.nodes[k - 1].0,
        }
    }
    fn user_to_norm(&self, def: &AxisDef, u: f64) -> f64 {
        norm(pl(&def.nodes, u), self.dmin, self.ddef, self.dmax)
    }
    /// Default normalisation of the fvar triple.
    fn fvar_norm(min: f64, default: f64, max: f64, u: f64) -> f64 {
        let u = u.clamp(min, max);
        if u < default {
            -(default - u) / (default - min)
        } else if u > default {
            (u - default) / (max - default)
        } else {
            0.0
        }
    }
}

fn sample_users(def: &AxisDef) -> Vec<f64> {
    let mut v = vec![];
    for w in def.nodes.windows(2) {
        for t in [0.0, 0.25, 0.5, 0.75] {
            v.push(w[0].0 + t * (w[1].0 - w[0].0));
        }
    }
    v.push(def.nodes[def.nodes.len() - 1].0);
    v
}

// ------------------------------------------------------------------ running the real code

fn panic_msg(p: Box<dyn std::any::Any + Send>) -> String {
    p.downcast_ref::<String>()
        .cloned()
        .or(p.downcast_ref::<&str>().map(|s| s.to_string()))
        .unwrap_or_else(|| "panic".into())
}

fn guarded<T>(f: impl FnOnce() -> T) -> Result<T, String> {
    catch_unwind(AssertUnwindSafe(f)).map_err(panic_msg)
}

struct Tables {
    /// None: no avar (identity); Some: the axis' segment map as (from, to)
    avar: Option<Vec<(f64, f64)>>,
    fvar_axis: (f64, f64, f64),
    instances: Vec<f64>,
}

/// Execute the real avar and fvar work on a one-axis StaticMetadata.
fn run_tables(def: &AxisDef, conv: &CoordConverter, instance_users: &[f64]) -> Result<Tables, String> {
    let r = Reference::of(def);
    let axis = Axis {
        name: "Weight".to_string(),
        tag: TAG,
        min: UserCoord::new(r.umin),
        default: UserCoord::new(r.udef),
        max: UserCoord::new(r.umax),
        hidden: false,
        converter: conv.clone(),
        localized_names: Default::default(),
    };
    let named_instances: Vec<NamedInstance> = instance_users
        .iter()
        .enumerate()
        .map(|(i, u)| NamedInstance {
            name: format!("Instance{i}"),
            postscript_name: None,
            location: UserLocation::from(vec![(TAG, UserCoord::new(*u))]),
        })
        .collect();
    let mut locations = vec![NormalizedLocation::from(vec![(TAG, NormalizedCoord::new(0.0))])];
    if r.ddef < r.dmax {
        locations.push(NormalizedLocation::from(vec![(TAG, NormalizedCoord::new(1.0))]));
    }
    if r.dmin < r.ddef {
        locations.push(NormalizedLocation::from(vec![(TAG, NormalizedCoord::new(-1.0))]));
    }
    let meta = StaticMetadata::new(
        1000,
        Default::default(),
        vec![axis],
        named_instances,
        locations.into_iter().collect(),
        None,
        0.0,
        None,
        false,
    )
    .map_err(|e| format!("StaticMetadata::new: {e}"))?;
    // fresh contexts per case: nothing can leak from one case into the next
    let fe_root = FeContext::new_root(Flags::default(), None);
    let be_root = BeContext::new_root(Flags::default(), None, None, None, false, &fe_root);
    fe_root
        .copy_for_work(Access::All, Access::All)
        .static_metadata
        .set(meta);
    let be = be_root.copy_for_work(Access::All, Access::All);
    create_avar_work().exec(&be).map_err(|e| format!("avar work: {e}"))?;
    create_fvar_work().exec(&be).map_err(|e| format!("fvar work: {e}"))?;
    let avar = match &*be.avar.get() {
        PossiblyEmptyAvar::Empty => None,
        PossiblyEmptyAvar::NonEmpty(a) => {
            if a.axis_segment_maps.len() != 1 {
                return Err(format!("avar has {} segment maps for 1 axis", a.axis_segment_maps.len()));
            }
            Some(
                a.axis_segment_maps[0]
                    .axis_value_maps
                    .iter()
                    .map(|m| (m.from_coordinate.to_f32() as f64, m.to_coordinate.to_f32() as f64))
                    .collect(),
            )
        }
    };
    let fvar = be.fvar.get();
    let arrays = &*fvar.axis_instance_arrays;
    if arrays.axes.len() != 1 {
        return Err(format!("fvar has {} axes for 1 axis", arrays.axes.len()));
    }
    let a = &arrays.axes[0];
    Ok(Tables {
        avar,
        fvar_axis: (a.min_value.to_f64(), a.default_value.to_f64(), a.max_value.to_f64()),
        instances: arrays
            .instances
            .iter()
            .map(|i| i.coordinates.first().map(|c| c.to_f64()).unwrap_or(f64::NAN))
            .collect(),
    })
}

#[derive(Default, Clone)]
struct Counts {
    defs: u64,
    rejected: u64,
    evaluations: u64,
    nontrivial: u64,
    with_flat: u64,
    default_at_min: u64,
    default_inside: u64,
    default_at_max: u64,
    zero_design_extent: u64,
    avar_empty: u64,
    avar_checked_points: u64,
    round_trips: u64,
    max_avar_err_over_tol: f64,
    max_slope: f64,
}

impl Counts {
    fn add(&mut self, o: &Counts) {
        self.defs += o.defs;
        self.rejected += o.rejected;
        self.evaluations += o.evaluations;
        self.nontrivial += o.nontrivial;
        self.with_flat += o.with_flat;
        self.default_at_min += o.default_at_min;
        self.default_inside += o.default_inside;
        self.default_at_max += o.default_at_max;
        self.zero_design_extent += o.zero_design_extent;
        self.avar_empty += o.avar_empty;
        self.avar_checked_points += o.avar_checked_points;
        self.round_trips += o.round_trips;
        self.max_avar_err_over_tol = self.max_avar_err_over_tol.max(o.max_avar_err_over_tol);
        self.max_slope = self.max_slope.max(o.max_slope);
    }
}

/// All findings on one axis definition: (class key, message).
fn check_def(def: &AxisDef, cnt: &mut Counts, sample: Option<&mut Vec<Value>>) -> Vec<(String, String)> {
    let mut bad: Vec<(String, String)> = vec![];
    let k = def.nodes.len();
    let r = Reference::of(def);
    cnt.defs += 1;
    let mappings: Vec<(UserCoord, DesignCoord)> = def
        .nodes
        .iter()
        .map(|(u, d)| (UserCoord::new(*u), DesignCoord::new(*d)))
        .collect();
    let conv = match guarded(|| CoordConverter::new(mappings.clone(), def.default_idx)) {
        Ok(Ok(c)) => c,
        Ok(Err(_)) => {
            cnt.rejected += 1;
            return bad;
        }
        Err(m) => {
            bad.push(("panic:converter-new".into(), format!("CoordConverter::new panics: {m}")));
            return bad;
        }
    };
    if def.default_idx == 0 {
        cnt.default_at_min += 1;
    } else if def.default_idx == k - 1 {
        cnt.default_at_max += 1;
    } else {
        cnt.default_inside += 1;
    }
    let flat = def.flat_segments();
    if flat > 0 {
        cnt.with_flat += 1;
    }
    // qualifiers that name degenerate-but-accepted shapes, so that classes stay specific
    let zero_extent = r.dmin == r.dmax;
    if zero_extent {
        cnt.zero_design_extent += 1;
    }
    let flat_below_default = def.default_idx > 0 && r.dmin == r.ddef;
    let flat_above_default = def.default_idx < k - 1 && r.dmax == r.ddef;
    let qual = if zero_extent {
        ":design-extent-zero"
    } else if flat_below_default {
        ":no-design-range-below-default"
    } else if flat_above_default {
        ":no-design-range-above-default"
    } else {
        ""
    };

    // the mappings may be given in any order
    let mut rev = mappings.clone();
    rev.reverse();
    match guarded(|| CoordConverter::new(rev, k - 1 - def.default_idx)) {
        Ok(Ok(c2)) => {
            // (the struct itself keeps the caller's default index, so `==` is not the right question)
            let view = |c: &CoordConverter| -> Vec<(f64, f64, f64)> {
                let mut v: Vec<(f64, f64, f64)> = c.iter().map(|(u, d, n)| (u.to_f64(), d.to_f64(), n.to_f64())).collect();
                for u in sample_users(def) {
                    let uc = UserCoord::new(u);
                    let n = uc.to_normalized(c);
                    v.push((uc.to_design(c).to_f64(), n.to_f64(), n.to_user(c).to_f64()));
                }
                v
            };
            match guarded(|| (view(&conv), view(&c2))) {
                Ok((a, b)) => {
                    if a != b {
                        bad.push(("input-order-dependence".into(), "the converter built from the reversed mapping list converts differently".into()));
                    }
                }
                Err(m) => bad.push((format!("panic:convert{qual}"), format!("conversion panics: {m}"))),
            }
        }
        Ok(Err(e)) => bad.push(("input-order-dependence".into(), format!("reversed mapping list is rejected: {e}"))),
        Err(m) => bad.push(("panic:converter-new".into(), format!("CoordConverter::new (reversed list) panics: {m}"))),
    }

    // the vertices it reports are the ones it was given
    match guarded(|| conv.iter().map(|(u, d, n)| (u.to_f64(), d.to_f64(), n.to_f64())).collect::<Vec<_>>()) {
        Ok(v) => {
            let want: Vec<(f64, f64)> = def.nodes.clone();
            let got: Vec<(f64, f64)> = v.iter().map(|x| (x.0, x.1)).collect();
            if want != got {
                bad.push(("vertices-differ".into(), format!("iter() yields {got:?}")));
            }
            for (u, _, n) in &v {
                let want = r.user_to_norm(def, *u);
                if (n - want).abs() > EPS {
                    bad.push((format!("user-to-normalized-mismatch{qual}"), format!("iter(): node {u} has normalized {n}, reference {want}")));
                    break;
                }
            }
        }
        Err(m) => bad.push(("panic:iter".into(), format!("CoordConverter::iter panics: {m}"))),
    }

    // user -> design -> normalized at nodes, midpoints, quarter points
    let samples = sample_users(def);
    for u in &samples {
        cnt.evaluations += 1;
        let d_ref = pl(&def.nodes, *u);
        let n_ref = norm(d_ref, r.dmin, r.ddef, r.dmax);
        let got = guarded(|| {
            let uc = UserCoord::new(*u);
            let d = uc.to_design(&conv);
            let n = uc.to_normalized(&conv);
            let n2 = DesignCoord::new(d_ref).to_normalized(&conv);
            let back_u = d.to_user(&conv);
            let back_d = back_u.to_design(&conv);
            (d.to_f64(), n.to_f64(), n2.to_f64(), back_u.to_f64(), back_d.to_f64())
        });
        let (d, n, n2, back_u, back_d) = match got {
            Ok(x) => x,
            Err(m) => {
                bad.push((format!("panic:convert{qual}"), format!("conversion of user {u} panics: {m}")));
                break;
            }
        };
        if (d - d_ref).abs() > EPS {
            bad.push(("user-to-design-mismatch".into(), format!("user {u} -> design {d}, reference {d_ref}")));
        }
        if (n - n_ref).abs() > EPS {
            bad.push((format!("user-to-normalized-mismatch{qual}"), format!("user {u} -> normalized {n}, reference {n_ref} (design {d_ref})")));
        }
        if (n2 - n_ref).abs() > EPS {
            bad.push((format!("design-to-normalized-mismatch{qual}"), format!("design {d_ref} -> normalized {n2}, reference {n_ref}")));
        }
        if !(-1.0 - EPS..=1.0 + EPS).contains(&n) {
            bad.push((format!("normalized-out-of-range{qual}"), format!("user {u} inside the axis range -> normalized {n}")));
        }
        // round trips. design -> user is a right inverse everywhere (many-to-one on flat segments);
        // user -> design -> user is the identity where the map is strictly increasing around u.
        cnt.round_trips += 1;
        if (back_d - d_ref).abs() > EPS {
            bad.push(("roundtrip-design-user-design".into(), format!("design {d_ref} -> user {back_u} -> design {back_d}")));
        }
        let strictly = def.nodes.windows(2).all(|w| !(w[0].0 <= *u && *u <= w[1].0) || w[0].1 < w[1].1);
        if strictly && (back_u - u).abs() > 1e-7 {
            bad.push(("roundtrip-user-design-user".into(), format!("user {u} -> design {d} -> user {back_u}")));
        }
    }
    // normalized -> design -> normalized and normalized -> user -> normalized, on the sides that exist
    for nv in [-1.0, -0.5, 0.0, 0.5, 1.0] {
        if (nv < 0.0 && r.dmin == r.ddef) || (nv > 0.0 && r.dmax == r.ddef) {
            continue;
        }
        cnt.round_trips += 1;
        match guarded(|| {
            let n = NormalizedCoord::new(nv);
            let d = n.to_design(&conv);
            (d.to_f64(), d.to_normalized(&conv).to_f64(), n.to_user(&conv).to_normalized(&conv).to_f64())
        }) {
            Ok((d, back, via_user)) => {
                let want_d = if nv < 0.0 { r.ddef + nv * (r.ddef - r.dmin) } else { r.ddef + nv * (r.dmax - r.ddef) };
                if (d - want_d).abs() > EPS {
                    bad.push((format!("normalized-to-design-mismatch{qual}"), format!("normalized {nv} -> design {d}, reference {want_d}")));
                }
                if (back - nv).abs() > EPS || (via_user - nv).abs() > 1e-7 {
                    bad.push((format!("roundtrip-normalized{qual}"), format!("normalized {nv} -> design -> normalized {back}; -> user -> normalized {via_user}")));
                }
            }
            Err(m) => bad.push((format!("panic:convert{qual}"), format!("conversion of normalized {nv} panics: {m}"))),
        }
    }

    // the three anchors, exactly
    let anchors = guarded(|| {
        (
            UserCoord::new(r.udef).to_normalized(&conv).to_f64(),
            DesignCoord::new(r.ddef).to_normalized(&conv).to_f64(),
            DesignCoord::new(r.dmin).to_normalized(&conv).to_f64(),
            DesignCoord::new(r.dmax).to_normalized(&conv).to_f64(),
            UserCoord::new(r.umin).to_normalized(&conv).to_f64(),
            UserCoord::new(r.umax).to_normalized(&conv).to_f64(),
            NormalizedCoord::new(0.0).to_design(&conv).to_f64(),
            NormalizedCoord::new(0.0).to_user(&conv).to_normalized(&conv).to_f64(),
        )
    });
    match anchors {
        Ok((n_udef, n_ddef, n_dmin, n_dmax, n_umin, n_umax, d0, n0)) => {
            if n_udef != 0.0 || n_ddef != 0.0 {
                bad.push((format!("default-not-zero{qual}"), format!("default user -> {n_udef}, default design -> {n_ddef}")));
            }
            let want_min = if r.dmin < r.ddef { -1.0 } else { 0.0 };
            let want_max = if r.dmax > r.ddef { 1.0 } else { 0.0 };
            if n_dmin != want_min || n_umin != want_min {
                bad.push((format!("design-min-not-minus-one{qual}"), format!("design min {} -> {n_dmin}, user min -> {n_umin}, want {want_min}", r.dmin)));
            }
            if n_dmax != want_max || n_umax != want_max {
                bad.push((format!("design-max-not-plus-one{qual}"), format!("design max {} -> {n_dmax}, user max -> {n_umax}, want {want_max}", r.dmax)));
            }
            if d0 != r.ddef || n0 != 0.0 {
                bad.push((format!("zero-not-default{qual}"), format!("normalized 0 -> design {d0} (default {}), 0 -> user -> normalized {n0}", r.ddef)));
            }
        }
        Err(m) => bad.push((format!("panic:convert{qual}"), format!("conversion of an anchor panics: {m}"))),
    }

    // is the mapping more than the default normalisation? (then avar has real work to do)
    let ref_map: Vec<(f64, f64)> = def
        .nodes
        .iter()
        .map(|(u, d)| (Reference::fvar_norm(r.umin, r.udef, r.umax, *u), norm(*d, r.dmin, r.ddef, r.dmax)))
        .collect();
    let nontrivial = ref_map.iter().any(|(x, y)| (x - y).abs() > 1e-12);
    if nontrivial {
        cnt.nontrivial += 1;
    }
    let slope = ref_map
        .windows(2)
        .map(|w| (w[1].1 - w[0].1) / (w[1].0 - w[0].0))
        .fold(0.0f64, f64::max);
    cnt.max_slope = cnt.max_slope.max(slope);

    // avar and fvar from the real work items
    let mut inst = vec![r.umin, r.udef, r.umax];
    inst.push(samples[samples.len() / 2]);
    inst.dedup();
    match guarded(|| run_tables(def, &conv, &inst)) {
        Err(m) => bad.push((format!("panic:avar-fvar-work{qual}"), format!("building avar/fvar panics: {m}"))),
        Ok(Err(e)) => bad.push((format!("avar-fvar-work-error{qual}"), e)),
        Ok(Ok(t)) => {
            let fx = |v: f64| (v * 65536.0).round() / 65536.0;
            if t.fvar_axis != (fx(r.umin), fx(r.udef), fx(r.umax)) {
                bad.push(("fvar-bounds-mismatch".into(), format!("fvar axis record {:?}, source bounds ({}, {}, {})", t.fvar_axis, r.umin, r.udef, r.umax)));
            }
            if t.instances.len() != inst.len() {
                bad.push(("fvar-instance-count".into(), format!("{} instances given, {} in fvar", inst.len(), t.instances.len())));
            }
            for (got, want) in t.instances.iter().zip(&inst) {
                if !(t.fvar_axis.0..=t.fvar_axis.2).contains(got) {
                    bad.push(("instance-out-of-range".into(), format!("instance coordinate {got} outside [{}, {}]", t.fvar_axis.0, t.fvar_axis.2)));
                }
                if *got != fx(*want) {
                    bad.push(("instance-coordinate-mismatch".into(), format!("instance at user {want} has coordinate {got}")));
                }
            }
            let maps: Vec<(f64, f64)> = match &t.avar {
                Some(m) => m.clone(),
                None => {
                    cnt.avar_empty += 1;
                    vec![(-1.0, -1.0), (0.0, 0.0), (1.0, 1.0)]
                }
            };
            for req in [(-1.0, -1.0), (0.0, 0.0), (1.0, 1.0)] {
                if !maps.contains(&req) {
                    bad.push((format!("avar-missing-required-map{qual}"), format!("segment map {maps:?} lacks {}:{}", req.0, req.1)));
                    break;
                }
            }
            let from_ok = maps.windows(2).all(|w| w[0].0 < w[1].0);
            let to_ok = maps.windows(2).all(|w| w[0].1 <= w[1].1);
            if !from_ok {
                bad.push((format!("avar-from-not-increasing{qual}"), format!("segment map {maps:?}: fromCoordinate values are not strictly increasing")));
            }
            if !to_ok {
                bad.push((format!("avar-to-decreasing{qual}"), format!("segment map {maps:?}: toCoordinate values decrease")));
            }
            if maps.iter().any(|(a, b)| !(-1.0..=1.0).contains(a) || !(-1.0..=1.0).contains(b)) {
                bad.push((format!("avar-out-of-range{qual}"), format!("segment map {maps:?} leaves [-1, 1]")));
            }
            if from_ok {
                // S: the steepest segment of this instance's own normalized->normalized map
                let tol = (1.0 + slope) / 16384.0;
                let (fmin, fdef, fmax) = t.fvar_axis;
                for u in &samples {
                    cnt.avar_checked_points += 1;
                    let x = Reference::fvar_norm(fmin, fdef, fmax, *u);
                    let y = eval_segment_map(&maps, x);
                    let want = r.user_to_norm(def, *u);
                    let err = (y - want).abs();
                    cnt.max_avar_err_over_tol = cnt.max_avar_err_over_tol.max(err / tol);
                    if err > tol {
                        bad.push((
                            format!("avar-evaluation-mismatch{qual}"),
                            format!("user {u}: fvar-normalized {x}, avar {maps:?} gives {y}, source mapping gives {want} (tolerance {tol:.6}, steepest slope {slope:.3})"),
                        ));
                        break;
                    }
                }
            }
            if let Some(s) = sample {
                s.push(json!({"axis": def.describe(), "avar_segment_map": t.avar, "fvar": [t.fvar_axis.0, t.fvar_axis.1, t.fvar_axis.2],
                    "checked_users": samples.len(), "steepest_slope": slope, "verdict": if bad.is_empty() { "held" } else { "violated" }}));
            }
        }
    }
    // one finding per class per definition
    bad.sort();
    bad.dedup_by(|a, b| a.0 == b.0);
    bad
}

// ------------------------------------------------------------------ enumeration

fn combos(n: usize, k: usize) -> Vec<Vec<usize>> {
    fn rec(n: usize, k: usize, start: usize, cur: &mut Vec<usize>, out: &mut Vec<Vec<usize>>) {
        if cur.len() == k {
            out.push(cur.clone());
            return;
        }
        for i in start..n {
            cur.push(i);
            rec(n, k, i + 1, cur, out);
            cur.pop();
        }
    }
    let mut out = vec![];
    rec(n, k, 0, &mut vec![], &mut out);
    out
}

/// Non-decreasing index sequences of length k over 0..n.
fn multisets(n: usize, k: usize) -> Vec<Vec<usize>> {
    fn rec(n: usize, k: usize, start: usize, cur: &mut Vec<usize>, out: &mut Vec<Vec<usize>>) {
        if cur.len() == k {
            out.push(cur.clone());
            return;
        }
        for i in start..n {
            cur.push(i);
            rec(n, k, i, cur, out);
            cur.pop();
        }
    }
    let mut out = vec![];
    rec(n, k, 0, &mut vec![], &mut out);
    out
}

type Size = (usize, usize, u64);

#[derive(Default)]
struct Classes(BTreeMap<String, (u64, Size, String, Value)>);

impl Classes {
    fn add(&mut self, key: String, size: Size, what: String, replay: Value) {
        match self.0.get_mut(&key) {
            Some(e) => {
                e.0 += 1;
                if size < e.1 {
                    *e = (e.0, size, what, replay);
                }
            }
            None => {
                self.0.insert(key, (1, size, what, replay));
            }
        }
    }
    fn merge(&mut self, o: Classes) {
        for (k, (n, size, w, r)) in o.0 {
            match self.0.get_mut(&k) {
                Some(e) => {
                    e.0 += n;
                    if size < e.1 {
                        *e = (e.0, size, w, r);
                    }
                }
                None => {
                    self.0.insert(k, (n, size, w, r));
                }
            }
        }
    }
}

struct Stats {
    evaluations: u64,
    nontrivial: u64,
}

fn part_pure(rep: &mut Reporter, tier: Tier) -> Stats {
    // nodes = min, max, the default (if it is neither) and 0-3 further interior nodes
    let max_nodes = tier.pick(5, 6);
    let mut tasks: Vec<(usize, Vec<usize>)> = vec![];
    for k in 2..=max_nodes {
        for c in combos(USERS.len(), k) {
            tasks.push((k, c));
        }
    }
    let design_sets: Vec<Vec<Vec<usize>>> = (0..=max_nodes).map(|k| multisets(DESIGNS.len(), k)).collect();
    let results = vcore::par_for(tasks.len(), vcore::ncores(), |ti| {
        let (k, users) = &tasks[ti];
        let mut cnt = Counts::default();
        let mut cls = Classes::default();
        let mut samples: Vec<Value> = vec![];
        let mut seq = ti as u64 * 1_000_000;
        for ds in &design_sets[*k] {
            let nodes: Vec<(f64, f64)> = users.iter().zip(ds).map(|(u, d)| (USERS[*u], DESIGNS[*d])).collect();
            for default_idx in 0..*k {
                let others = k - 2 - (default_idx != 0 && default_idx != k - 1) as usize;
                if others > 3 {
                    continue;
                }
                seq += 1;
                let def = AxisDef { nodes: nodes.clone(), default_idx };
                let want_sample = samples.is_empty() && seq % 1000 == 617;
                let bad = check_def(&def, &mut cnt, if want_sample { Some(&mut samples) } else { None });
                for (key, msg) in bad {
                    let size: Size = (*k, def.flat_segments(), seq);
                    cls.add(key, size, format!("{}: {msg}", def.describe()), def.json());
                }
            }
        }
        (cnt, cls, samples)
    });
    let mut total = Counts::default();
    let mut cls = Classes::default();
    let mut samples = vec![];
    let n = results.len();
    for (i, (c, k, s)) in results.into_iter().enumerate() {
        total.add(&c);
        cls.merge(k);
        if samples.len() < 5 && (i == 0 || i == n / 3 || i == n / 2 || i == n - 1 || samples.is_empty()) {
            samples.extend(s.into_iter().take(1));
        }
    }
    let failing: BTreeMap<String, u64> = cls.0.iter().map(|(k, v)| (k.clone(), v.0)).collect();
    for (key, (n, _, what, replay)) in cls.0 {
        rep.violation(&key, &format!("{what} [{n} axis definition(s) in this class]"), replay);
    }
    rep.set("axis_definitions", total.defs);
    rep.set("rejected_by_api", total.rejected);
    rep.set("max_nodes", max_nodes);
    rep.set("user_alphabet", json!(USERS));
    rep.set("design_alphabet", json!(DESIGNS));
    rep.set("definitions_with_flat_segment", total.with_flat);
    rep.set("definitions_with_zero_design_extent", total.zero_design_extent);
    rep.set("default_at_min", total.default_at_min);
    rep.set("default_inside", total.default_inside);
    rep.set("default_at_max", total.default_at_max);
    rep.set("round_trips", total.round_trips);
    rep.set("avar_absent_identity", total.avar_empty);
    rep.set("avar_points_checked", total.avar_checked_points);
    rep.set("max_avar_error_over_tolerance", (total.max_avar_err_over_tol * 1000.0).round() / 1000.0);
    rep.set("steepest_slope_seen", (total.max_slope * 1000.0).round() / 1000.0);
    rep.set("failing_definitions_by_class", json!(failing));
    rep.set("samples", samples);
    rep.assume("part (i) only: one axis at a time; user nodes from {100,150.5,200,...,900}, design values from {20,40,...,200,90.5}; every node set of 2..max_nodes nodes with at most 3 nodes besides min, max and default; the default is a mapping node (the source front ends require it)");
    rep.assume("avar/fvar are produced by executing fontbe's real avar and fvar work items on a StaticMetadata that holds only this axis; the bytes of a compiled font are judged by the font-level part");
    rep.assume("avar(fvar_norm(u)) is evaluated in f64 on the F2Dot14 node values; tolerance 2^-14*(1+S), S = steepest slope of that definition's own map, derived from the quantisation of node abscissae and ordinates");
    rep.assume("oracle: piecewise-linear interpolation and the default-to-0 / min-to--1 / max-to-+1 normalisation written in the harness; float tolerance 1e-9 on conversions, 1e-7 on round trips; user->design->user is only required where the mapping is strictly increasing");
    Stats {
        evaluations: total.evaluations + total.avar_checked_points,
        nontrivial: total.nontrivial,
    }
}

// fn part_font(rep: &mut Reporter, tier: Tier) -> Stats { ... }   // (ii): added later

fn replay(path: &Path) -> ! {
    let bad = |m: &str| -> ! { vcore::machinery_error(&format!("replay {path:?}: {m}")) };
    let text = std::fs::read_to_string(path).unwrap_or_else(|e| bad(&e.to_string()));
    let v: Value = serde_json::from_str(&text).unwrap_or_else(|e| bad(&e.to_string()));
    let r = v.get("replay").unwrap_or(&v);
    let nodes: Vec<(f64, f64)> = r
        .get("nodes")
        .and_then(|x| x.as_array())
        .unwrap_or_else(|| bad("nodes"))
        .iter()
        .map(|p| (p[0].as_f64().unwrap_or(f64::NAN), p[1].as_f64().unwrap_or(f64::NAN)))
        .collect();
    let default_idx = r.get("default_idx").and_then(|x| x.as_u64()).unwrap_or_else(|| bad("default_idx")) as usize;
    if nodes.len() < 2
        || default_idx >= nodes.len()
        || !nodes.windows(2).all(|w| w[0].0 < w[1].0 && w[0].1 <= w[1].1)
    {
        bad("nodes must be >= 2, sorted by strictly increasing user value with non-decreasing design values");
    }
    std::panic::set_hook(Box::new(|_| {}));
    let def = AxisDef { nodes, default_idx };
    let mut cnt = Counts::default();
    let mut sample = vec![];
    let found = check_def(&def, &mut cnt, Some(&mut sample));
    println!("{}", def.describe());
    if let Some(s) = sample.first() {
        println!("{s}");
    }
    for (k, m) in &found {
        println!("{k}: {m}");
    }
    if let Some(k) = v.get("key").and_then(|k| k.as_str()) {
        println!("recorded class: {k}");
    }
    let fails = !found.is_empty();
    println!("replay: the case {}", if fails { "still fails" } else { "no longer fails" });
    std::process::exit(fails as i32)
}

fn main() {
    let args = vcore::parse_args();
    if let Some(p) = &args.replay {
        replay(p);
    }
    let mut rep = Reporter::new("C08", "exploration", &args);
    let hook = std::panic::take_hook();
    std::panic::set_hook(Box::new(|_| {}));
    let pure = part_pure(&mut rep, args.tier);
    std::panic::set_hook(hook);
    // let font = part_font(&mut rep, args.tier);
    rep.set("evaluations", pure.evaluations);
    rep.set("distinct_nontrivial", pure.nontrivial);
    rep.set("rule", "evaluations = user values converted through the real converter and compared with the reference (nodes, midpoints, quarter points of every segment) + user values pushed through fvar normalisation and the produced avar segment map. distinct_nontrivial = distinct axis definitions (distinct by construction) whose mapping is not the default normalisation, i.e. some node's design-normalized value differs from its fvar-normalized value, so avar has to bend the axis");
    rep.set("exhaustive", true);
    rep.set("parts_implemented", json!(["i: CoordConverter + avar/fvar work items"]));
    rep.finish()
}
