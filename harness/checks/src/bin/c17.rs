//! C17 — summary fields agree with the data they summarise.
//!
//! Bounded-exhaustive enumeration of small designs (dgen `Design` → UFO → `fcx::compile`), judged by an
//! oracle that is recomputed from the EMITTED tables only, with hand-written big-endian parsers for
//! sfnt / head / hhea / vhea / hmtx / vmtx / maxp / loca / glyf / cmap / post / OS/2 / GSUB / GPOS (the raw glyf
//! parse is cross-checked against read-fonts: a disagreement is a machinery error, never a violation).
//!
//! Enumerated space (see `layers`):
//!   full     every sequence of ≤ k glyphs over the full per-glyph product
//!            kind{E,S1,S2,Cp,Cn,Tp,Fp,Rp,K2} × lsb{−50,0,30} × advance{0,500,700}   (k = 2 quick, 3 thorough)
//!   curated  every sequence of ≤ k glyphs over 11 (thorough 15) hand-picked (kind,lsb,advance) options (k = 4 / 5)
//!   runs     every sequence of ≤ k glyphs over {E,S1} × advance{0,500,700}, with and without an own empty
//!            zero-width .notdef, first or last in public.glyphOrder (k = 5 / 6; with own .notdef 4 / 5) — trailing runs
//!   cmap     every subset of 7 codepoints × {ascending, descending, all on one glyph}
//!   ranges   first/last codepoint (and modelled outer neighbours) of 63 ulUnicodeRange blocks, alone / with U+0041
//!   vert     vertical metrics on: ≤ k glyphs over 8 options × height{none,500,1200} (k = 3 / 4)
//!   fea      20 feature programs × kerning.plist on/off (usMaxContext)
//!   var      2-master variable fonts over the curated options (k = 2 / 3)
//!   loca     glyf sizes stepping across the short/long loca boundary
//! Kinds: E empty; S1 one contour with an off-curve point beyond the on-curve extent; S2 two contours; S3 a cubic
//! blob (curated layers);
//! Cp/Cn component of the previous/next glyph (so composites of empties, of simples, nested composites
//! of any depth and composites that precede their base all occur); Tp scale 0.5; Fp flip x; Rp rotate 90°;
//! K2 two components. Sequences with a reference outside the sequence or a reference cycle are skipped
//! (cycles are C15's subject).

use dgen::{plist::Plist, Axis, Component, Contour, Design, Glyph, Layer, Pt, PtKind};
use serde::{Deserialize, Serialize};
use serde_json::{json, Value};
use std::collections::{BTreeMap, BTreeSet, HashSet};
use vcore::{Reporter, Tier};

// ================================================================ case model

#[derive(Clone, Copy, Debug, PartialEq, Eq, Hash, PartialOrd, Ord, Serialize, Deserialize)]
enum Kind {
    E,
    S1,
    S2,
    /// a cubic blob (converted to quadratics by the compiler; implied on-curve points)
    S3,
    Cp,
    Cn,
    Tp,
    Fp,
    Rp,
    K2,
}

#[derive(Clone, Debug, PartialEq, Serialize, Deserialize)]
struct G {
    kind: Kind,
    lsb: i32,
    adv: i32,
    #[serde(default)]
    height: Option<i32>,
    #[serde(default)]
    cps: Vec<u32>,
}

fn g(kind: Kind, lsb: i32, adv: i32) -> G {
    G { kind, lsb, adv, height: None, cps: vec![] }
}

#[derive(Clone, Debug, Default, Serialize, Deserialize)]
struct Case {
    layer: String,
    glyphs: Vec<G>,
    #[serde(default)]
    vertical: bool,
    #[serde(default)]
    fea: Option<String>,
    /// usMaxContext expected from the feature program alone (design-side cross-check)
    #[serde(default)]
    fea_expect: Option<u16>,
    #[serde(default)]
    kerning: bool,
    #[serde(default)]
    variable: bool,
    /// extra zig-zag glyphs with this many points each (loca layer)
    #[serde(default)]
    big: Vec<usize>,
    /// the source has its own empty zero-width .notdef
    #[serde(default)]
    own_notdef: bool,
    /// the last big glyph ends with this many points whose x delta fits one byte
    #[serde(default)]
    big_tail: usize,
    /// the own .notdef is the last entry of public.glyphOrder (the compiler moves it to glyph 0)
    #[serde(default)]
    notdef_last: bool,
}

fn s1(lsb: f64) -> Vec<Contour> {
    let p = |x: f64, y: f64, kind| Pt { x: lsb + x, y, kind };
    vec![Contour {
        points: vec![
            p(0.0, 0.0, PtKind::Line),
            p(201.0, 0.0, PtKind::Line),
            p(261.0, 151.0, PtKind::Off),
            p(201.0, 301.0, PtKind::QCurve),
            p(0.0, 301.0, PtKind::Line),
        ],
    }]
}

fn s2(lsb: f64) -> Vec<Contour> {
    vec![
        dgen::shapes::rect(lsb, -101.0, lsb + 151.0, 401.0),
        dgen::shapes::line_contour(&[(lsb + 300.0, 0.0), (lsb + 451.0, 0.0), (lsb + 375.0, 501.0)]),
    ]
}

fn zigzag(n: usize, tail: usize) -> Vec<Contour> {
    // every delta takes two bytes per axis, except the x deltas of the last `tail` points (one byte)
    let mut pts: Vec<Pt> = vec![];
    for i in 0..n {
        let x = if i + tail >= n && i > 0 {
            pts[i - 1].x + if i % 2 == 0 { -100.0 } else { 100.0 }
        } else if i % 2 == 0 {
            0.0
        } else {
            1000.0
        };
        pts.push(Pt { x, y: i as f64 + if i % 2 == 0 { 0.0 } else { 700.0 }, kind: PtKind::Line });
    }
    vec![Contour { points: pts }]
}

/// index of the glyph a composite kind refers to
fn base_of(i: usize, kind: Kind, n: usize) -> Option<Option<usize>> {
    match kind {
        Kind::E | Kind::S1 | Kind::S2 | Kind::S3 => Some(None),
        Kind::Cn => (i + 1 < n).then_some(Some(i + 1)),
        _ => (i > 0).then(|| Some(i - 1)),
    }
}

/// None: not a member of the space (dangling reference or reference cycle)
fn build_design(c: &Case) -> Option<Design> {
    let n = c.glyphs.len();
    let mut bases = vec![];
    for (i, gl) in c.glyphs.iter().enumerate() {
        bases.push(base_of(i, gl.kind, n)?);
    }
    // edges go to i±1 only, so the only possible cycle is i -> i+1 -> i
    for i in 0..n.saturating_sub(1) {
        if bases[i] == Some(i + 1) && bases[i + 1] == Some(i) {
            return None;
        }
    }
    let mut d = if c.variable {
        Design::skeleton(
            "C17",
            vec![Axis::new("wght", "Weight", 400.0, 400.0, 700.0)],
            vec![vec![400.0], vec![700.0]],
        )
    } else {
        Design::static_font("C17")
    };
    if c.vertical {
        for m in d.masters.iter_mut() {
            m.info.extra.push(("openTypeVheaVertTypoAscender".into(), Plist::Int(500)));
            m.info.extra.push(("openTypeVheaVertTypoDescender".into(), Plist::Int(-500)));
            m.info.extra.push(("openTypeVheaVertTypoLineGap".into(), Plist::Int(0)));
        }
    }
    let nm = d.masters.len();
    let mut order = vec![];
    if c.own_notdef {
        let mut gl = Glyph::new(".notdef", &[]);
        for m in 0..nm {
            gl.layers.insert(m, Layer::default());
        }
        d.glyphs.push(gl);
        order.push(".notdef".to_string());
    }
    for (i, spec) in c.glyphs.iter().enumerate() {
        let name = format!("g{i}");
        let mut gl = Glyph::new(&name, &spec.cps);
        for m in 0..nm {
            // the second master differs in bearing and advance; summary fields describe the default master
            let (dl, da) = if m == 0 { (0.0, 0.0) } else { (20.0, 100.0) };
            let lsb = spec.lsb as f64 + dl;
            let adv = if spec.adv == 0 { 0.0 } else { spec.adv as f64 + da };
            let mut layer = Layer {
                advance: adv,
                height: spec.height.map(|h| h as f64),
                ..Default::default()
            };
            let comp = |x: [f64; 6]| Component { base: format!("g{}", bases[i].unwrap()), xform: x };
            match spec.kind {
                Kind::E => {}
                Kind::S1 => layer.contours = s1(lsb),
                Kind::S2 => layer.contours = s2(lsb),
                Kind::S3 => layer.contours = vec![dgen::shapes::cubic_blob(lsb + 151.0, 120.0, 151.0)],
                Kind::Cp => layer.components = vec![comp([1.0, 0.0, 0.0, 1.0, lsb, 0.0])],
                Kind::Cn => layer.components = vec![comp([1.0, 0.0, 0.0, 1.0, lsb, -37.0])],
                Kind::Tp => layer.components = vec![comp([0.5, 0.0, 0.0, 0.5, lsb, 11.0])],
                Kind::Fp => layer.components = vec![comp([-1.0, 0.0, 0.0, 1.0, lsb, 0.0])],
                Kind::Rp => layer.components = vec![comp([0.0, 1.0, -1.0, 0.0, lsb, 0.0])],
                Kind::K2 => {
                    layer.components = vec![
                        comp([1.0, 0.0, 0.0, 1.0, lsb, 0.0]),
                        comp([0.5, 0.0, 0.0, 0.5, lsb + 400.0, 200.0]),
                    ]
                }
            }
            gl.layers.insert(m, layer);
        }
        d.glyphs.push(gl);
        order.push(name);
    }
    for (j, npts) in c.big.iter().enumerate() {
        let name = format!("big{j}");
        let mut gl = Glyph::new(&name, &[]);
        gl.layers.insert(0, Layer { advance: 1000.0, contours: zigzag(*npts, if j + 1 == c.big.len() { c.big_tail } else { 0 }), ..Default::default() });
        d.glyphs.push(gl);
        order.push(name);
    }
    if c.own_notdef && c.notdef_last {
        order.rotate_left(1);
    }
    d.glyph_order = Some(order);
    d.features_fea = c.fea.clone();
    if c.kerning && n >= 2 {
        for m in d.masters.iter_mut() {
            m.kerning.insert(("g0".into(), "g1".into()), -40.0);
        }
    }
    Some(d)
}

// ================================================================ layers of the enumeration

struct LayerDef {
    name: &'static str,
    n: u64,
    make: Box<dyn Fn(u64) -> Case + Sync + Send>,
}

const CP_POS: [u32; 6] = [0x41, 0x20, 0x3A9, 0x1F600, 0xFFFF, 0x386];

/// all sequences of length 1..=k over `opts`, shortest first
fn seq_layer(name: &'static str, opts: Vec<G>, k: usize, proto: Case) -> LayerDef {
    let b = opts.len() as u64;
    let mut n = 0u64;
    for len in 1..=k {
        n += b.pow(len as u32);
    }
    LayerDef {
        name,
        n,
        make: Box::new(move |mut idx: u64| {
            let mut len = 1;
            while idx >= b.pow(len as u32) {
                idx -= b.pow(len as u32);
                len += 1;
            }
            let mut glyphs = vec![];
            for i in 0..len {
                let mut gl = opts[(idx % b) as usize].clone();
                idx /= b;
                gl.cps = vec![CP_POS[i % CP_POS.len()]];
                glyphs.push(gl);
            }
            Case { layer: name.to_string(), glyphs, ..proto.clone() }
        }),
    }
}

const LSBS: [i32; 3] = [-50, 0, 30];
const ADVS: [i32; 3] = [0, 500, 700];
const CMAP_ALPHABET: [u32; 7] = [0x20, 0x41, 0x386, 0x3A9, 0x411, 0xFFFF, 0x1F600];

fn full_options() -> Vec<G> {
    let mut v = vec![];
    for a in ADVS {
        v.push(g(Kind::E, 0, a));
    }
    for k in [Kind::S1, Kind::S2, Kind::Cp, Kind::Cn, Kind::Tp, Kind::Fp, Kind::Rp, Kind::K2] {
        for l in LSBS {
            for a in ADVS {
                v.push(g(k, l, a));
            }
        }
    }
    v
}

fn curated_options() -> Vec<G> {
    vec![
        g(Kind::E, 0, 0),
        g(Kind::E, 0, 500),
        g(Kind::S1, 30, 500),
        g(Kind::S1, -50, 700),
        g(Kind::S2, 0, 500),
        g(Kind::S2, 30, 0),
        g(Kind::Cp, 0, 500),
        g(Kind::Cp, 30, 700),
        g(Kind::Cn, -50, 500),
        g(Kind::Tp, 30, 500),
        g(Kind::Fp, 0, 700),
        g(Kind::K2, 0, 500),
        g(Kind::Tp, -50, 0),
        g(Kind::Rp, 0, 700),
        g(Kind::S3, 30, 500),
    ]
}

fn curated_options_quick() -> Vec<G> {
    vec![
        g(Kind::E, 0, 500),
        g(Kind::S1, 30, 500),
        g(Kind::S1, -50, 700),
        g(Kind::S2, 30, 0),
        g(Kind::Cp, 0, 500),
        g(Kind::Cn, -50, 500),
        g(Kind::Tp, 30, 500),
        g(Kind::Fp, 0, 700),
        g(Kind::K2, 0, 500),
        g(Kind::Rp, 0, 700),
        g(Kind::S3, 30, 500),
    ]
}

fn curated_options_thorough() -> Vec<G> {
    curated_options()
}

struct FeaProg {
    id: &'static str,
    fea: &'static str,
    expect: u16,
}

fn fea_programs() -> Vec<FeaProg> {
    let p = |id, fea, expect| FeaProg { id, fea, expect };
    vec![
        p("none", "", 0),
        p("lig2", "feature liga { sub g0 g1 by g2; } liga;", 2),
        p("lig3", "feature liga { sub g0 g1 g2 by g3; } liga;", 3),
        p("lig4", "feature liga { sub g0 g1 g2 g0 by g3; } liga;", 4),
        p("lig5", "feature liga { sub g0 g1 g2 g0 g1 by g3; sub g0 g1 by g2; } liga;", 5),
        p("single", "feature tst1 { sub g0 by g1; } tst1;", 1),
        p("multiple", "feature tst1 { sub g0 by g1 g2; } tst1;", 1),
        p("alternate", "feature tst1 { sub g0 from [g1 g2]; } tst1;", 1),
        p("chain-1-1", "feature tst1 { sub g0' g1 by g2; } tst1;", 2),
        p("chain-1-2", "feature tst1 { sub g0' g1 g2 by g3; } tst1;", 3),
        p("chain-b1-2-2", "feature tst1 { sub g3 g0' g1' g2 g3 by g3; } tst1;", 4),
        p("chain-b2-1-0", "feature tst1 { sub g1 g2 g0' by g3; } tst1;", 1),
        p("ignore-1-3", "feature tst1 { ignore sub g0' g1 g2 g3; sub g0' g1 by g1; } tst1;", 4),
        p("rsub-1-2", "feature tst1 { rsub g0' g1 g2 by g3; } tst1;", 3),
        p("pos-single", "feature tst1 { pos g0 <10 0 10 0>; } tst1;", 1),
        p("pos-pair", "feature tst1 { pos g0 g1 -30; } tst1;", 2),
        p("pos-chain-1-2", "feature tst1 { pos g0' 20 g1 g2; } tst1;", 3),
        p("lig3+pair", "feature liga { sub g0 g1 g2 by g3; } liga; feature tst1 { pos g0 g1 -30; } tst1;", 3),
        p(
            "chain-lookup-3-2",
            "lookup L { sub g0 by g1; } L; feature tst1 { sub g0' lookup L g1' g2' g3 g0; } tst1;",
            5,
        ),
        p("chain-class-1-2", "feature tst1 { sub [g0 g1]' g2 g3 by g3; } tst1;", 3),
    ]
}

fn layers(tier: Tier) -> Vec<LayerDef> {
    let mut v = vec![];
    // (the small layers come first and the big sequence layers last, so that a time cap never starves them)
    // cmap: every subset of the codepoint alphabet
    {
        let nsub = 1u64 << CMAP_ALPHABET.len();
        v.push(LayerDef {
            name: "cmap",
            n: nsub * 3,
            make: Box::new(move |idx| {
                let (mask, mode) = (idx % nsub, idx / nsub);
                let mut cps: Vec<u32> = CMAP_ALPHABET
                    .iter()
                    .enumerate()
                    .filter(|(i, _)| mask >> i & 1 == 1)
                    .map(|(_, c)| *c)
                    .collect();
                if mode == 1 {
                    cps.reverse();
                }
                let mut glyphs = vec![g(Kind::S1, 30, 600)]; // an unencoded glyph
                if mode == 2 {
                    let mut gl = g(Kind::S1, 0, 500);
                    gl.cps = cps;
                    glyphs.push(gl);
                } else {
                    for (i, cp) in cps.iter().enumerate() {
                        let mut gl = g(if i % 2 == 0 { Kind::S1 } else { Kind::E }, 0, 400 + 100 * (i as i32 % 3));
                        gl.cps = vec![*cp];
                        glyphs.push(gl);
                    }
                }
                Case { layer: "cmap".into(), glyphs, ..Default::default() }
            }),
        });
    }
    // ranges: every boundary codepoint of the modelled ulUnicodeRange blocks, alone and with U+0041
    {
        let cps = range_boundary_codepoints();
        let n = cps.len() as u64;
        v.push(LayerDef {
            name: "ranges",
            n: n * 2,
            make: Box::new(move |idx| {
                let cp = cps[(idx % n) as usize];
                let mut glyphs = vec![G { cps: vec![cp], ..g(Kind::S1, 30, 600) }];
                if idx / n == 1 {
                    glyphs.push(G { cps: vec![0x41], ..g(Kind::S1, 0, 500) });
                }
                Case { layer: "ranges".into(), glyphs, ..Default::default() }
            }),
        });
    }
    // vertical metrics
    {
        let base = vec![
            g(Kind::E, 0, 500),
            g(Kind::S1, 30, 500),
            g(Kind::S2, -50, 700),
            g(Kind::Cp, 0, 500),
            g(Kind::Tp, 30, 0),
            g(Kind::Fp, 0, 700),
            g(Kind::Cn, -50, 500),
            g(Kind::K2, 0, 500),
        ];
        let base = &base[..tier.pick(5, 8)];
        let mut opts = vec![];
        for b in base {
            for h in [None, Some(500), Some(1200)] {
                opts.push(G { height: h, ..b.clone() });
            }
        }
        v.push(seq_layer("vert", opts, tier.pick(3, 4), Case { vertical: true, ..Default::default() }));
    }
    // feature programs
    {
        let progs = fea_programs();
        let n = progs.len() as u64;
        v.push(LayerDef {
            name: "fea",
            n: n * 2,
            make: Box::new(move |idx| {
                let p = &progs[(idx % n) as usize];
                let kerning = idx / n == 1;
                let mut glyphs = vec![];
                for i in 0..4 {
                    let mut gl = g(Kind::S1, LSBS[i % 3], 500 + 50 * i as i32);
                    gl.cps = vec![0x61 + i as u32];
                    glyphs.push(gl);
                }
                Case {
                    layer: format!("fea:{}", p.id),
                    glyphs,
                    fea: (!p.fea.is_empty()).then(|| p.fea.to_string()),
                    fea_expect: Some(if kerning { p.expect.max(2) } else { p.expect }),
                    kerning,
                    ..Default::default()
                }
            }),
        });
    }
    v.push(seq_layer(
        "var",
        curated_options(),
        tier.pick(2, 3),
        Case { variable: true, ..Default::default() },
    ));
    // runs: trailing equal-advance runs of every length, empties and outlines mixed, own .notdef or not
    let run_opts: Vec<G> = match tier {
        Tier::Quick => vec![g(Kind::E, 0, 0), g(Kind::S1, 30, 500), g(Kind::E, 0, 500), g(Kind::S1, -50, 700)],
        Tier::Thorough => ADVS
            .iter()
            .flat_map(|a| [g(Kind::E, 0, *a), g(Kind::S1, if *a == 700 { -50 } else { 30 }, *a)])
            .collect(),
    };
    v.push(seq_layer("runs", run_opts.clone(), tier.pick(5, 6), Case::default()));
    v.push(seq_layer(
        "runs-own-notdef",
        run_opts.clone(),
        tier.pick(4, 5),
        Case { own_notdef: true, ..Default::default() },
    ));
    v.push(seq_layer(
        "runs-own-notdef-last",
        run_opts,
        tier.pick(4, 5),
        Case { own_notdef: true, notdef_last: true, ..Default::default() },
    ));
    v.push(seq_layer("full", full_options(), tier.pick(2, 3), Case::default()));
    v.push(seq_layer(
        "curated",
        tier.pick(curated_options_quick(), curated_options_thorough()),
        tier.pick(4, 5),
        Case::default(),
    ));
    v
}

/// The loca layer is built at run time: three cheap probes give the glyf bytes per point and per glyph, from
/// which the number of points that puts the end of glyf at 0x20000 is predicted; the cases step across it.
fn loca_cases(tier: Tier) -> Result<Vec<Case>, &'static str> {
    let mk = |big: Vec<usize>| Case {
        layer: "loca".into(),
        glyphs: vec![G { cps: vec![0x41], ..g(Kind::S1, 30, 500) }],
        big,
        ..Default::default()
    };
    let size_of = |big: Vec<usize>| -> Option<f64> {
        let d = build_design(&mk(big))?;
        let sc = vcore::Scratch::new("c17loca");
        let p = d.write_single_ufo(sc.path()).ok()?;
        let b = fcx::compile(&p, &fcx::Opts::default(), None).ok()?;
        let f = Sfnt::parse(&b).ok()?;
        f.table("glyf").map(|t| t.len() as f64)
    };
    let (Some(a), Some(b), Some(c2)) = (size_of(vec![1024]), size_of(vec![2048]), size_of(vec![1024, 1024])) else {
        return Err("loca layer skipped: the big-glyph probe did not compile");
    };
    let per_pt = (b - a) / 1024.0;
    let per_glyph = c2 - a - 1024.0 * per_pt; // header + padding of one more glyph
    let base = a - per_glyph - 1024.0 * per_pt;
    if per_pt <= 0.0 {
        return Err("loca layer skipped: the probes do not grow with the point count");
    }
    const N: usize = 4;
    let each = 7000usize;
    let fixed = base + (N as f64 + 1.0) * per_glyph + (N * each) as f64 * per_pt;
    let target = (0x20000 as f64 - fixed) / per_pt;
    if !(100.0..20000.0).contains(&target) {
        return Err("loca layer skipped: predicted boundary out of reach");
    }
    let t = target.round() as i64;
    let mut v: Vec<Case> = vec![];
    for d in tier.pick(-3i64..=0, -6..=3) {
        let mut big = vec![each; N];
        big.push((t + d) as usize);
        v.push(mk(big));
    }
    if tier == Tier::Thorough {
        let mut far = vec![each; N];
        far.push((t + 3000) as usize);
        v.push(mk(far));
    }
    Ok(v)
}

// ================================================================ raw readers

fn u8at(b: &[u8], o: usize) -> Result<u8, String> {
    b.get(o).copied().ok_or_else(|| format!("read past end at {o}"))
}
fn u16at(b: &[u8], o: usize) -> Result<u16, String> {
    Ok(u16::from_be_bytes([u8at(b, o)?, u8at(b, o + 1)?]))
}
fn i16at(b: &[u8], o: usize) -> Result<i16, String> {
    Ok(u16at(b, o)? as i16)
}
fn u32at(b: &[u8], o: usize) -> Result<u32, String> {
    Ok((u16at(b, o)? as u32) << 16 | u16at(b, o + 2)? as u32)
}

struct Sfnt<'a> {
    tables: BTreeMap<String, &'a [u8]>,
}

impl<'a> Sfnt<'a> {
    fn parse(b: &'a [u8]) -> Result<Sfnt<'a>, String> {
        let n = u16at(b, 4)? as usize;
        let mut tables = BTreeMap::new();
        for i in 0..n {
            let r = 12 + 16 * i;
            let tag = String::from_utf8_lossy(b.get(r..r + 4).ok_or("directory")?).into_owned();
            let (off, len) = (u32at(b, r + 8)? as usize, u32at(b, r + 12)? as usize);
            tables.insert(tag, b.get(off..off + len).ok_or("table out of file")?);
        }
        Ok(Sfnt { tables })
    }
    fn table(&self, tag: &str) -> Option<&'a [u8]> {
        self.tables.get(tag).copied()
    }
    fn need(&self, tag: &str) -> Result<&'a [u8], String> {
        self.table(tag).ok_or_else(|| format!("no {tag} table"))
    }
}

#[derive(Debug, Clone)]
struct Comp {
    gid: usize,
    flags: u16,
    dx: f64,
    dy: f64,
    /// xx, yx, xy, yy in file order: x' = xx·x + xy·y + dx, y' = yx·x + yy·y + dy
    m: [f64; 4],
}

#[derive(Debug, Clone)]
enum GData {
    Empty,
    Simple { ncontours: usize, pts: Vec<(i32, i32)> },
    Composite { comps: Vec<Comp> },
}

#[derive(Debug, Clone)]
struct EGlyph {
    data: GData,
    /// xMin yMin xMax yMax of the glyph header
    bbox: [i32; 4],
}

fn f2dot14(v: i16) -> f64 {
    v as f64 / 16384.0
}

fn parse_glyph(d: &[u8]) -> Result<EGlyph, String> {
    if d.is_empty() {
        return Ok(EGlyph { data: GData::Empty, bbox: [0; 4] });
    }
    let nc = i16at(d, 0)?;
    let bbox = [i16at(d, 2)? as i32, i16at(d, 4)? as i32, i16at(d, 6)? as i32, i16at(d, 8)? as i32];
    if nc >= 0 {
        let nc = nc as usize;
        let mut o = 10;
        let mut npts = 0usize;
        for i in 0..nc {
            npts = u16at(d, o + 2 * i)? as usize + 1;
        }
        o += 2 * nc;
        let ilen = u16at(d, o)? as usize;
        o += 2 + ilen;
        let mut flags = Vec::with_capacity(npts);
        while flags.len() < npts {
            let f = u8at(d, o)?;
            o += 1;
            flags.push(f);
            if f & 0x08 != 0 {
                let r = u8at(d, o)?;
                o += 1;
                for _ in 0..r {
                    flags.push(f);
                }
            }
        }
        if flags.len() != npts {
            return Err("flag repeat overruns point count".into());
        }
        let mut xs = Vec::with_capacity(npts);
        let mut x = 0i32;
        for f in &flags {
            if f & 0x02 != 0 {
                let v = u8at(d, o)? as i32;
                o += 1;
                x += if f & 0x10 != 0 { v } else { -v };
            } else if f & 0x10 == 0 {
                x += i16at(d, o)? as i32;
                o += 2;
            }
            xs.push(x);
        }
        let mut pts = Vec::with_capacity(npts);
        let mut y = 0i32;
        for (i, f) in flags.iter().enumerate() {
            if f & 0x04 != 0 {
                let v = u8at(d, o)? as i32;
                o += 1;
                y += if f & 0x20 != 0 { v } else { -v };
            } else if f & 0x20 == 0 {
                y += i16at(d, o)? as i32;
                o += 2;
            }
            pts.push((xs[i], y));
        }
        Ok(EGlyph { data: GData::Simple { ncontours: nc, pts }, bbox })
    } else {
        let mut o = 10;
        let mut comps = vec![];
        loop {
            let flags = u16at(d, o)?;
            let gid = u16at(d, o + 2)? as usize;
            o += 4;
            if flags & 0x0002 == 0 {
                return Err("component anchored by points: outside this check's alphabet".into());
            }
            let (dx, dy) = if flags & 0x0001 != 0 {
                let r = (i16at(d, o)? as f64, i16at(d, o + 2)? as f64);
                o += 4;
                r
            } else {
                let r = (u8at(d, o)? as i8 as f64, u8at(d, o + 1)? as i8 as f64);
                o += 2;
                r
            };
            let mut m = [1.0, 0.0, 0.0, 1.0];
            if flags & 0x0008 != 0 {
                let s = f2dot14(i16at(d, o)?);
                o += 2;
                m = [s, 0.0, 0.0, s];
            } else if flags & 0x0040 != 0 {
                m = [f2dot14(i16at(d, o)?), 0.0, 0.0, f2dot14(i16at(d, o + 2)?)];
                o += 4;
            } else if flags & 0x0080 != 0 {
                m = [
                    f2dot14(i16at(d, o)?),
                    f2dot14(i16at(d, o + 2)?),
                    f2dot14(i16at(d, o + 4)?),
                    f2dot14(i16at(d, o + 6)?),
                ];
                o += 8;
            }
            if flags & 0x0800 != 0 && flags & 0x1000 == 0 {
                return Err("SCALED_COMPONENT_OFFSET: outside this check's alphabet".into());
            }
            comps.push(Comp { gid, flags, dx, dy, m });
            if flags & 0x0020 == 0 {
                break;
            }
        }
        Ok(EGlyph { data: GData::Composite { comps }, bbox })
    }
}

#[derive(Debug, Clone, Default)]
struct Resolved {
    pts: Vec<(f64, f64)>,
    npoints: u64,
    ncontours: u64,
    depth: u64,
}

/// The outline of a glyph through its component graph, per the glyf chapter: every point of the
/// component's (recursively resolved) outline is mapped by the 2×2 and then moved by the offset.
fn resolve(gid: usize, glyphs: &[EGlyph], guard: usize) -> Result<Resolved, String> {
    if guard > 16 {
        return Err("component nesting deeper than 16 (cycle?)".into());
    }
    let gl = glyphs.get(gid).ok_or_else(|| format!("component glyph id {gid} out of range"))?;
    match &gl.data {
        GData::Empty => Ok(Resolved::default()),
        GData::Simple { ncontours, pts } => Ok(Resolved {
            pts: pts.iter().map(|(x, y)| (*x as f64, *y as f64)).collect(),
            npoints: pts.len() as u64,
            ncontours: *ncontours as u64,
            depth: 0,
        }),
        GData::Composite { comps } => {
            let mut r = Resolved::default();
            for c in comps {
                let child = resolve(c.gid, glyphs, guard + 1)?;
                let [xx, yx, xy, yy] = c.m;
                r.pts
                    .extend(child.pts.iter().map(|(x, y)| (xx * x + xy * y + c.dx, yx * x + yy * y + c.dy)));
                r.npoints += child.npoints;
                r.ncontours += child.ncontours;
                r.depth = r.depth.max(child.depth + 1);
            }
            Ok(r)
        }
    }
}

/// (advance, bearing) per glyph per the hmtx/vmtx rule; Err on a length inconsistency
fn parse_metrics(t: &[u8], n_long: usize, n_glyphs: usize) -> Result<Vec<(i32, i32)>, String> {
    if n_long == 0 || n_long > n_glyphs {
        return Err(format!("number of long metrics {n_long} with {n_glyphs} glyphs"));
    }
    let want = 4 * n_long + 2 * (n_glyphs - n_long);
    if t.len() != want {
        return Err(format!("table length {} but {n_long} long metrics and {n_glyphs} glyphs need {want}", t.len()));
    }
    let mut v = vec![];
    for i in 0..n_glyphs {
        if i < n_long {
            v.push((u16at(t, 4 * i)? as i32, i16at(t, 4 * i + 2)? as i32));
        } else {
            v.push((u16at(t, 4 * (n_long - 1))? as i32, i16at(t, 4 * n_long + 2 * (i - n_long))? as i32));
        }
    }
    Ok(v)
}

/// codepoint -> glyph id (non-zero) over all Unicode subtables
fn parse_cmap(t: &[u8]) -> Result<BTreeMap<u32, u32>, String> {
    let mut map = BTreeMap::new();
    let n = u16at(t, 2)? as usize;
    for i in 0..n {
        let r = 4 + 8 * i;
        let (pid, eid, off) = (u16at(t, r)?, u16at(t, r + 2)?, u32at(t, r + 4)? as usize);
        if !(pid == 0 || (pid == 3 && (eid == 1 || eid == 10))) {
            continue;
        }
        let s = t.get(off..).ok_or("cmap subtable offset")?;
        match u16at(s, 0)? {
            4 => {
                let sc = u16at(s, 6)? as usize / 2;
                let (end, start) = (14, 16 + 2 * sc);
                let (delta, range) = (start + 2 * sc, start + 4 * sc);
                for k in 0..sc {
                    let (e, st) = (u16at(s, end + 2 * k)? as u32, u16at(s, start + 2 * k)? as u32);
                    let (dl, ro) = (u16at(s, delta + 2 * k)? as u32, u16at(s, range + 2 * k)? as usize);
                    if st > e {
                        return Err("cmap4 segment start > end".into());
                    }
                    for c in st..=e {
                        let gid = if ro == 0 {
                            (c + dl) & 0xFFFF
                        } else {
                            let a = range + 2 * k + ro + 2 * (c - st) as usize;
                            match u16at(s, a)? as u32 {
                                0 => 0,
                                v => (v + dl) & 0xFFFF,
                            }
                        };
                        if gid != 0 {
                            if let Some(prev) = map.insert(c, gid) {
                                if prev != gid {
                                    return Err(format!("cmap subtables disagree at U+{c:04X}"));
                                }
                            }
                        }
                    }
                }
            }
            12 => {
                let ng = u32at(s, 12)? as usize;
                for k in 0..ng {
                    let o = 16 + 12 * k;
                    let (st, e, g0) = (u32at(s, o)?, u32at(s, o + 4)?, u32at(s, o + 8)?);
                    if st > e || e - st > 0x20000 {
                        return Err("cmap12 group".into());
                    }
                    for c in st..=e {
                        let gid = g0 + (c - st);
                        if gid != 0 {
                            if let Some(prev) = map.insert(c, gid) {
                                if prev != gid {
                                    return Err(format!("cmap subtables disagree at U+{c:04X}"));
                                }
                            }
                        }
                    }
                }
            }
            f => return Err(format!("cmap subtable format {f} not handled")),
        }
    }
    Ok(map)
}

/// glyph names of a version 2 post table
fn parse_post(t: &[u8]) -> Result<Vec<String>, String> {
    if u32at(t, 0)? != 0x00020000 {
        return Err("post version is not 2.0".into());
    }
    let n = u16at(t, 32)? as usize;
    let mut strings = vec![];
    let mut o = 34 + 2 * n;
    while o < t.len() {
        let l = u8at(t, o)? as usize;
        strings.push(String::from_utf8_lossy(t.get(o + 1..o + 1 + l).ok_or("post string")?).into_owned());
        o += 1 + l;
    }
    let mut names = vec![];
    for i in 0..n {
        let idx = u16at(t, 34 + 2 * i)? as usize;
        names.push(if idx == 0 {
            ".notdef".to_string()
        } else if idx < 258 {
            format!("<mac {idx}>")
        } else {
            strings.get(idx - 258).cloned().ok_or("post name index")?
        });
    }
    Ok(names)
}

// ---------------------------------------------------------------- usMaxContext: own walk of the lookup lists

/// Length of the longest target context of one subtable: input glyphs + lookahead glyphs (OS/2 usMaxContext:
/// "for chaining contextual lookups, the length of the string (covered glyph) plus (lookahead) should be
/// considered"; pair kerning 2; a ligature of n components n). Backtrack does not count.
fn subtable_context(t: &[u8], so: usize, ty: u16, gpos: bool, unspecified: &mut u64) -> Result<u16, String> {
    let rules = |sets_at: usize, sets_off: usize, f: &dyn Fn(usize) -> Result<u16, String>| -> Result<u16, String> {
        // list of (nullable) offsets to sets, each a list of offsets to rules
        let mut m = 0;
        for i in 0..u16at(t, so + sets_at)? as usize {
            let s = u16at(t, so + sets_off + 2 * i)? as usize;
            if s == 0 {
                continue;
            }
            let set = so + s;
            for j in 0..u16at(t, set)? as usize {
                m = m.max(f(set + u16at(t, set + 2 + 2 * j)? as usize)?);
            }
        }
        Ok(m)
    };
    let seq_rule = |r: usize| u16at(t, r);
    let chain_rule = |r: usize| -> Result<u16, String> {
        let b = u16at(t, r)? as usize;
        let i = u16at(t, r + 2 + 2 * b)? as usize;
        if i == 0 {
            return Err("chain rule with inputCount 0".into());
        }
        let l = u16at(t, r + 4 + 2 * b + 2 * (i - 1))? as usize;
        Ok((i + l) as u16)
    };
    let context = |unspecified: &mut u64| -> Result<u16, String> {
        let _ = unspecified;
        match u16at(t, so)? {
            1 => rules(4, 6, &seq_rule),
            2 => rules(6, 8, &seq_rule),
            3 => u16at(t, so + 2),
            f => Err(format!("context format {f}")),
        }
    };
    let chain = || -> Result<u16, String> {
        match u16at(t, so)? {
            1 => rules(4, 6, &chain_rule),
            2 => rules(10, 12, &chain_rule),
            3 => {
                let b = u16at(t, so + 2)? as usize;
                let i = u16at(t, so + 4 + 2 * b)? as usize;
                let l = u16at(t, so + 6 + 2 * b + 2 * i)? as usize;
                Ok((i + l) as u16)
            }
            f => Err(format!("chain context format {f}")),
        }
    };
    match (gpos, ty) {
        (false, 7) | (true, 9) => {
            let ety = u16at(t, so + 2)?;
            let eo = u32at(t, so + 4)? as usize;
            if ety == ty {
                return Err("extension of extension".into());
            }
            subtable_context(t, so + eo, ety, gpos, unspecified)
        }
        (false, 1 | 2 | 3) | (true, 1) => Ok(1),
        (true, 2) => Ok(2),
        (false, 4) => rules(4, 6, &|lig| u16at(t, lig + 2)),
        (false, 5) | (true, 7) => context(unspecified),
        (false, 6) | (true, 8) => chain(),
        (false, 8) => {
            let b = u16at(t, so + 4)? as usize;
            let l = u16at(t, so + 6 + 2 * b)?;
            Ok(1 + l)
        }
        (true, 3..=6) => {
            // cursive / mark attachment: the OS/2 text does not say what their context length is
            *unspecified += 1;
            Ok(0)
        }
        _ => Err(format!("lookup type {ty}")),
    }
}

fn table_context(t: &[u8], gpos: bool, unspecified: &mut u64, lookups: &mut u64) -> Result<u16, String> {
    let ll = u16at(t, 8)? as usize;
    let mut m = 0;
    for i in 0..u16at(t, ll)? as usize {
        let lo = ll + u16at(t, ll + 2 + 2 * i)? as usize;
        let ty = u16at(t, lo)?;
        *lookups += 1;
        for s in 0..u16at(t, lo + 4)? as usize {
            let so = lo + u16at(t, lo + 6 + 2 * s)? as usize;
            m = m.max(subtable_context(t, so, ty, gpos, unspecified)?);
        }
    }
    Ok(m)
}

// ---------------------------------------------------------------- OS/2 range rules (from the spec / fontTools docs)

/// The part of the OS/2 "ulUnicodeRange" table this check models (written from the OS/2 chapter; blocks that
/// are not listed here make a font "unmodelled" for this assertion, they are never guessed).
const UNICODE_RANGES: &[(u32, u32, u32)] = &[
    (0x0000, 0x007F, 0),     // Basic Latin
    (0x0080, 0x00FF, 1),     // Latin-1 Supplement
    (0x0100, 0x017F, 2),     // Latin Extended-A
    (0x0180, 0x024F, 3),     // Latin Extended-B
    (0x0250, 0x02AF, 4),     // IPA Extensions
    (0x1D00, 0x1D7F, 4),     // Phonetic Extensions
    (0x1D80, 0x1DBF, 4),     // Phonetic Extensions Supplement
    (0x02B0, 0x02FF, 5),     // Spacing Modifier Letters
    (0xA700, 0xA71F, 5),     // Modifier Tone Letters
    (0x0300, 0x036F, 6),     // Combining Diacritical Marks
    (0x1DC0, 0x1DFF, 6),     // Combining Diacritical Marks Supplement
    (0x0370, 0x03FF, 7),     // Greek and Coptic
    (0x2C80, 0x2CFF, 8),     // Coptic
    (0x0400, 0x04FF, 9),     // Cyrillic
    (0x0500, 0x052F, 9),     // Cyrillic Supplement
    (0x2DE0, 0x2DFF, 9),     // Cyrillic Extended-A
    (0xA640, 0xA69F, 9),     // Cyrillic Extended-B
    (0x0530, 0x058F, 10),    // Armenian
    (0x0590, 0x05FF, 11),    // Hebrew
    (0xA500, 0xA63F, 12),    // Vai
    (0x0600, 0x06FF, 13),    // Arabic
    (0x0750, 0x077F, 13),    // Arabic Supplement
    (0x07C0, 0x07FF, 14),    // NKo
    (0x0900, 0x097F, 15),    // Devanagari
    (0x0E00, 0x0E7F, 24),    // Thai
    (0x1E00, 0x1EFF, 29),    // Latin Extended Additional
    (0x2C60, 0x2C7F, 29),    // Latin Extended-C
    (0xA720, 0xA7FF, 29),    // Latin Extended-D
    (0x1F00, 0x1FFF, 30),    // Greek Extended
    (0x2000, 0x206F, 31),    // General Punctuation
    (0x2E00, 0x2E7F, 31),    // Supplemental Punctuation
    (0x2070, 0x209F, 32),    // Superscripts And Subscripts
    (0x20A0, 0x20CF, 33),    // Currency Symbols
    (0x20D0, 0x20FF, 34),    // Combining Diacritical Marks For Symbols
    (0x2100, 0x214F, 35),    // Letterlike Symbols
    (0x2150, 0x218F, 36),    // Number Forms
    (0x2190, 0x21FF, 37),    // Arrows
    (0x2200, 0x22FF, 38),    // Mathematical Operators
    (0x2300, 0x23FF, 39),    // Miscellaneous Technical
    (0x2500, 0x257F, 43),    // Box Drawing
    (0x2580, 0x259F, 44),    // Block Elements
    (0x25A0, 0x25FF, 45),    // Geometric Shapes
    (0x2600, 0x26FF, 46),    // Miscellaneous Symbols
    (0x2700, 0x27BF, 47),    // Dingbats
    (0x3000, 0x303F, 48),    // CJK Symbols And Punctuation
    (0x3040, 0x309F, 49),    // Hiragana
    (0x30A0, 0x30FF, 50),    // Katakana
    (0x31F0, 0x31FF, 50),    // Katakana Phonetic Extensions
    (0xAC00, 0xD7AF, 56),    // Hangul Syllables
    (0x4E00, 0x9FFF, 59),    // CJK Unified Ideographs
    (0xE000, 0xF8FF, 60),    // Private Use Area (plane 0)
    (0xFB00, 0xFB4F, 62),    // Alphabetic Presentation Forms
    (0xFB50, 0xFDFF, 63),    // Arabic Presentation Forms-A
    (0xFE70, 0xFEFF, 67),    // Arabic Presentation Forms-B
    (0xFF00, 0xFFEF, 68),    // Halfwidth And Fullwidth Forms
    (0xFFF0, 0xFFFF, 69),    // Specials
    (0x10330, 0x1034F, 86),  // Gothic
    (0x1D400, 0x1D7FF, 89),  // Mathematical Alphanumeric Symbols
    (0xF0000, 0xFFFFD, 90),  // Private Use (plane 15)
    (0x100000, 0x10FFFD, 90), // Private Use (plane 16)
    (0xE0000, 0xE007F, 92),  // Tags
    (0x1F000, 0x1F02F, 122), // Mahjong Tiles
    (0x1F030, 0x1F09F, 122), // Domino Tiles
];
/// codepoints that are in no block of the OS/2 list (Emoticons; the gap between Kangxi Radicals and
/// Ideographic Description Characters)
const NO_RANGE: &[(u32, u32)] = &[(0x1F600, 0x1F64F), (0x2FE0, 0x2FEF)];

/// Bits of ulUnicodeRange a codepoint calls for; None when the codepoint's block is not modelled.
/// Bit 57 ("Non-Plane 0 — at least one codepoint beyond the BMP") for every supplementary codepoint.
fn unicode_range_bits(cp: u32) -> Option<Vec<u32>> {
    let mut v = vec![];
    if let Some((_, _, bit)) = UNICODE_RANGES.iter().find(|(lo, hi, _)| (*lo..=*hi).contains(&cp)) {
        v.push(*bit);
    } else if !NO_RANGE.iter().any(|(lo, hi)| (*lo..=*hi).contains(&cp)) {
        return None;
    }
    if cp >= 0x10000 {
        v.push(57);
    }
    Some(v)
}

/// first and last codepoint of every modelled block, and their outer neighbours where those are modelled too
fn range_boundary_codepoints() -> Vec<u32> {
    let mut s = BTreeSet::new();
    for (lo, hi, _) in UNICODE_RANGES {
        for c in [*lo, *hi, lo.wrapping_sub(1), hi + 1] {
            let scalar = c >= 0x20 && c <= 0x10FFFF && !(0xD800..=0xDFFF).contains(&c);
            if scalar && unicode_range_bits(c).is_some() {
                s.insert(c);
            }
        }
    }
    for (lo, hi) in NO_RANGE {
        s.insert(*lo);
        s.insert(*hi);
    }
    s.into_iter().collect()
}

/// fontTools/ufo2ft `calcCodePageRanges` restricted to alphabets that never contain the whole of
/// U+0020..U+007D (so every rule guarded by `hasAscii` is off) and no line-art character: the only rules that
/// can fire are Cyrillic (bit 2) on U+0411 'Б', Greek (bit 3) on U+0386 'Ά', Hebrew (5) on U+05D0, Arabic (6)
/// on U+0631, Thai (16) on U+0E45, and the CJK ones; with none, the documented fallback is bit 0 (Latin 1).
fn codepage_bits(cps: &BTreeSet<u32>) -> Option<BTreeSet<u32>> {
    if (0x20u32..0x7E).all(|c| cps.contains(&c)) || cps.contains(&0x2524) {
        return None; // outside the restricted rule
    }
    let mut b = BTreeSet::new();
    for (cp, bit) in [
        (0x0411, 2),
        (0x0386, 3),
        (0x05D0, 5),
        (0x0631, 6),
        (0x0E45, 16),
        (0x30A8, 17),
        (0x3105, 18),
        (0x3131, 19),
        (0x592E, 20),
        (0xACF4, 21),
    ] {
        if cps.contains(&cp) {
            b.insert(bit);
        }
    }
    if cps.contains(&0x221A) || cps.contains(&0x00BD) || cps.contains(&0x0405) || cps.contains(&0x255C) {
        return None; // secondary OEM rules: not modelled
    }
    if b.is_empty() {
        b.insert(0);
    }
    Some(b)
}

// ================================================================ the oracle

#[derive(Default)]
struct Facts {
    compiled: bool,
    hash: u64,
    nontrivial: bool,
    nested: bool,
    transformed: bool,
    composite: bool,
    degenerate_composite: bool,
    use_my_metrics: bool,
    trailing_run: bool,
    non_bmp: bool,
    negative_lsb: bool,
    vhea: bool,
    vert_trailing_run: bool,
    long_loca: bool,
    max_context: Option<u16>,
    lookups: u64,
    half_unit_bbox: bool,
    max_depth: u64,
    n_glyphs: usize,
    glyf_len: usize,
    summary: Value,
}

struct Outcome {
    facts: Facts,
    viol: Vec<(String, String)>,
    /// not a verdict: compile failure or a construct outside what the oracle models
    skipped: Option<String>,
    /// the harness itself is wrong
    machinery: Option<String>,
}

thread_local! {
    /// one scratch directory per worker thread, reused for plain static cases (stale .glif files are not
    /// listed in contents.plist and so are invisible; optional files are removed before each write)
    static TDIR: vcore::Scratch = vcore::Scratch::new("c17t");
}

fn run_case(c: &Case) -> Option<Outcome> {
    let d = build_design(c)?;
    let fresh;
    let dir: std::path::PathBuf = if c.variable {
        fresh = Some(vcore::Scratch::new("c17"));
        fresh.as_ref().unwrap().path().to_path_buf()
    } else {
        fresh = None;
        let p = TDIR.with(|t| t.path().to_path_buf());
        for f in ["features.fea", "kerning.plist", "groups.plist"] {
            let _ = std::fs::remove_file(p.join("font.ufo").join(f));
        }
        p
    };
    let path = if c.variable { d.write_designspace(&dir) } else { d.write_single_ufo(&dir) };
    let path = match path {
        Ok(p) => p,
        Err(e) => {
            return Some(Outcome {
                facts: Facts::default(),
                viol: vec![],
                skipped: None,
                machinery: Some(format!("cannot write source: {e}")),
            });
        }
    };
    let bytes = match fcx::compile(&path, &fcx::Opts::default(), None) {
        Ok(b) => b,
        Err(e) => {
            return Some(Outcome {
                facts: Facts::default(),
                viol: vec![],
                skipped: Some(format!("compile failed: {e:?}")),
                machinery: None,
            });
        }
    };
    drop(fresh);
    Some(judge(c, &d, &bytes))
}

fn judge(c: &Case, d: &Design, bytes: &[u8]) -> Outcome {
    let mut facts = Facts { compiled: true, hash: vcore::hash64(bytes), ..Default::default() };
    let mut viol: Vec<(String, String)> = vec![];
    match judge_inner(c, d, bytes, &mut facts, &mut viol) {
        Ok(()) => Outcome { facts, viol, skipped: None, machinery: None },
        Err(J::Skip(s)) => Outcome { facts, viol: vec![], skipped: Some(s), machinery: None },
        Err(J::Machinery(s)) => Outcome { facts, viol: vec![], skipped: None, machinery: Some(s) },
        // a table the readers cannot walk is reported under its own key: the summary cannot agree with it
        Err(J::Malformed(s)) => {
            viol.push((format!("unreadable:{}", s.split(':').next().unwrap_or("")), s));
            Outcome { facts, viol, skipped: None, machinery: None }
        }
    }
}

enum J {
    Skip(String),
    Machinery(String),
    Malformed(String),
}

fn mal<T>(what: &str, r: Result<T, String>) -> Result<T, J> {
    r.map_err(|e| J::Malformed(format!("{what}: {e}")))
}

/// min / max helpers over an iterator of i64
fn mn(it: impl Iterator<Item = i64>) -> Option<i64> {
    it.min()
}
fn mx(it: impl Iterator<Item = i64>) -> Option<i64> {
    it.max()
}

fn judge_inner(
    c: &Case,
    d: &Design,
    bytes: &[u8],
    facts: &mut Facts,
    viol: &mut Vec<(String, String)>,
) -> Result<(), J> {
    let mut bad = |key: String, what: String| viol.push((key, what));
    let f = mal("sfnt", Sfnt::parse(bytes))?;
    let head = mal("head", f.need("head"))?;
    let hhea = mal("hhea", f.need("hhea"))?;
    let maxp = mal("maxp", f.need("maxp"))?;
    let hmtx = mal("hmtx", f.need("hmtx"))?;
    let loca = mal("loca", f.need("loca"))?;
    let glyf = mal("glyf", f.need("glyf"))?;
    let os2 = mal("OS/2", f.need("OS/2"))?;
    let post = mal("post", f.need("post"))?;

    // ---- maxp / loca / glyf
    if mal("maxp", u32at(maxp, 0))? != 0x00010000 {
        return Err(J::Malformed("maxp: version is not 1.0 in a glyf font".into()));
    }
    let n_glyphs = mal("maxp", u16at(maxp, 4))? as usize;
    facts.n_glyphs = n_glyphs;
    let loc_format = mal("head", i16at(head, 50))?;
    let offs: Vec<usize> = match loc_format {
        0 => {
            if loca.len() != 2 * (n_glyphs + 1) {
                bad(
                    "loca:length".into(),
                    format!("short loca has {} bytes for {n_glyphs} glyphs", loca.len()),
                );
                return Ok(());
            }
            (0..=n_glyphs).map(|i| u16at(loca, 2 * i).map(|v| v as usize * 2)).collect::<Result<_, _>>()
        }
        1 => {
            if loca.len() != 4 * (n_glyphs + 1) {
                bad(
                    "loca:length".into(),
                    format!("long loca has {} bytes for {n_glyphs} glyphs", loca.len()),
                );
                return Ok(());
            }
            (0..=n_glyphs).map(|i| u32at(loca, 4 * i).map(|v| v as usize)).collect::<Result<_, _>>()
        }
        v => {
            bad("head:indexToLocFormat".into(), format!("indexToLocFormat = {v}"));
            return Ok(());
        }
    }
    .map_err(J::Malformed)?;
    if offs.windows(2).any(|w| w[0] > w[1]) {
        bad("loca:not-monotone".into(), format!("offsets {offs:?}"));
        return Ok(());
    }
    let last = *offs.last().unwrap();
    if last > glyf.len() || glyf.len() - last >= 4 {
        bad(
            "loca:end-vs-glyf-length".into(),
            format!("last loca offset {last} but glyf has {} bytes", glyf.len()),
        );
        return Ok(());
    }
    facts.glyf_len = glyf.len();
    facts.long_loca = loc_format == 1;
    // policy (write-fonts `LocaFormat::new`, as fontTools): short whenever every offset is even and the last
    // one is below 0x20000. Asserted both ways: short => representable holds by construction of the reader,
    // long => not representable.
    let representable = last < 0x20000 && offs.iter().all(|o| o % 2 == 0);
    if loc_format == 1 && representable {
        bad(
            "loca:long-format-for-short-glyf".into(),
            format!("indexToLocFormat 1 but all offsets are even and the last is {last} < 0x20000"),
        );
    }

    let mut glyphs: Vec<EGlyph> = vec![];
    for i in 0..n_glyphs {
        glyphs.push(mal("glyf", parse_glyph(&glyf[offs[i]..offs[i + 1]]).map_err(|e| format!("glyph {i}: {e}")))?);
    }
    // cross-check of the raw glyf reader against read-fonts (machinery guard)
    cross_check_glyf(bytes, &glyphs).map_err(J::Machinery)?;

    let mut resolved: Vec<Resolved> = vec![];
    for i in 0..n_glyphs {
        resolved.push(mal("glyf", resolve(i, &glyphs, 0))?);
    }

    // ---- per-glyph header boxes
    let mut degenerate = vec![false; n_glyphs];
    for (i, gl) in glyphs.iter().enumerate() {
        match &gl.data {
            GData::Empty => {}
            GData::Simple { pts, .. } => {
                if pts.is_empty() {
                    degenerate[i] = true;
                    continue;
                }
                // glyf: "xMin: minimum x for coordinate data" — all points, on- and off-curve
                let want = [
                    pts.iter().map(|p| p.0).min().unwrap(),
                    pts.iter().map(|p| p.1).min().unwrap(),
                    pts.iter().map(|p| p.0).max().unwrap(),
                    pts.iter().map(|p| p.1).max().unwrap(),
                ];
                if gl.bbox != want {
                    bad(
                        "glyph-bbox:simple".into(),
                        format!("glyph {i}: header box {:?}, points span {want:?}", gl.bbox),
                    );
                }
            }
            GData::Composite { comps } => {
                facts.composite = true;
                let r = &resolved[i];
                if comps.iter().any(|c| c.m != [1.0, 0.0, 0.0, 1.0]) {
                    facts.transformed = true;
                }
                if comps.iter().any(|c| c.flags & 0x0200 != 0) {
                    facts.use_my_metrics = true;
                }
                if r.depth >= 2 {
                    facts.nested = true;
                }
                facts.max_depth = facts.max_depth.max(r.depth);
                if r.pts.is_empty() {
                    // a composite that resolves to no points: neither the spec nor the property says what its
                    // box is or whether it takes part in the font-wide summaries
                    degenerate[i] = true;
                    facts.degenerate_composite = true;
                    continue;
                }
                let exact = [
                    r.pts.iter().map(|p| p.0).fold(f64::INFINITY, f64::min),
                    r.pts.iter().map(|p| p.1).fold(f64::INFINITY, f64::min),
                    r.pts.iter().map(|p| p.0).fold(f64::NEG_INFINITY, f64::max),
                    r.pts.iter().map(|p| p.1).fold(f64::NEG_INFINITY, f64::max),
                ];
                // Tolerance. The transformed coordinates are exact in f64 here (F2Dot14 factors with few bits,
                // integer coordinates). The spec does not say how a fractional extreme becomes the int16 of the
                // header: rounding to nearest (either tie rule), flooring the minima / ceiling the maxima
                // ("covers"), or rounding every point per nesting level (what a rasteriser working in font
                // units does: error ≤ 0.5·Σ 2^-k < 1 for this alphabet's factors of magnitude ≤ 1) all yield
                // an integer strictly within one unit of the exact extreme. So: |header − exact| < 1, which is
                // equality whenever the exact extreme is an integer.
                for k in 0..4 {
                    if exact[k].fract() != 0.0 {
                        facts.half_unit_bbox = true;
                    }
                    if (gl.bbox[k] as f64 - exact[k]).abs() >= 1.0 {
                        let shape = if r.depth >= 2 { "nested" } else { "flat" };
                        let xf = if comps.iter().any(|c| c.m != [1.0, 0.0, 0.0, 1.0]) { "transformed" } else { "offset-only" };
                        bad(
                            format!("glyph-bbox:composite:{shape}:{xf}"),
                            format!(
                                "glyph {i}: header box {:?}, resolved outline spans {exact:?} (components {:?})",
                                gl.bbox, comps
                            ),
                        );
                        break;
                    }
                }
            }
        }
    }

    // Font-wide summaries are asserted for both readings of "glyphs with contours" when a degenerate
    // composite is present: with it (its header box as emitted) and without it.
    let outline_sets: Vec<Vec<usize>> = {
        let all: Vec<usize> = (0..n_glyphs).filter(|i| !matches!(glyphs[*i].data, GData::Empty)).collect();
        let strict: Vec<usize> = all.iter().copied().filter(|i| !degenerate[*i]).collect();
        if strict.len() == all.len() { vec![all] } else { vec![all, strict] }
    };
    let accept = |got: i64, f: &dyn Fn(&[usize]) -> Option<i64>| -> (bool, Vec<Option<i64>>) {
        let wants: Vec<Option<i64>> = outline_sets.iter().map(|s| f(s)).collect();
        // with no glyph with contours the value is not fixed by the property
        (wants.iter().any(|w| w.is_none() || *w == Some(got)), wants)
    };

    // ---- head box
    let hb = [
        mal("head", i16at(head, 36))? as i64,
        mal("head", i16at(head, 38))? as i64,
        mal("head", i16at(head, 40))? as i64,
        mal("head", i16at(head, 42))? as i64,
    ];
    for (k, name) in ["xMin", "yMin", "xMax", "yMax"].iter().enumerate() {
        let (ok, wants) = accept(hb[k], &|s: &[usize]| {
            let it = s.iter().map(|i| glyphs[*i].bbox[k] as i64);
            if k < 2 { mn(it) } else { mx(it) }
        });
        if !ok {
            bad(
                format!("head:{name}"),
                format!("head.{name} = {} but the glyph boxes give {wants:?}", hb[k]),
            );
        }
    }

    // ---- hmtx / hhea
    let n_long = mal("hhea", u16at(hhea, 34))? as usize;
    let hm = match parse_metrics(hmtx, n_long, n_glyphs) {
        Ok(v) => v,
        Err(e) => {
            bad("hmtx:length-vs-numberOfHMetrics".into(), e);
            return Ok(());
        }
    };
    if n_long >= 2 && hm[n_long - 1].0 == hm[n_long - 2].0 {
        bad(
            "hhea:numberOfHMetrics-not-minimal".into(),
            format!(
                "numberOfHMetrics {n_long} of {n_glyphs}, advances {:?}: the last two long metrics have the same advance",
                hm.iter().map(|m| m.0).collect::<Vec<_>>()
            ),
        );
    }
    facts.trailing_run = n_long < n_glyphs;
    facts.negative_lsb = hm.iter().any(|m| m.1 < 0);
    // design side: which advance each glyph was given (guards the case "too few long metrics", which is
    // self-consistent when looked at from the emitted tables alone)
    let names = mal("post", parse_post(post))?;
    if names.len() != n_glyphs {
        bad("post:numGlyphs".into(), format!("post has {} names, maxp {n_glyphs} glyphs", names.len()));
    } else {
        for (gid, name) in names.iter().enumerate() {
            if let Some(dg) = d.glyph(name) {
                if let Some(l) = dg.layers.get(&d.default_master) {
                    if hm[gid].0 as f64 != l.advance {
                        bad(
                            "hmtx:advance-differs-from-source".into(),
                            format!(
                                "glyph {gid} '{name}': advance {} in hmtx (numberOfHMetrics {n_long}), {} in the source",
                                hm[gid].0, l.advance
                            ),
                        );
                        break;
                    }
                }
            }
        }
    }
    let lsb_flag = mal("head", u16at(head, 16))? & 0x0002 != 0;
    if lsb_flag {
        for i in 0..n_glyphs {
            if !matches!(glyphs[i].data, GData::Empty) && !degenerate[i] && hm[i].1 != glyphs[i].bbox[0] {
                bad(
                    "hmtx:lsb-differs-from-xMin-with-head-flag-1".into(),
                    format!("glyph {i}: lsb {} xMin {} and head.flags bit 1 is set", hm[i].1, glyphs[i].bbox[0]),
                );
                break;
            }
        }
    }
    let h_summary = |viol_bad: &mut dyn FnMut(String, String),
                     table: &str,
                     fields: [(&str, i64); 4],
                     metrics: &[(i32, i32)],
                     lo: usize,
                     hi: usize| {
        // fields: advanceMax, minFirstSideBearing, minSecondSideBearing, maxExtent
        let want_max = metrics.iter().map(|m| m.0 as i64).max().unwrap_or(0);
        if fields[0].1 != want_max {
            viol_bad(
                format!("{table}:{}", fields[0].0),
                format!("{} = {} but the largest advance is {want_max}", fields[0].0, fields[0].1),
            );
        }
        let ext = |i: usize| (glyphs[i].bbox[hi] - glyphs[i].bbox[lo]) as i64;
        let fs: [&dyn Fn(&[usize]) -> Option<i64>; 3] = [
            &|s: &[usize]| mn(s.iter().map(|i| metrics[*i].1 as i64)),
            &|s: &[usize]| mn(s.iter().map(|i| metrics[*i].0 as i64 - metrics[*i].1 as i64 - ext(*i))),
            &|s: &[usize]| mx(s.iter().map(|i| metrics[*i].1 as i64 + ext(*i))),
        ];
        for (k, fun) in fs.iter().enumerate() {
            let (name, got) = fields[k + 1];
            let (ok, wants) = accept(got, *fun);
            if !ok {
                viol_bad(
                    format!("{table}:{name}"),
                    format!(
                        "{name} = {got} but metrics {:?} and boxes {:?} give {wants:?}",
                        metrics,
                        glyphs.iter().map(|g| g.bbox).collect::<Vec<_>>()
                    ),
                );
            }
        }
    };
    h_summary(
        &mut bad,
        "hhea",
        [
            ("advanceWidthMax", mal("hhea", u16at(hhea, 10))? as i64),
            ("minLeftSideBearing", mal("hhea", i16at(hhea, 12))? as i64),
            ("minRightSideBearing", mal("hhea", i16at(hhea, 14))? as i64),
            ("xMaxExtent", mal("hhea", i16at(hhea, 16))? as i64),
        ],
        &hm,
        0,
        2,
    );

    // ---- vmtx / vhea
    if let (Some(vhea), Some(vmtx)) = (f.table("vhea"), f.table("vmtx")) {
        facts.vhea = true;
        let nv = mal("vhea", u16at(vhea, 34))? as usize;
        match parse_metrics(vmtx, nv, n_glyphs) {
            Err(e) => bad("vmtx:length-vs-numOfLongVerMetrics".into(), e),
            Ok(vm) => {
                if nv >= 2 && vm[nv - 1].0 == vm[nv - 2].0 {
                    bad(
                        "vhea:numOfLongVerMetrics-not-minimal".into(),
                        format!("numOfLongVerMetrics {nv} of {n_glyphs}, advances {:?}", vm.iter().map(|m| m.0).collect::<Vec<_>>()),
                    );
                }
                facts.vert_trailing_run = nv < n_glyphs;
                if names.len() == n_glyphs {
                    for (gid, name) in names.iter().enumerate() {
                        let h = d.glyph(name).and_then(|g| g.layers.get(&d.default_master)).and_then(|l| l.height);
                        if let Some(h) = h {
                            if vm[gid].0 as f64 != h {
                                bad(
                                    "vmtx:advance-differs-from-source".into(),
                                    format!("glyph {gid} '{name}': height {} in vmtx (long metrics {nv}), {h} in the source", vm[gid].0),
                                );
                                break;
                            }
                        }
                    }
                }
                // the "first" side of a vertical box is the top: tsb, then ah − tsb − (yMax − yMin), tsb + (yMax − yMin)
                h_summary(
                    &mut bad,
                    "vhea",
                    [
                        ("advanceHeightMax", mal("vhea", u16at(vhea, 10))? as i64),
                        ("minTopSideBearing", mal("vhea", i16at(vhea, 12))? as i64),
                        ("minBottomSideBearing", mal("vhea", i16at(vhea, 14))? as i64),
                        ("yMaxExtent", mal("vhea", i16at(vhea, 16))? as i64),
                    ],
                    &vm,
                    1,
                    3,
                );
            }
        }
    } else if f.table("vhea").is_some() != f.table("vmtx").is_some() {
        bad("vhea:without-vmtx".into(), "exactly one of vhea / vmtx is present".into());
    }

    // ---- maxp
    {
        let simple_pts = glyphs.iter().filter_map(|g| match &g.data {
            GData::Simple { pts, .. } => Some(pts.len() as i64),
            _ => None,
        });
        let simple_cts = glyphs.iter().filter_map(|g| match &g.data {
            GData::Simple { ncontours, .. } => Some(*ncontours as i64),
            _ => None,
        });
        let comp_ids: Vec<usize> =
            (0..n_glyphs).filter(|i| matches!(glyphs[*i].data, GData::Composite { .. })).collect();
        let want = [
            ("maxPoints", 6, mx(simple_pts).unwrap_or(0)),
            ("maxContours", 8, mx(simple_cts).unwrap_or(0)),
            ("maxCompositePoints", 10, mx(comp_ids.iter().map(|i| resolved[*i].npoints as i64)).unwrap_or(0)),
            ("maxCompositeContours", 12, mx(comp_ids.iter().map(|i| resolved[*i].ncontours as i64)).unwrap_or(0)),
            (
                "maxComponentElements",
                28,
                mx(comp_ids.iter().map(|i| match &glyphs[*i].data {
                    GData::Composite { comps } => comps.len() as i64,
                    _ => 0,
                }))
                .unwrap_or(0),
            ),
            // "maximum levels of recursion; 1 for simple components", 0 when there is no composite
            ("maxComponentDepth", 30, mx(comp_ids.iter().map(|i| resolved[*i].depth as i64)).unwrap_or(0)),
        ];
        for (name, off, w) in want {
            let got = mal("maxp", u16at(maxp, off))? as i64;
            if got != w {
                bad(format!("maxp:{name}"), format!("{name} = {got}, own recursion over glyf gives {w}"));
            }
        }
    }

    // ---- OS/2
    let os2_version = mal("OS/2", u16at(os2, 0))?;
    let cmap = mal("cmap", f.need("cmap").and_then(parse_cmap))?;
    let cps: BTreeSet<u32> = cmap.keys().copied().collect();
    facts.non_bmp = cps.iter().any(|c| *c > 0xFFFF);
    {
        // xAvgCharWidth: version ≥ 3 — "the arithmetic average of the width of all non-zero width glyphs";
        // versions ≤ 2 use a weighted Latin average (not modelled, fontc writes version 4)
        let got = mal("OS/2", i16at(os2, 2))? as f64;
        if os2_version >= 3 {
            let nz: Vec<f64> = hm.iter().filter(|m| m.0 != 0).map(|m| m.0 as f64).collect();
            if !nz.is_empty() {
                let mean = nz.iter().sum::<f64>() / nz.len() as f64;
                // the text does not fix the rounding: any integer within half a unit of the mean
                if (got - mean).abs() > 0.5 + 1e-9 {
                    bad(
                        "OS/2:xAvgCharWidth".into(),
                        format!("xAvgCharWidth {got}, mean of the non-zero advances {:?} is {mean}", nz),
                    );
                }
            }
        }
        if !cps.is_empty() {
            let (first, last) = (mal("OS/2", u16at(os2, 64))? as u32, mal("OS/2", u16at(os2, 66))? as u32);
            let (wf, wl) = ((*cps.first().unwrap()).min(0xFFFF), (*cps.last().unwrap()).min(0xFFFF));
            if first != wf {
                bad("OS/2:usFirstCharIndex".into(), format!("usFirstCharIndex {first:#X}, cmap {cps:X?} gives {wf:#X}"));
            }
            if last != wl {
                bad("OS/2:usLastCharIndex".into(), format!("usLastCharIndex {last:#X}, cmap {cps:X?} gives {wl:#X}"));
            }
        }
        // ulUnicodeRange
        let mut want = BTreeSet::new();
        let mut modelled = true;
        for cp in &cps {
            match unicode_range_bits(*cp) {
                Some(b) => want.extend(b),
                None => modelled = false,
            }
        }
        if modelled {
            let words = [
                mal("OS/2", u32at(os2, 42))?,
                mal("OS/2", u32at(os2, 46))?,
                mal("OS/2", u32at(os2, 50))?,
                mal("OS/2", u32at(os2, 54))?,
            ];
            let got: BTreeSet<u32> = (0..128).filter(|b| words[(*b / 32) as usize] >> (b % 32) & 1 == 1).collect();
            for b in got.symmetric_difference(&want) {
                let how = if got.contains(b) { "set-without-codepoint" } else { "clear-with-codepoint" };
                bad(
                    format!("OS/2:ulUnicodeRange:bit={b}:{how}"),
                    format!("ulUnicodeRange bits {got:?}, cmap {cps:X?} gives {want:?}"),
                );
            }
        }
        if os2_version >= 1 {
            if let Some(want) = codepage_bits(&cps) {
                let words = [mal("OS/2", u32at(os2, 78))?, mal("OS/2", u32at(os2, 82))?];
                let got: BTreeSet<u32> = (0..64).filter(|b| words[(*b / 32) as usize] >> (b % 32) & 1 == 1).collect();
                if got != want {
                    bad(
                        "OS/2:ulCodePageRange".into(),
                        format!("ulCodePageRange bits {got:?}, the calcCodePageRanges rule on cmap {cps:X?} gives {want:?}"),
                    );
                }
            }
        }
    }
    // usMaxContext
    if os2_version >= 2 {
        let got = mal("OS/2", u16at(os2, 94))?;
        let mut unspecified = 0u64;
        let mut lookups = 0u64;
        let mut want = 0u16;
        if let Some(t) = f.table("GSUB") {
            want = want.max(mal("GSUB", table_context(t, false, &mut unspecified, &mut lookups))?);
        }
        if let Some(t) = f.table("GPOS") {
            want = want.max(mal("GPOS", table_context(t, true, &mut unspecified, &mut lookups))?);
        }
        facts.lookups = lookups;
        facts.max_context = Some(want);
        if unspecified == 0 {
            if got != want {
                bad(
                    "OS/2:usMaxContext".into(),
                    format!("usMaxContext {got}, own walk of the GSUB/GPOS lookups gives {want}"),
                );
            }
            if let Some(e) = c.fea_expect {
                if want != e {
                    return Err(J::Machinery(format!(
                        "feature program {:?} (kerning {}): expected context {e} by construction, lookups give {want}",
                        c.fea, c.kerning
                    )));
                }
            }
        } else if got < want {
            bad(
                "OS/2:usMaxContext".into(),
                format!("usMaxContext {got} is below {want}, the value of the lookups whose context is defined"),
            );
        }
    }

    facts.nontrivial = facts.composite
        || facts.trailing_run
        || cps.len() >= 2
        || facts.lookups > 0
        || facts.vhea
        || facts.long_loca;
    facts.summary = json!({
        "numGlyphs": n_glyphs,
        "head_box": hb,
        "numberOfHMetrics": n_long,
        "hmtx": hm,
        "glyph_boxes": glyphs.iter().map(|g| g.bbox).collect::<Vec<_>>(),
        "cmap": cps.iter().map(|c| format!("U+{c:04X}")).collect::<Vec<_>>(),
        "usMaxContext": facts.max_context,
        "indexToLocFormat": loc_format,
        "glyf_len": glyf.len(),
        "os2_version": os2_version,
    });
    if matches!(c.layer.as_str(), "loca") && c.big.is_empty() {
        return Err(J::Skip("loca case without big glyphs".into()));
    }
    Ok(())
}

/// The raw glyf reader must agree with read-fonts on every glyph (points, contour counts, components).
fn cross_check_glyf(bytes: &[u8], glyphs: &[EGlyph]) -> Result<(), String> {
    use write_fonts::read::{
        tables::glyf::{Anchor, Glyph as RGlyph},
        types::GlyphId,
        FontRef, TableProvider,
    };
    let font = FontRef::new(bytes).map_err(|e| format!("read-fonts: {e}"))?;
    let loca = font.loca(None).map_err(|e| format!("read-fonts loca: {e}"))?;
    let glyf = font.glyf().map_err(|e| format!("read-fonts glyf: {e}"))?;
    for (i, mine) in glyphs.iter().enumerate() {
        let theirs = loca.get_glyf(GlyphId::new(i as u32), &glyf).map_err(|e| format!("read-fonts glyph {i}: {e}"))?;
        match (&mine.data, theirs) {
            (GData::Empty, None) => {}
            (GData::Simple { ncontours, pts }, Some(RGlyph::Simple(s))) => {
                let tp: Vec<(i32, i32)> = s.points().map(|p| (p.x as i32, p.y as i32)).collect();
                if &tp != pts || s.end_pts_of_contours().len() != *ncontours {
                    return Err(format!("glyph {i}: raw reader and read-fonts disagree on the points"));
                }
            }
            (GData::Composite { comps }, Some(RGlyph::Composite(cg))) => {
                let tc: Vec<_> = cg.components().collect();
                if tc.len() != comps.len() {
                    return Err(format!("glyph {i}: component count differs from read-fonts"));
                }
                for (a, b) in comps.iter().zip(tc) {
                    let off = match b.anchor {
                        Anchor::Offset { x, y } => (x as f64, y as f64),
                        _ => return Err("point anchor".into()),
                    };
                    let m = [
                        b.transform.xx.to_f32() as f64,
                        b.transform.yx.to_f32() as f64,
                        b.transform.xy.to_f32() as f64,
                        b.transform.yy.to_f32() as f64,
                    ];
                    if a.gid != b.glyph.to_u16() as usize || (a.dx, a.dy) != off || a.m != m {
                        return Err(format!("glyph {i}: component differs from read-fonts: {a:?} vs {b:?}"));
                    }
                }
            }
            _ => return Err(format!("glyph {i}: raw reader and read-fonts disagree on the glyph kind")),
        }
    }
    Ok(())
}

// ================================================================ sensitivity self-test

/// Every assertion of the oracle must notice when the emitted value it guards is moved: a handful of compiled
/// fonts are perturbed field by field (in memory) and judged again. An unnoticed perturbation is a machinery
/// error. Returns the number of perturbations tried.
fn self_test() -> Result<u64, String> {
    enum Op {
        Add(i32),
        Xor32(u32),
    }
    let with_cps = |mut v: Vec<G>| {
        for (i, gl) in v.iter_mut().enumerate() {
            gl.cps = vec![CP_POS[i]];
        }
        v
    };
    let case_a = Case {
        layer: "selftest-a".into(),
        glyphs: with_cps(vec![
            g(Kind::S1, 30, 500),
            g(Kind::Cp, 0, 500),
            g(Kind::Tp, 30, 500),
            g(Kind::E, 0, 700),
            g(Kind::E, 0, 700),
        ]),
        ..Default::default()
    };
    let case_b = Case {
        layer: "selftest-b".into(),
        glyphs: with_cps(vec![
            g(Kind::S1, 30, 500),
            G { height: Some(1200), ..g(Kind::S2, -50, 700) },
            G { height: Some(1200), ..g(Kind::Cp, 0, 500) },
        ]),
        vertical: true,
        ..Default::default()
    };
    let progs = fea_programs();
    let lig3 = progs.iter().find(|p| p.id == "lig3").unwrap();
    let case_c = Case {
        layer: "selftest-c".into(),
        glyphs: with_cps((0..4).map(|i| g(Kind::S1, LSBS[i % 3], 500)).collect()),
        fea: Some(lig3.fea.to_string()),
        fea_expect: Some(3),
        ..Default::default()
    };
    let mut tried = 0;
    for (case, which) in [(&case_a, 'a'), (&case_b, 'b'), (&case_c, 'c')] {
        let d = build_design(case).ok_or("self-test case not in space")?;
        let sc = vcore::Scratch::new("c17self");
        let p = d.write_single_ufo(sc.path()).map_err(|e| e.to_string())?;
        let bytes = fcx::compile(&p, &fcx::Opts::default(), None).map_err(|e| format!("self-test compile: {e:?}"))?;
        let clean = judge(case, &d, &bytes);
        if clean.machinery.is_some() || clean.skipped.is_some() || !clean.viol.is_empty() {
            // a genuine violation on the self-test font is reported by the sweep (the same shapes are in it)
            continue;
        }
        // file offsets of the tables, glyph offsets
        let n = u16at(&bytes, 4)? as usize;
        let mut toff = BTreeMap::new();
        for i in 0..n {
            let r = 12 + 16 * i;
            toff.insert(String::from_utf8_lossy(&bytes[r..r + 4]).into_owned(), u32at(&bytes, r + 8)? as usize);
        }
        let loca = toff["loca"];
        let gofs = |gid: usize| -> Result<usize, String> { Ok(u16at(&bytes, loca + 2 * gid)? as usize * 2) };
        let mut list: Vec<(&str, usize, Op, &str)> = vec![];
        match which {
            'a' => {
                for (off, name) in [(36, "head:xMin"), (38, "head:yMin"), (40, "head:xMax"), (42, "head:yMax")] {
                    list.push(("head", off, Op::Add(1), name));
                    list.push(("head", off, Op::Add(-1), name));
                }
                list.push(("head", 50, Op::Add(1), "loca:"));
                list.push(("hhea", 10, Op::Add(1), "hhea:advanceWidthMax"));
                list.push(("hhea", 10, Op::Add(-1), "hhea:advanceWidthMax"));
                for (off, name) in
                    [(12, "hhea:minLeftSideBearing"), (14, "hhea:minRightSideBearing"), (16, "hhea:xMaxExtent")]
                {
                    list.push(("hhea", off, Op::Add(1), name));
                    list.push(("hhea", off, Op::Add(-1), name));
                }
                list.push(("hhea", 34, Op::Add(-1), "hmtx:length"));
                list.push(("hhea", 34, Op::Add(1), "hmtx:length"));
                list.push(("hmtx", 4 + 2, Op::Add(1), "hmtx:lsb-differs"));
                list.push(("hmtx", 4, Op::Add(1), "hmtx:advance-differs-from-source"));
                for (off, name) in [
                    (6, "maxp:maxPoints"),
                    (8, "maxp:maxContours"),
                    (10, "maxp:maxCompositePoints"),
                    (12, "maxp:maxCompositeContours"),
                    (28, "maxp:maxComponentElements"),
                    (30, "maxp:maxComponentDepth"),
                ] {
                    list.push(("maxp", off, Op::Add(1), name));
                    list.push(("maxp", off, Op::Add(-1), name));
                }
                list.push(("OS/2", 2, Op::Add(2), "OS/2:xAvgCharWidth"));
                list.push(("OS/2", 2, Op::Add(-2), "OS/2:xAvgCharWidth"));
                list.push(("OS/2", 64, Op::Add(1), "OS/2:usFirstCharIndex"));
                list.push(("OS/2", 66, Op::Add(-1), "OS/2:usLastCharIndex"));
                list.push(("OS/2", 42, Op::Xor32(2), "OS/2:ulUnicodeRange:bit=1:set-without-codepoint"));
                list.push(("OS/2", 42, Op::Xor32(1), "OS/2:ulUnicodeRange:bit=0:clear-with-codepoint"));
                list.push(("OS/2", 46, Op::Xor32(1 << 25), "OS/2:ulUnicodeRange:bit=57:clear-with-codepoint"));
                list.push(("OS/2", 78, Op::Xor32(2), "OS/2:ulCodePageRange"));
                list.push(("OS/2", 78, Op::Xor32(1), "OS/2:ulCodePageRange"));
                list.push(("OS/2", 94, Op::Add(1), "OS/2:usMaxContext"));
            }
            'b' => {
                list.push(("vhea", 10, Op::Add(1), "vhea:advanceHeightMax"));
                for (off, name) in
                    [(12, "vhea:minTopSideBearing"), (14, "vhea:minBottomSideBearing"), (16, "vhea:yMaxExtent")]
                {
                    list.push(("vhea", off, Op::Add(1), name));
                    list.push(("vhea", off, Op::Add(-1), name));
                }
                list.push(("vhea", 34, Op::Add(-1), "vmtx:length"));
                list.push(("vmtx", 8, Op::Add(1), "vmtx:advance-differs-from-source"));
            }
            _ => {
                list.push(("OS/2", 94, Op::Add(-1), "OS/2:usMaxContext"));
                list.push(("OS/2", 94, Op::Add(1), "OS/2:usMaxContext"));
            }
        }
        let mut glyph_list: Vec<(usize, Op, &str)> = vec![];
        if which == 'a' {
            for k in 0..4 {
                glyph_list.push((gofs(1)? + 2 + 2 * k, Op::Add(1), "glyph-bbox:simple"));
                glyph_list.push((gofs(1)? + 2 + 2 * k, Op::Add(-1), "glyph-bbox:simple"));
                glyph_list.push((gofs(2)? + 2 + 2 * k, Op::Add(1), "glyph-bbox:composite:flat:offset-only"));
                glyph_list.push((gofs(2)? + 2 + 2 * k, Op::Add(-1), "glyph-bbox:composite:flat:offset-only"));
                glyph_list.push((gofs(3)? + 2 + 2 * k, Op::Add(2), "glyph-bbox:composite:nested:transformed"));
                glyph_list.push((gofs(3)? + 2 + 2 * k, Op::Add(-2), "glyph-bbox:composite:nested:transformed"));
            }
        }
        let all = list
            .into_iter()
            .map(|(t, o, op, e)| (toff.get(t).map(|b| b + o), format!("{t}+{o}"), op, e))
            .chain(glyph_list.into_iter().map(|(o, op, e)| (Some(toff["glyf"] + o), format!("glyf+{o}"), op, e)));
        for (at, label, op, expect) in all {
            let at = at.ok_or_else(|| format!("self-test {which}: table of {label} missing"))?;
            let mut b = bytes.clone();
            let delta = match op {
                Op::Add(dl) => {
                    let v = (u16at(&b, at)? as i32 + dl) as u16;
                    b[at..at + 2].copy_from_slice(&v.to_be_bytes());
                    format!("{dl:+}")
                }
                Op::Xor32(m) => {
                    let v = u32at(&b, at)? ^ m;
                    b[at..at + 4].copy_from_slice(&v.to_be_bytes());
                    format!("xor {m:#x}")
                }
            };
            tried += 1;
            let o = judge(case, &d, &b);
            if !o.viol.iter().any(|(k, _)| k.starts_with(expect)) {
                return Err(format!(
                    "self-test {which}: perturbing {label} by {delta} was not reported as {expect} (reported: {:?}{})",
                    o.viol.iter().map(|v| &v.0).collect::<Vec<_>>(),
                    o.machinery.or(o.skipped).map(|s| format!("; {s}")).unwrap_or_default()
                ));
            }
        }
    }
    Ok(tried)
}

// ================================================================ driver

#[derive(Default)]
struct Agg {
    evaluated: u64,
    not_in_space: u64,
    compile_failed: u64,
    skipped: u64,
    counters: BTreeMap<&'static str, u64>,
    maxctx: BTreeMap<u16, u64>,
    depth: BTreeMap<u64, u64>,
    hashes: Vec<u64>,
    nontrivial_hashes: Vec<u64>,
    viol: Vec<(String, String, Value)>,
    viol_keys: BTreeSet<String>,
    machinery: Option<String>,
    failures: Vec<String>,
    samples: Vec<Value>,
    loca_sizes: Vec<(usize, bool)>,
}

impl Agg {
    fn add(&mut self, c: &Case, o: Option<Outcome>, want_sample: bool) {
        let Some(o) = o else {
            self.not_in_space += 1;
            return;
        };
        if let Some(m) = o.machinery {
            if self.machinery.is_none() {
                self.machinery = Some(format!("{m} — case {}", serde_json::to_string(c).unwrap_or_default()));
            }
            return;
        }
        if !o.facts.compiled {
            self.compile_failed += 1;
            if self.failures.len() < 3 {
                self.failures.push(format!(
                    "{} — {}",
                    o.skipped.clone().unwrap_or_default(),
                    serde_json::to_string(c).unwrap_or_default()
                ));
            }
            return;
        }
        if let Some(s) = o.skipped {
            self.skipped += 1;
            if self.failures.len() < 3 {
                self.failures.push(format!("{s} — {}", serde_json::to_string(c).unwrap_or_default()));
            }
            return;
        }
        self.evaluated += 1;
        let fx = &o.facts;
        for (k, v) in [
            ("fonts_with_composites", fx.composite),
            ("fonts_with_nested_composites", fx.nested),
            ("fonts_with_transformed_composites", fx.transformed),
            ("fonts_with_composite_resolving_to_no_points", fx.degenerate_composite),
            ("fonts_with_use_my_metrics", fx.use_my_metrics),
            ("fonts_with_numberOfHMetrics_below_numGlyphs", fx.trailing_run),
            ("fonts_with_non_bmp_codepoints", fx.non_bmp),
            ("fonts_with_negative_lsb", fx.negative_lsb),
            ("fonts_with_vhea", fx.vhea),
            ("fonts_with_numOfLongVerMetrics_below_numGlyphs", fx.vert_trailing_run),
            ("fonts_with_long_loca", fx.long_loca),
            ("fonts_with_fractional_composite_extreme", fx.half_unit_bbox),
            ("fonts_with_layout_lookups", fx.lookups > 0),
        ] {
            if v {
                *self.counters.entry(k).or_default() += 1;
            }
        }
        if let Some(m) = fx.max_context {
            *self.maxctx.entry(m).or_default() += 1;
        }
        *self.depth.entry(fx.max_depth).or_default() += 1;
        self.hashes.push(fx.hash);
        if c.layer == "loca" {
            self.loca_sizes.push((fx.glyf_len, fx.long_loca));
        }
        if fx.nontrivial {
            self.nontrivial_hashes.push(fx.hash);
        }
        if want_sample && self.samples.len() < 2 {
            self.samples.push(json!({"case": c, "emitted": fx.summary}));
        }
        for (key, what) in o.viol {
            if self.viol_keys.insert(key.clone()) {
                self.viol.push((key, what, serde_json::to_value(c).unwrap_or(Value::Null)));
            }
        }
    }
    fn merge(&mut self, o: Agg) {
        self.evaluated += o.evaluated;
        self.not_in_space += o.not_in_space;
        self.compile_failed += o.compile_failed;
        self.skipped += o.skipped;
        for (k, v) in o.counters {
            *self.counters.entry(k).or_default() += v;
        }
        for (k, v) in o.maxctx {
            *self.maxctx.entry(k).or_default() += v;
        }
        for (k, v) in o.depth {
            *self.depth.entry(k).or_default() += v;
        }
        self.hashes.extend(o.hashes);
        self.loca_sizes.extend(o.loca_sizes);
        self.nontrivial_hashes.extend(o.nontrivial_hashes);
        for (k, w, c) in o.viol {
            if self.viol_keys.insert(k.clone()) {
                self.viol.push((k, w, c));
            }
        }
        if self.machinery.is_none() {
            self.machinery = o.machinery;
        }
        for f in o.failures {
            if self.failures.len() < 6 {
                self.failures.push(f);
            }
        }
        for s in o.samples {
            if self.samples.len() < 8 {
                self.samples.push(s);
            }
        }
    }
}

fn replay(path: &std::path::Path) -> ! {
    let v: Value = std::fs::read_to_string(path)
        .ok()
        .and_then(|s| serde_json::from_str(&s).ok())
        .unwrap_or_else(|| vcore::machinery_error(&format!("cannot read replay file {path:?}")));
    let case: Case = serde_json::from_value(v.get("replay").cloned().unwrap_or(v.clone()))
        .unwrap_or_else(|e| vcore::machinery_error(&format!("replay file does not hold a case: {e}")));
    println!("case: {}", serde_json::to_string(&case).unwrap_or_default());
    let code = match run_case(&case) {
        None => {
            println!("the case is not in the enumerated space (dangling reference or reference cycle)");
            0
        }
        Some(o) => {
            if let Some(m) = o.machinery {
                vcore::machinery_error(&m);
            }
            if let Some(s) = &o.skipped {
                println!("not judged: {s}");
            }
            println!("emitted: {}", o.facts.summary);
            for (k, w) in &o.viol {
                println!("VIOLATION {k}: {w}");
            }
            if o.viol.is_empty() {
                println!("held");
                0
            } else {
                1
            }
        }
    };
    vcore::cleanup_scratch();
    std::process::exit(code)
}

fn main() {
    let args = vcore::parse_args();
    fcx::silence_panics();
    if let Some(p) = &args.replay {
        replay(p);
    }
    let mut rep = Reporter::new("C17", "exploration", &args);
    let threads = vcore::ncores();
    let budget_s: f64 = args.tier.pick(150.0, 1100.0) * vcore::budget_scale();
    let start = std::time::Instant::now();

    match self_test() {
        Ok(n) => rep.set("self_test_perturbations_detected", n),
        Err(e) => vcore::machinery_error(&e),
    }

    let mut total = Agg::default();
    let mut layer_stats = vec![];
    let mut exhaustive = true;
    let ls = layers(args.tier);
    // the loca layer (a few slow fonts) runs beside the sequence layers
    let tier = args.tier;
    let mut loca_note = None;
    std::thread::scope(|scope| {
        let loca = scope.spawn(move || {
            let t0 = std::time::Instant::now();
            let cases = match loca_cases(tier) {
                Ok(c) => c,
                Err(e) => return (Agg::default(), json!({"layer": "loca", "skipped": e}), Some(e)),
            };
            let parts = vcore::par_for(cases.len(), 4, |i| {
                let mut a = Agg::default();
                let o = run_case(&cases[i]);
                a.add(&cases[i], o, i == 0);
                a
            });
            let mut la = Agg::default();
            for a in parts {
                la.merge(a);
            }
            let sizes: Vec<Value> = {
                let mut v = la.loca_sizes.clone();
                v.sort();
                v.iter().map(|(l, f)| json!([l, f])).collect()
            };
            let stat = json!({
                "layer": "loca", "indices": cases.len(), "evaluated": la.evaluated,
                "points_in_last_big_glyph": cases.iter().map(|c| c.big.last().copied().unwrap_or(0)).collect::<Vec<_>>(),
                "glyf_length_and_long_format": sizes,
                "compile_failed": la.compile_failed,
                "wall_s": (t0.elapsed().as_secs_f64() * 100.0).round() / 100.0,
            });
            (la, stat, None)
        });
        for l in &ls {
            let t0 = std::time::Instant::now();
            let chunk = 64u64;
            let n_chunks = l.n.div_ceil(chunk) as usize;
            // VERIF_SEED only rotates the starting chunk
            let rot = if n_chunks > 0 { (args.seed as usize) % n_chunks } else { 0 };
            let parts = vcore::par_for(n_chunks, threads, |ci| {
                let mut a = Agg::default();
                if start.elapsed().as_secs_f64() > budget_s {
                    return (a, false);
                }
                let ci = (ci + rot) % n_chunks;
                let lo = ci as u64 * chunk;
                let hi = (lo + chunk).min(l.n);
                for idx in lo..hi {
                    let c = (l.make)(idx);
                    // samples: first, a middle and the last case of the layer
                    let want_sample = idx == 0 || idx == l.n / 2 || idx + 1 == l.n;
                    let o = run_case(&c);
                    a.add(&c, o, want_sample);
                }
                (a, true)
            });
            let mut la = Agg::default();
            let mut complete = true;
            for (a, done) in parts {
                complete &= done;
                la.merge(a);
            }
            if !complete {
                exhaustive = false;
            }
            layer_stats.push(json!({
                "layer": l.name, "indices": l.n, "evaluated": la.evaluated, "not_in_space": la.not_in_space,
                "compile_failed": la.compile_failed, "complete": complete,
                "wall_s": (t0.elapsed().as_secs_f64() * 100.0).round() / 100.0,
            }));
            total.merge(la);
        }
        match loca.join() {
            Ok((la, stat, note)) => {
                layer_stats.push(stat);
                total.merge(la);
                loca_note = note;
            }
            Err(_) => vcore::machinery_error("the loca layer thread panicked"),
        }
    });
    if let Some(n) = loca_note {
        rep.assume(n);
        exhaustive = false;
    }

    if let Some(m) = &total.machinery {
        vcore::machinery_error(m);
    }
    for (k, w, c) in &total.viol {
        rep.violation(k, w, c.clone());
    }
    let distinct: HashSet<u64> = total.hashes.iter().copied().collect();
    let distinct_nt: HashSet<u64> = total.nontrivial_hashes.iter().copied().collect();
    rep.set("evaluations", total.evaluated);
    rep.set("distinct_emitted_fonts", distinct.len() as u64);
    rep.set("distinct_nontrivial", distinct_nt.len() as u64);
    rep.set(
        "rule",
        "distinct emitted font binaries (FNV-1a of the bytes) in which at least one summary has something to \
         summarise beyond a single outline: a composite glyph, numberOfHMetrics < numGlyphs, ≥ 2 cmap codepoints, \
         a GSUB/GPOS lookup, vhea/vmtx, or a long loca",
    );
    rep.set("exhaustive", exhaustive);
    rep.set("indices_outside_space_skipped", total.not_in_space);
    rep.set("compile_failures", total.compile_failed);
    rep.set("not_judged", total.skipped);
    rep.set("failure_examples", json!(total.failures));
    rep.set("layers", json!(layer_stats));
    rep.set(
        "alphabet",
        json!({
            "kinds": "E empty, S1 contour with off-curve extreme, S2 two contours, S3 cubic blob, Cp/Cn component of previous/next glyph, Tp scale 0.5, Fp flip x, Rp rotate 90, K2 two components",
            "lsb": LSBS, "advance": ADVS, "cmap_subsets_of": CMAP_ALPHABET, "positional_codepoints": CP_POS,
            "full_options": full_options().len(),
            "curated_options": serde_json::to_value(args.tier.pick(curated_options_quick(), curated_options_thorough())).unwrap_or(Value::Null),
            "feature_programs": fea_programs().iter().map(|p| json!([p.id, p.fea, p.expect])).collect::<Vec<_>>(),
            "unicode_range_boundary_codepoints": range_boundary_codepoints().len(),
        }),
    );
    for (k, v) in &total.counters {
        rep.set(k, *v);
    }
    rep.set(
        "usMaxContext_distribution",
        json!(total.maxctx.iter().map(|(k, v)| (k.to_string(), *v)).collect::<BTreeMap<_, _>>()),
    );
    rep.set(
        "maxComponentDepth_distribution",
        json!(total.depth.iter().map(|(k, v)| (k.to_string(), *v)).collect::<BTreeMap<_, _>>()),
    );
    rep.set("samples", json!(total.samples));
    rep.assume("composite header box: accepted iff every side is strictly within one unit of the exact transformed extreme (equal when that is an integer) — nearest, covering and per-level rounding all satisfy this for factors of magnitude ≤ 1");
    rep.assume("a composite that resolves to no points (component of an empty glyph): its own box is not asserted, and head / hhea / vhea summaries are accepted both with and without it");
    rep.assume("xAvgCharWidth: any integer within 0.5 of the mean of the non-zero advances (OS/2 version ≥ 3 rule; the emitted version is 4); not asserted when every advance is zero");
    rep.assume("usFirstCharIndex / usLastCharIndex: not asserted for an empty cmap");
    rep.assume("ulCodePageRange: fontTools calcCodePageRanges restricted to cmaps without the full U+0020..U+007D run and without line-art characters (Cyrillic on U+0411, Greek on U+0386, fallback bit 0)");
    rep.assume("usMaxContext: cursive and mark attachment lookups have no defined context length; with such lookups only a lower bound is asserted (none occur in the alphabet)");
    rep.assume("lsb of glyphs without an outline, and tsb (which depends on the vertical origin, not on emitted tables) are not asserted");
    rep.assume("advances in hmtx/vmtx are additionally compared with the source values (otherwise dropping one long metric too many is self-consistent)");
    rep.finish()
}
