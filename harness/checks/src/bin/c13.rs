//! C13 — the feature-file front end is total and lossless.
//!
//! Bounded-exhaustive enumeration of FEA source texts, every one run through the real
//! front end (`fea_rs::parse::parse_string` / `parse_root`, then `fea_rs::compile::validate`)
//! in isolated worker subprocesses, judged by an oracle that does not use the parser:
//!
//!  a   every sequence of <= N lexemes of a small alphabet, joined by single spaces
//!  aw  the same sequences inside `feature test { ... } test;` (statement-level grammar)
//!  b   every string of <= M characters of a 24-character alphabet (the 16 of the design plus
//!      space and `;`, without which no statement can end, plus NUL, U+0001, DEL, a lone CR,
//!      U+FEFF and U+2028)
//!  c   every single edit at every token position of every repo parse/compile test file
//!      (delete, duplicate, swap, a control character glued to the token, replace by a lexeme)
//!  d   every include digraph over <= 3 in-memory files, plus include chains around the
//!      depth limit, through an in-memory `SourceResolver`
//!  e   every string of <= K characters of {a, b, -, ., \, 1} as the glyph operand of each of a
//!      few statement templates, each parsed without a glyph map and with each of a few small
//!      glyph maps (names with hyphens, names that end / start with a hyphen): drives the
//!      name-or-range disambiguation (`validate_token` / `try_split_range`)
//!  f   every block skeleton `<opener> <label> { <0-1 statements> } <label'> ;` over the block
//!      openers and ALL pairs of labels from: ordinary tags, the table and special feature
//!      tags, every keyword of the lexer (read from its source), escaped names
//!
//! `c13 quick|thorough`, `c13 --replay <path>`; `c13 --one <case.json>` is the single-case
//! subprocess used for classification, shrinking and replay.
use fea_rs::{
    DiagnosticSet, GlyphIdent, GlyphMap, Kind, Node, NodeOrToken, ParseTree,
    compile::{NopVariationInfo, validate},
    parse::{SourceLoadError, parse_root, parse_string},
};
use serde_json::{Value, json};
use std::{
    cell::RefCell,
    collections::{BTreeMap, HashMap, HashSet},
    panic::{AssertUnwindSafe, catch_unwind},
    path::{Path, PathBuf},
    sync::{Arc, Mutex},
    time::{Duration, Instant},
};
use vcore::{
    Reporter, Tier,
    sweep::{self, Abnormal, SweepCfg},
};

// ------------------------------------------------------------------ alphabets

/// Lexeme alphabet of sub-spaces a / aw and of the "replace" edit of c.
/// (`a-b` is a glyph of the glyph map, `a-c` is not and is a range of two of its glyphs.)
const LEXEMES: [&str; 29] = [
    "feature", "lookup", "sub", "by", "pos", "'", "[", "]", "{", "}", "(", ")", "<", ">", ";", ",",
    "=", "-", "@c", "\\a", "a", "a-b", "a-c", "10", "-5", "1.5", "\"s\"", "#c\n", "include",
];

/// Character alphabet of sub-space b.
const CHARS: [&str; 24] = [
    "a", "A", "-", ".", "\\", "@", "[", "'", "\"", "<", "#", "\n", "0", "\u{e9}", "\u{1F600}", "\t", " ", ";",
    "\0", "\u{1}", "\u{7f}", "\r", "\u{feff}", "\u{2028}",
];

/// Control / invisible characters glued to a token as an edit of sub-space c (quick: the first).
const CTRL_EDITS: [&str; 6] = ["\0", "\u{1}", "\u{7f}", "\r", "\u{feff}", "\u{2028}"];

/// Block openers of sub-space f; `L` is the opening label.
const BLOCK_OPENERS: [&str; 8] = [
    "table L", "anon L", "anonymous L", "lookup L", "feature L", "lookup L useExtension", "conditionset L", "variation L NULL",
];

/// Labels of sub-space f besides the keywords of the lexer: ordinary tags, the tags of the
/// tables and features the grammar treats specially, escaped names, a one-letter name.
const BLOCK_LABELS: [&str; 19] = [
    "abcd", "a", "BASE", "GDEF", "STAT", "head", "hhea", "OS/2", "vhea", "vmtx", "aalt", "size", "ss01", "cv01",
    "\\abcd", "\\sub", "\\mark", "\\table", "\\anon",
];

/// Block bodies of sub-space f (quick: the first two).
const BLOCK_BODIES: [&str; 6] = ["", "foo;", "sub a by b;", "pos a 0;", "lookupflag 0;", "}"];

/// Second part of sub-space f: statements with two tag operands inside `table BASE { ... } BASE;`,
/// `X` and `Y` over ALL pairs of labels (tags of every length, keywords, escaped names).
const TAG_STATEMENTS: [&str; 3] = [
    "HorizAxis.BaseTagList X Y;",
    "HorizAxis.BaseTagList ideo romn; HorizAxis.BaseScriptList X Y 0 0;",
    "HorizAxis.BaseTagList ideo romn; HorizAxis.BaseScriptList latn romn 0 0; HorizAxis.MinMax X Y 0, 0;",
];

/// Every keyword the lexer knows: the byte-string literals of `Kind::from_keyword`, read from
/// the source under test (so that a keyword added there is enumerated here).
fn lexer_keywords() -> Vec<String> {
    let src = std::fs::read_to_string("/repo/fea-rs/src/parse/lexer/lexeme.rs").unwrap_or_default();
    let mut out: Vec<String> = vec![];
    if let Some(at) = src.find("fn from_keyword") {
        let body = &src[at..];
        let body = &body[..body.find("\n    }\n").unwrap_or(body.len())];
        let mut rest = body;
        while let Some(i) = rest.find("b\"") {
            rest = &rest[i + 2..];
            let Some(j) = rest.find('"') else { break };
            let w = &rest[..j];
            if !w.is_empty() && !out.iter().any(|x| x == w) {
                out.push(w.to_string());
            }
            rest = &rest[j + 1..];
        }
    }
    if out.len() < 60 {
        vcore::machinery_error("cannot read the keyword list of the lexer (fea-rs/src/parse/lexer/lexeme.rs, Kind::from_keyword)");
    }
    out
}

fn block_labels() -> Vec<String> {
    let mut l: Vec<String> = BLOCK_LABELS.iter().map(|x| x.to_string()).collect();
    for k in lexer_keywords() {
        if !l.contains(&k) {
            l.push(k);
        }
    }
    l
}

/// Character alphabet of the glyph operand of sub-space e.
const OPERAND_CHARS: [&str; 6] = ["a", "b", "-", ".", "\\", "1"];

/// Statement templates of sub-space e; every `X` is the operand. Rules only parse inside a
/// feature block (at top level `pos` is an unexpected token and the operand is never in a
/// glyph position).
const OPERAND_TEMPLATES: [&str; 11] = [
    "feature f {pos X 0;} f;",
    "feature f {sub X by a;} f;",
    "feature f {sub a by X;} f;",
    "@c = [X];",
    "feature f {sub [X] by a;} f;",
    "feature f {sub X' a by b;} f;",
    "feature f {pos X X 0;} f;",
    "feature f {sub a from [X];} f;",
    "@c = [a X b];",
    "@c = [a - X];",
    "@c = [X - b];",
];

/// Glyph maps of sub-space e (`None`: parsed without a glyph map). A name of the form `\N` is
/// the CID N.
const OPERAND_MAPS: [Option<&[&str]>; 5] = [
    Some(&["a", "b"]),
    Some(&["a", "b", "a-b"]),
    Some(&["a", "b", "a-", "-a"]),
    Some(&["a", "b", "a-b", "b-a", "a-", "-a", "a.b", "a1", "a-a-a", "\\1", "\\11"]),
    None,
];

const WRAP_PRE: &str = "feature test {\n";
const WRAP_POST: &str = "\n} test;\n";

/// Per-case deadline, in CPU time of the thread running the case (wall time depends on how busy
/// the machine is; an endless loop burns CPU). A case that blocks without using CPU is caught
/// by wall-clock fallbacks (5 x this + 5 s for single-case runs, SWEEP_TIMEOUT_MS in sweeps).
const CASE_TIMEOUT_MS: u64 = 2000;
/// no-progress limit of the sweep watchdog. Only a fallback (a stalled worker gives up on
/// its own, see WORKER_STALL_MS); it also has to cover the start of a worker process on a
/// busy machine, hence the wide margin
const SWEEP_TIMEOUT_MS: u64 = 10_000;
/// a worker that has spent this much CPU time on one case gives up on its own (exit code 86),
/// which the sweep attributes to that case; the case is then judged by a run of its own with
/// the full deadline
const WORKER_STALL_MS: u64 = 1000;
/// failing cases a worker reports individually per signature and chunk (the shortest ones);
/// the others are only counted
const EXAMPLES_PER_CHUNK: usize = 16;
const MEM_CAP: u64 = 2 << 30;
const TEST_DATA: &str = "/repo/fea-rs/test-data";

// ------------------------------------------------------------------ cases

#[derive(Clone, Debug, PartialEq)]
struct IncStmt {
    start: usize,
    end: usize,
    target: String,
}

#[derive(Clone, Debug, PartialEq)]
struct SrcFile {
    name: String,
    text: String,
    /// include statements the generator put into `text` (known only for generated graphs)
    includes: Vec<IncStmt>,
}

#[derive(Clone, Copy, Debug, PartialEq, Eq)]
enum Expect {
    /// no resolvable includes: the tree text must be the input
    Plain,
    /// include graph in which an error diagnostic is required
    MustError,
    /// include graph that is acyclic and shallow: no error diagnostic allowed
    MustNotError,
    /// include graph near the depth limit: either, but terminate and stay consistent
    Either,
}

impl Expect {
    fn name(self) -> &'static str {
        match self {
            Expect::Plain => "plain",
            Expect::MustError => "must-error",
            Expect::MustNotError => "must-not-error",
            Expect::Either => "either",
        }
    }
    fn from_name(s: &str) -> Expect {
        match s {
            "must-error" => Expect::MustError,
            "must-not-error" => Expect::MustNotError,
            "either" => Expect::Either,
            _ => Expect::Plain,
        }
    }
}

/// One input: `files[0]` is the root source; the others are what the resolver can find.
#[derive(Clone, Debug, PartialEq)]
struct Case {
    files: Vec<SrcFile>,
    expect: Expect,
    /// short description for graph cases
    desc: String,
    /// `None`: the default pair of runs (the big glyph map of `Ctx`, then no glyph map);
    /// otherwise one run per entry (`None` = without a glyph map, else these glyph names)
    maps: Option<Vec<Option<Vec<String>>>>,
}

/// The glyph-map list of sub-space e.
fn operand_maps() -> Vec<Option<Vec<String>>> {
    OPERAND_MAPS
        .iter()
        .map(|m| m.map(|names| names.iter().map(|n| n.to_string()).collect()))
        .collect()
}

/// Short name of a glyph-map list (part of memo keys and of the evidence).
fn maps_tag(maps: &Option<Vec<Option<Vec<String>>>>) -> String {
    match maps {
        None => "default".into(),
        Some(l) => l
            .iter()
            .map(|m| match m {
                None => "none".to_string(),
                Some(n) => format!("{{{}}}", n.join(",")),
            })
            .collect::<Vec<_>>()
            .join("|"),
    }
}

impl Case {
    fn plain(text: String) -> Case {
        Case {
            files: vec![SrcFile {
                name: "root.fea".into(),
                text,
                includes: vec![],
            }],
            expect: Expect::Plain,
            desc: String::new(),
            maps: None,
        }
    }
    /// a plain case with the glyph maps of `self`
    fn with_text(&self, text: String) -> Case {
        let mut c = Case::plain(text);
        c.maps = self.maps.clone();
        c
    }
    fn root_text(&self) -> &str {
        &self.files[0].text
    }
    fn is_plain(&self) -> bool {
        self.files.len() == 1 && self.expect == Expect::Plain
    }
    fn to_json(&self) -> Value {
        json!({
            "input": self.files[0].text,
            "root": self.files[0].name,
            "expect": self.expect.name(),
            "desc": self.desc,
            "glyph_maps": self.maps,
            "files": self.files.iter().map(|f| json!({
                "name": f.name, "text": f.text,
                "includes": f.includes.iter().map(|i| json!([i.start, i.end, i.target])).collect::<Vec<_>>(),
            })).collect::<Vec<_>>(),
        })
    }
    fn from_json(v: &Value) -> Option<Case> {
        let mut files = vec![];
        if let Some(fs) = v.get("files").and_then(|f| f.as_array()) {
            for f in fs {
                files.push(SrcFile {
                    name: f.get("name")?.as_str()?.to_string(),
                    text: f.get("text")?.as_str()?.to_string(),
                    includes: f
                        .get("includes")
                        .and_then(|i| i.as_array())
                        .map(|a| {
                            a.iter()
                                .filter_map(|e| {
                                    Some(IncStmt {
                                        start: e.get(0)?.as_u64()? as usize,
                                        end: e.get(1)?.as_u64()? as usize,
                                        target: e.get(2)?.as_str()?.to_string(),
                                    })
                                })
                                .collect()
                        })
                        .unwrap_or_default(),
                });
            }
        }
        // absent or null: the default runs; else a list of null / list of names
        let maps: Option<Vec<Option<Vec<String>>>> = v.get("glyph_maps").and_then(|m| m.as_array()).map(|l| {
            l.iter()
                .map(|m| m.as_array().map(|n| n.iter().filter_map(|x| x.as_str().map(|s| s.to_string())).collect()))
                .collect()
        });
        if files.is_empty() {
            // a hand-written replay file may carry just the text
            let mut c = Case::plain(v.get("input")?.as_str()?.to_string());
            c.maps = maps;
            return Some(c);
        }
        Some(Case {
            maps,
            files,
            expect: Expect::from_name(v.get("expect").and_then(|e| e.as_str()).unwrap_or("plain")),
            desc: v.get("desc").and_then(|e| e.as_str()).unwrap_or("").to_string(),
        })
    }
    fn memo_key(&self) -> String {
        if self.is_plain() && self.maps.is_none() {
            format!("P{}", self.files[0].text)
        } else if self.is_plain() {
            format!("M{}\u{0}{}", maps_tag(&self.maps), self.files[0].text)
        } else {
            self.to_json().to_string()
        }
    }
}

// ------------------------------------------------------------------ sub-spaces

/// Independent (of fea-rs) splitter used only to find edit positions in the corpus files.
#[derive(Clone, Debug)]
struct Unit {
    text: String,
    ws: bool,
}

fn split_units(text: &str) -> Vec<Unit> {
    const PUNCT: &str = ";,{}()[]<>='";
    let cs: Vec<char> = text.chars().collect();
    let mut out = vec![];
    let mut i = 0;
    while i < cs.len() {
        let c = cs[i];
        let start = i;
        let ws;
        if c.is_whitespace() {
            while i < cs.len() && cs[i].is_whitespace() {
                i += 1;
            }
            ws = true;
        } else if c == '#' {
            while i < cs.len() && cs[i] != '\n' {
                i += 1;
            }
            ws = false;
        } else if c == '"' {
            i += 1;
            while i < cs.len() && cs[i] != '"' {
                i += 1;
            }
            i = (i + 1).min(cs.len());
            ws = false;
        } else if PUNCT.contains(c) {
            i += 1;
            ws = false;
        } else {
            while i < cs.len()
                && !cs[i].is_whitespace()
                && !PUNCT.contains(cs[i])
                && cs[i] != '#'
                && cs[i] != '"'
            {
                i += 1;
            }
            ws = false;
        }
        out.push(Unit {
            text: cs[start..i].iter().collect(),
            ws,
        });
    }
    out
}

struct CorpusFile {
    rel: String,
    units: Vec<Unit>,
    /// indices into `units` of the non-whitespace units
    toks: Vec<usize>,
}

struct Corpus {
    files: Vec<CorpusFile>,
    /// number of cases of file i and the prefix sums
    starts: Vec<u64>,
    all_ops: bool,
}

impl Corpus {
    fn load(all_ops: bool) -> Corpus {
        let mut paths = vec![];
        for d in ["parse-tests", "compile-tests"] {
            collect_fea(&Path::new(TEST_DATA).join(d), &mut paths);
        }
        paths.sort();
        let mut files = vec![];
        for p in paths {
            let Ok(text) = std::fs::read_to_string(&p) else {
                continue;
            };
            let units = split_units(&text);
            let toks = units
                .iter()
                .enumerate()
                .filter(|(_, u)| !u.ws)
                .map(|(i, _)| i)
                .collect();
            files.push(CorpusFile {
                rel: p
                    .strip_prefix(TEST_DATA)
                    .unwrap_or(&p)
                    .to_string_lossy()
                    .into_owned(),
                units,
                toks,
            });
        }
        let mut c = Corpus {
            files,
            starts: vec![],
            all_ops,
        };
        let mut acc = 0u64;
        for i in 0..c.files.len() {
            c.starts.push(acc);
            acc += c.file_cases(i);
        }
        c.starts.push(acc);
        c
    }
    fn file_cases(&self, i: usize) -> u64 {
        let t = self.files[i].toks.len() as u64;
        let base = 1 + t + t + t.saturating_sub(1) + t * self.nctrl();
        if self.all_ops {
            base + t * LEXEMES.len() as u64
        } else {
            base
        }
    }
    /// control characters tried after every token
    fn nctrl(&self) -> u64 {
        if self.all_ops { CTRL_EDITS.len() as u64 } else { 1 }
    }
    fn total(&self) -> u64 {
        *self.starts.last().unwrap_or(&0)
    }
    fn tokens(&self) -> u64 {
        self.files.iter().map(|f| f.toks.len() as u64).sum()
    }
    /// (text, description)
    fn case(&self, idx: u64) -> (String, String) {
        let fi = match self.starts.binary_search(&idx) {
            Ok(mut i) => {
                // several files may have zero cases; take the last start equal to idx
                while i + 1 < self.starts.len() - 1 && self.starts[i + 1] == idx {
                    i += 1;
                }
                i
            }
            Err(i) => i - 1,
        };
        let f = &self.files[fi];
        let mut k = idx - self.starts[fi];
        let t = f.toks.len() as u64;
        let mut units: Vec<String> = f.units.iter().map(|u| u.text.clone()).collect();
        let desc;
        if k == 0 {
            desc = format!("{} unedited", f.rel);
        } else {
            k -= 1;
            if k < t {
                let u = f.toks[k as usize];
                desc = format!("{} delete token {k} {:?}", f.rel, units[u]);
                units[u].clear();
            } else if k < 2 * t {
                let p = k - t;
                let u = f.toks[p as usize];
                desc = format!("{} duplicate token {p} {:?}", f.rel, units[u]);
                units[u] = if units[u].starts_with('#') {
                    format!("{}\n{}", units[u], units[u])
                } else {
                    format!("{} {}", units[u], units[u])
                };
            } else if k < 3 * t - 1 {
                let p = k - 2 * t;
                let (u, v) = (f.toks[p as usize], f.toks[p as usize + 1]);
                desc = format!("{} swap tokens {p},{} {:?} {:?}", f.rel, p + 1, units[u], units[v]);
                units.swap(u, v);
            } else if k < 3 * t - 1 + t * self.nctrl() {
                let r = k - (3 * t - 1);
                let (p, c) = (r / self.nctrl(), CTRL_EDITS[(r % self.nctrl()) as usize]);
                let u = f.toks[p as usize];
                desc = format!("{} glue {c:?} to token {p} {:?}", f.rel, units[u]);
                units[u].push_str(c);
            } else {
                let r = k - (3 * t - 1) - t * self.nctrl();
                let p = r / LEXEMES.len() as u64;
                let l = LEXEMES[(r % LEXEMES.len() as u64) as usize];
                let u = f.toks[p as usize];
                desc = format!("{} replace token {p} {:?} by {l:?}", f.rel, units[u]);
                units[u] = l.to_string();
            }
        }
        (units.concat(), desc)
    }
}

fn collect_fea(dir: &Path, out: &mut Vec<PathBuf>) {
    let Ok(rd) = std::fs::read_dir(dir) else {
        return;
    };
    for e in rd.flatten() {
        let p = e.path();
        if p.is_dir() {
            collect_fea(&p, out);
        } else if p.extension().is_some_and(|x| x == "fea") {
            out.push(p);
        }
    }
}

/// `const MAX_INCLUDE_DEPTH: usize = N;` read from the source under test.
fn max_include_depth() -> usize {
    let src = std::fs::read_to_string("/repo/fea-rs/src/parse/context.rs").unwrap_or_default();
    src.lines()
        .find_map(|l| {
            let l = l.trim();
            let rest = l.strip_prefix("const MAX_INCLUDE_DEPTH: usize =")?;
            rest.trim().trim_end_matches(';').trim().parse().ok()
        })
        .unwrap_or(50)
}

enum Space {
    Seq { n: usize, wrapped: bool },
    Chars { m: usize },
    Edits(Corpus),
    Graphs { max_depth: usize },
    Operand { k: usize },
    Blocks { labels: Vec<String>, bodies: usize },
}

fn pow_sum(base: u64, n: usize) -> u64 {
    (0..=n as u32).map(|k| base.pow(k)).sum()
}

/// index -> digit sequence, ordered by length then lexicographically
fn decode_seq(mut idx: u64, base: u64) -> Vec<usize> {
    let mut len = 0u32;
    while idx >= base.pow(len) {
        idx -= base.pow(len);
        len += 1;
    }
    let mut d = vec![0usize; len as usize];
    for k in (0..len as usize).rev() {
        d[k] = (idx % base) as usize;
        idx /= base;
    }
    d
}

const GRAPH_VARIANTS: u64 = 4;

/// The operand of case `idx` of sub-space e.
fn operand_of(idx: u64) -> String {
    let d = decode_seq(idx / OPERAND_TEMPLATES.len() as u64, OPERAND_CHARS.len() as u64);
    d.iter().map(|i| OPERAND_CHARS[*i]).collect()
}

impl Space {
    fn name(&self) -> &'static str {
        match self {
            Space::Seq { wrapped: false, .. } => "a",
            Space::Seq { wrapped: true, .. } => "aw",
            Space::Chars { .. } => "b",
            Space::Edits(_) => "c",
            Space::Graphs { .. } => "d",
            Space::Operand { .. } => "e",
            Space::Blocks { .. } => "f",
        }
    }
    fn arg(&self) -> String {
        match self {
            Space::Seq { n, .. } => n.to_string(),
            Space::Chars { m } => m.to_string(),
            Space::Edits(c) => (c.all_ops as u8).to_string(),
            Space::Graphs { max_depth } => max_depth.to_string(),
            Space::Operand { k } => k.to_string(),
            Space::Blocks { bodies, .. } => bodies.to_string(),
        }
    }
    fn from_worker(name: &str, arg: &str) -> Space {
        let n: usize = arg.parse().unwrap_or(0);
        match name {
            "a" => Space::Seq { n, wrapped: false },
            "aw" => Space::Seq { n, wrapped: true },
            "b" => Space::Chars { m: n },
            "c" => Space::Edits(Corpus::load(n != 0)),
            "e" => Space::Operand { k: n },
            "f" => Space::Blocks { labels: block_labels(), bodies: n },
            _ => Space::Graphs { max_depth: n },
        }
    }
    fn total(&self) -> u64 {
        match self {
            Space::Seq { n, .. } => pow_sum(LEXEMES.len() as u64, *n),
            Space::Chars { m } => pow_sum(CHARS.len() as u64, *m),
            Space::Edits(c) => c.total(),
            Space::Graphs { max_depth } => 512 * GRAPH_VARIANTS + 2 * (*max_depth as u64 + 2),
            Space::Operand { k } => pow_sum(OPERAND_CHARS.len() as u64, *k) * OPERAND_TEMPLATES.len() as u64,
            Space::Blocks { labels, bodies } => ((BLOCK_OPENERS.len() * bodies + TAG_STATEMENTS.len()) * labels.len() * labels.len()) as u64,
        }
    }
    fn case(&self, idx: u64) -> Case {
        match self {
            Space::Seq { wrapped, .. } => {
                let d = decode_seq(idx, LEXEMES.len() as u64);
                let s = d.iter().map(|i| LEXEMES[*i]).collect::<Vec<_>>().join(" ");
                if *wrapped {
                    Case::plain(format!("{WRAP_PRE}{s}{WRAP_POST}"))
                } else {
                    Case::plain(s)
                }
            }
            Space::Chars { .. } => {
                let d = decode_seq(idx, CHARS.len() as u64);
                Case::plain(d.iter().map(|i| CHARS[*i]).collect())
            }
            Space::Edits(c) => {
                let (text, desc) = c.case(idx);
                let mut k = Case::plain(text);
                k.desc = desc;
                k
            }
            Space::Graphs { max_depth } => graph_case(idx, *max_depth),
            Space::Blocks { labels, bodies } => {
                let (nl, nb) = (labels.len() as u64, *bodies as u64);
                let skeletons = BLOCK_OPENERS.len() as u64 * nb * nl * nl;
                if idx >= skeletons {
                    let r = idx - skeletons;
                    let (x, y) = (&labels[((r / nl) % nl) as usize], &labels[(r % nl) as usize]);
                    let st = TAG_STATEMENTS[(r / nl / nl) as usize].replacen('X', x, 1).replacen(" Y", &format!(" {y}"), 1);
                    return Case::plain(format!("table BASE {{ {st} }} BASE;"));
                }
                let body = BLOCK_BODIES[(idx % nb) as usize];
                let close = &labels[((idx / nb) % nl) as usize];
                let open = &labels[((idx / nb / nl) % nl) as usize];
                let opener = BLOCK_OPENERS[(idx / nb / nl / nl) as usize];
                let sep = if body.is_empty() { "" } else { " " };
                Case::plain(format!("{} {{ {body}{sep}}} {close};", opener.replacen(" L", &format!(" {open}"), 1)))
            }
            Space::Operand { .. } => {
                let nt = OPERAND_TEMPLATES.len() as u64;
                let operand = operand_of(idx);
                let mut c = Case::plain(OPERAND_TEMPLATES[(idx % nt) as usize].replace('X', &operand));
                c.desc = format!("operand {operand:?}");
                c.maps = Some(operand_maps());
                c
            }
        }
    }
}

/// File `i` of an include graph: a class definition (valid at top level and in a feature
/// block) followed by one include statement per edge (`dup`: each statement twice).
fn graph_file(i: usize, targets: &[usize], in_feature: bool, dup: bool) -> SrcFile {
    let mut text = String::new();
    let mut includes = vec![];
    if in_feature {
        text.push_str("feature test {\n");
    }
    text.push_str(&format!("@c{i} = [a];\n"));
    for t in targets {
        for _ in 0..if dup { 2 } else { 1 } {
            let stmt = format!("include(f{t}.fea);");
            includes.push(IncStmt {
                start: text.len(),
                end: text.len() + stmt.len(),
                target: format!("f{t}.fea"),
            });
            text.push_str(&stmt);
            text.push('\n');
        }
    }
    if in_feature {
        text.push_str("} test;\n");
    }
    SrcFile {
        name: format!("f{i}.fea"),
        text,
        includes,
    }
}

/// Own analysis of the include graph reachable from file 0:
/// (has a cycle, longest chain of nested include statements if acyclic)
fn graph_shape(files: &[SrcFile]) -> (bool, usize) {
    let idx: HashMap<&str, usize> = files.iter().enumerate().map(|(i, f)| (f.name.as_str(), i)).collect();
    // colours: 0 new, 1 on the path, 2 finished; depth[i] = longest chain below i
    fn visit(i: usize, files: &[SrcFile], idx: &HashMap<&str, usize>, col: &mut [u8], depth: &mut [usize]) -> bool {
        col[i] = 1;
        let mut d = 0;
        for inc in &files[i].includes {
            let Some(&j) = idx.get(inc.target.as_str()) else {
                continue;
            };
            if col[j] == 1 {
                return true;
            }
            if col[j] == 0 && visit(j, files, idx, col, depth) {
                return true;
            }
            d = d.max(1 + depth[j]);
        }
        depth[i] = d;
        col[i] = 2;
        false
    }
    let mut col = vec![0u8; files.len()];
    let mut depth = vec![0usize; files.len()];
    let cyc = visit(0, files, &idx, &mut col, &mut depth);
    (cyc, depth[0])
}

fn graph_case(idx: u64, max_depth: usize) -> Case {
    let ngraph = 512 * GRAPH_VARIANTS;
    if idx < ngraph {
        let g = idx / GRAPH_VARIANTS;
        let v = idx % GRAPH_VARIANTS;
        let (in_feature, dup) = (v & 1 != 0, v & 2 != 0);
        let mut files = vec![];
        let mut desc = String::new();
        for i in 0..3usize {
            let bits = (g >> (3 * i)) & 7;
            let targets: Vec<usize> = (0..3).filter(|j| bits & (1 << j) != 0).collect();
            desc.push_str(&format!(
                "{i}>{{{}}};",
                targets.iter().map(|t| t.to_string()).collect::<Vec<_>>().join(",")
            ));
            files.push(graph_file(i, &targets, in_feature && i == 0, dup));
        }
        desc.push_str(&format!("scope={};dup={}", if in_feature { "feature" } else { "top" }, dup as u8));
        let (cyc, _) = graph_shape(&files);
        Case {
            files,
            expect: if cyc { Expect::MustError } else { Expect::MustNotError },
            desc,
            maps: None,
        }
    } else {
        // chain f0 -> f1 -> ... with `depth` nested include statements
        let k = idx - ngraph;
        let depth = (k / 2) as usize + 1;
        let in_feature = k % 2 == 1;
        let files: Vec<SrcFile> = (0..=depth)
            .map(|i| {
                let t: Vec<usize> = if i < depth { vec![i + 1] } else { vec![] };
                graph_file(i, &t, in_feature && i == 0, false)
            })
            .collect();
        let expect = if depth > max_depth {
            Expect::MustError
        } else if depth <= max_depth / 2 {
            Expect::MustNotError
        } else {
            Expect::Either
        };
        Case {
            files,
            expect,
            desc: format!("chain depth={depth};scope={}", if in_feature { "feature" } else { "top" }),
            maps: None,
        }
    }
}

// ------------------------------------------------------------------ oracle

thread_local! {
    static LAST_PANIC: RefCell<Option<(String, u32, String)>> = const { RefCell::new(None) };
}

/// When set (single-case processes, on request) the panic hook also names the innermost
/// fea-rs function on the stack, which gives panic classes a name that survives line shifts.
static WANT_BACKTRACE: std::sync::atomic::AtomicBool = std::sync::atomic::AtomicBool::new(false);

fn innermost_fea_rs_frame() -> Option<String> {
    let bt = std::backtrace::Backtrace::force_capture().to_string();
    for l in bt.lines() {
        let l = l.trim();
        let Some((n, sym)) = l.split_once(": ") else {
            continue;
        };
        if !n.bytes().all(|b| b.is_ascii_digit()) {
            continue;
        }
        let sym = sym.trim();
        if sym.contains("fea_rs::") {
            // drop a trailing hash and closure markers
            let mut s = sym.to_string();
            if let Some(i) = s.rfind("::h") {
                if s[i + 3..].len() == 16 && s[i + 3..].bytes().all(|b| b.is_ascii_hexdigit()) {
                    s.truncate(i);
                }
            }
            while let Some(t) = s.strip_suffix("::{{closure}}") {
                s = t.to_string();
            }
            return Some(s);
        }
    }
    None
}

fn install_hook() {
    std::panic::set_hook(Box::new(|info| {
        let (file, line) = info
            .location()
            .map(|l| (l.file().to_string(), l.line()))
            .unwrap_or_default();
        let msg = info
            .payload()
            .downcast_ref::<String>()
            .cloned()
            .or_else(|| info.payload().downcast_ref::<&str>().map(|s| s.to_string()))
            .unwrap_or_default();
        let msg = if WANT_BACKTRACE.load(std::sync::atomic::Ordering::Relaxed) {
            match innermost_fea_rs_frame() {
                Some(f) => format!("{} [in {f}]", msg.chars().take(160).collect::<String>()),
                None => msg,
            }
        } else {
            msg
        };
        LAST_PANIC.with(|c| *c.borrow_mut() = Some((file, line, msg)));
    }));
}

fn norm_src_path(p: &str) -> String {
    if let Some(i) = p.find("fea-rs/src/") {
        return p[i + "fea-rs/src/".len()..].to_string();
    }
    let parts: Vec<&str> = p.split('/').collect();
    parts[parts.len().saturating_sub(3)..].join("/")
}

/// Run `f`; a panic comes back as (normalised source file, "msg at file:line").
fn guarded<T>(f: impl FnOnce() -> T) -> Result<T, (String, String)> {
    LAST_PANIC.with(|c| *c.borrow_mut() = None);
    match catch_unwind(AssertUnwindSafe(f)) {
        Ok(v) => Ok(v),
        Err(_) => {
            let (file, line, msg) = LAST_PANIC.with(|c| c.borrow_mut().take()).unwrap_or_default();
            let nf = norm_src_path(&file);
            Err((format!("{nf}:{line}"), format!("panicked at {nf}:{line}: {}", msg.chars().take(400).collect::<String>())))
        }
    }
}

struct Ctx {
    full: GlyphMap,
    /// the names of `full`, for the oracle's own name-or-range model
    full_names: HashSet<String>,
    empty: GlyphMap,
}

/// A glyph map from names; `\N` is the CID N.
fn make_glyph_map(names: &[String]) -> GlyphMap {
    GlyphMap::new(names.iter().map(|n| match n.strip_prefix('\\').and_then(|c| c.parse::<u16>().ok()) {
        Some(cid) => GlyphIdent::Cid(cid),
        None => GlyphIdent::from(n.as_str()),
    }))
    .unwrap_or_else(|e| vcore::machinery_error(&format!("glyph map: {e}")))
}

impl Ctx {
    fn new() -> Ctx {
        let order = std::fs::read_to_string(format!("{TEST_DATA}/simple_glyph_order.txt")).unwrap_or_default();
        let mut names: Vec<String> = order
            .lines()
            .map(|l| l.trim())
            .filter(|l| !l.is_empty() && !l.starts_with('#'))
            .map(|l| l.to_string())
            .collect();
        if names.is_empty() {
            names.push(".notdef".into());
        }
        for extra in ["a", "b", "c", "A", "a-b", "a-b-c", "0", "s", "test", "\u{e9}"] {
            if !names.iter().any(|n| n == extra) {
                names.push(extra.to_string());
            }
        }
        let full = GlyphMap::new(names.iter().map(|s| s.as_str()))
            .unwrap_or_else(|e| vcore::machinery_error(&format!("glyph map: {e}")));
        let empty = GlyphMap::new(Vec::<&str>::new()).unwrap_or_default();
        Ctx { full, full_names: names.into_iter().collect(), empty }
    }
}

#[derive(Default, Debug)]
struct Judgement {
    /// (signature, detail)
    fails: Vec<(String, String)>,
    nontrivial: bool,
    error_free: bool,
    validations: u32,
    diags: u32,
    /// front-end runs (parses) of this case
    parses: u32,
    /// name-or-range disambiguation, summed over the runs with a glyph map: tokens that are
    /// `GlyphNameOrRange` without a glyph map, and what the glyph map made of them
    amb_tokens: u32,
    amb_kept_name: u32,
    amb_split: u32,
    amb_no_solution: u32,
    amb_several_solutions: u32,
    /// some tree of the case has a `GlyphRange` node
    has_range_node: bool,
    /// some tree of the case has an ambiguous token (no glyph map) / a range node made by the glyph map
    has_amb_token: bool,
}

impl Judgement {
    fn fail(&mut self, sig: impl Into<String>, detail: impl Into<String>) {
        let sig = sig.into();
        if !self.fails.iter().any(|(s, _)| *s == sig) {
            self.fails.push((sig, detail.into()));
        }
    }
}

fn do_parse(case: &Case, gm: Option<&GlyphMap>) -> Result<(ParseTree, DiagnosticSet), String> {
    if case.is_plain() && gm.is_none() && !case.root_text().contains("include") {
        // the convenience entry point (documented to panic on include statements only)
        return Ok(parse_string(case.root_text()));
    }
    let map: HashMap<PathBuf, Arc<str>> = case
        .files
        .iter()
        .map(|f| (PathBuf::from(&f.name), Arc::from(f.text.as_str())))
        .collect();
    parse_root(
        PathBuf::from(&case.files[0].name),
        gm,
        Box::new(move |p: &Path| {
            map.get(p)
                .cloned()
                .ok_or_else(|| SourceLoadError::new(p.to_path_buf(), "no such file"))
        }),
    )
    .map_err(|e| e.to_string())
}

/// Every diagnostic must name a source of the tree and a range inside it on char boundaries,
/// and the set must be printable.
fn check_diags(tree: &ParseTree, ds: &DiagnosticSet, stage: &str, cfg: &str, j: &mut Judgement) {
    for d in ds.diagnostics() {
        j.diags += 1;
        match tree.get_source(d.message.file) {
            None => j.fail(
                format!("diag-unknown-source:{stage}:{}", d.text()),
                format!("[{cfg}] diagnostic {:?} names a file id that is not a source of the tree", d.text()),
            ),
            Some(src) => {
                let t = src.text();
                let r = d.span();
                if r.start > r.end || r.end > t.len() {
                    j.fail(
                        format!("diag-span-outside:{stage}:{}", d.text()),
                        format!("[{cfg}] diagnostic {:?} span {r:?} outside source {:?} of {} bytes", d.text(), src.path(), t.len()),
                    );
                } else if !t.is_char_boundary(r.start) || !t.is_char_boundary(r.end) {
                    j.fail(
                        format!("diag-span-not-char-boundary:{stage}:{}", d.text()),
                        format!("[{cfg}] diagnostic {:?} span {r:?} not on char boundaries of {:?}", d.text(), src.path()),
                    );
                }
            }
        }
    }
    if let Err((file, msg)) = guarded(|| format!("{}", ds.display()).len()) {
        j.fail(format!("panic:display-{stage}:{file}"), format!("[{cfg}] printing the diagnostics {msg}"));
    }
}

/// The text the tree must spell: the root with every include statement that was not
/// refused (error diagnostic on it) replaced by the expansion of its target.
fn expected_text(case: &Case, skipped: &HashSet<(usize, usize)>) -> Result<String, String> {
    fn rec(case: &Case, i: usize, skipped: &HashSet<(usize, usize)>, depth: usize, out: &mut String) -> Result<(), String> {
        if depth > 400 || out.len() > (8 << 20) {
            return Err("expansion does not terminate with the refused statements removed".into());
        }
        let f = &case.files[i];
        let mut pos = 0;
        for (k, inc) in f.includes.iter().enumerate() {
            if skipped.contains(&(i, k)) {
                continue;
            }
            let Some(j) = case.files.iter().position(|g| g.name == inc.target) else {
                continue;
            };
            out.push_str(&f.text[pos..inc.start]);
            rec(case, j, skipped, depth + 1, out)?;
            pos = inc.end;
        }
        out.push_str(&f.text[pos..]);
        Ok(())
    }
    let mut out = String::new();
    rec(case, 0, skipped, 0, &mut out)?;
    Ok(out)
}

/// One token of a tree: kind and position in the concatenated token texts.
#[derive(Clone, Copy)]
struct Tok {
    kind: Kind,
    start: usize,
    len: usize,
}

/// What the oracle reads off one tree.
#[derive(Default)]
struct Walk {
    /// concatenation of the token texts in `iter_tokens` order
    joined: String,
    toks: Vec<Tok>,
    /// `GlyphRange` nodes: (index of the first token below it, number of tokens below it)
    ranges: Vec<(usize, usize)>,
    /// tokens that are not whitespace / comment
    ntok: usize,
    good_node: bool,
    /// first token or node whose recorded position is not the sum of the text lengths before it
    misplaced: Option<String>,
    /// the recursive descent over `iter_children` met other tokens than `iter_tokens`
    iter_mismatch: bool,
}

impl Walk {
    fn text(&self, i: usize) -> &str {
        let t = &self.toks[i];
        &self.joined[t.start..t.start + t.len]
    }
}

fn walk_node(n: &Node, w: &mut Walk, off: &mut usize, check_pos: bool) {
    for c in n.iter_children() {
        match c {
            NodeOrToken::Token(t) => {
                let len = t.as_str().len();
                if check_pos && w.misplaced.is_none() && t.range() != (*off..*off + len) {
                    w.misplaced = Some(format!("token {:?} ({}) says range {:?} but the texts before it have {} bytes", t.as_str(), t.kind, t.range(), *off));
                }
                w.toks.push(Tok { kind: t.kind, start: *off, len });
                *off += len;
            }
            NodeOrToken::Node(m) => {
                let (first, start) = (w.toks.len(), *off);
                walk_node(m, w, off, check_pos);
                if check_pos && w.misplaced.is_none() && m.range() != (start..*off) {
                    w.misplaced = Some(format!("node {} says range {:?} but its tokens span {:?}", m.kind(), m.range(), start..*off));
                }
                if m.kind() == Kind::GlyphRange {
                    w.ranges.push((first, w.toks.len() - first));
                }
            }
        }
    }
}

fn walk_tree(tree: &ParseTree, check_pos: bool) -> Walk {
    let mut w = Walk::default();
    for t in tree.root().iter_tokens() {
        w.joined.push_str(t.as_str());
        if !matches!(t.kind, Kind::Whitespace | Kind::Comment) {
            w.ntok += 1;
        }
    }
    w.good_node = tree.root().iter_children().any(|c| c.as_node().is_some_and(|n| !n.error));
    let mut off = 0;
    walk_node(tree.root(), &mut w, &mut off, check_pos);
    // the descent must have met the same texts in the same order
    let mut at = 0;
    let mut n = 0;
    for t in tree.root().iter_tokens() {
        if n >= w.toks.len() || w.toks[n].start != at || w.toks[n].len != t.as_str().len() {
            w.iter_mismatch = true;
            break;
        }
        at += t.as_str().len();
        n += 1;
    }
    if n != w.toks.len() {
        w.iter_mismatch = true;
    }
    w
}

/// The effect of the glyph map on the tokens, judged against the oracle's own model of the
/// name-or-range rule (feature file syntax 2.g.ii: a name with hyphens that is a glyph of the
/// font is that glyph; otherwise it is a range if it can be cut at ONE hyphen into two glyphs
/// of the font; anything else is an error): `w0` is the tree parsed without a glyph map, `w1`
/// the one parsed with the glyph map whose names `known` answers for. Every token must be the
/// same in both, except that a `GlyphNameOrRange` token becomes a `GlyphName` (known name), a
/// `GlyphRange` node of exactly name, hyphen, name spelling the token (one cut), or stays as it
/// is under an error diagnostic (no cut, several cuts).
fn check_map_effect(
    w0: &Walk,
    w1: &Walk,
    known: &dyn Fn(&str) -> bool,
    err_spans: Option<&[std::ops::Range<usize>]>,
    cfg: &str,
    j: &mut Judgement,
) {
    let (mut i, mut k) = (0usize, 0usize);
    while i < w0.toks.len() {
        let (t0, s0) = (w0.toks[i], w0.text(i));
        if k >= w1.toks.len() {
            j.fail("glyph-map-changes-tokens", format!("[{cfg}] the tree has fewer tokens than the one parsed without a glyph map (missing from {s0:?} at byte {})", t0.start));
            return;
        }
        let (t1, s1) = (w1.toks[k], w1.text(k));
        if t0.kind != Kind::GlyphNameOrRange {
            if s0 != s1 || t0.kind != t1.kind {
                j.fail(
                    "glyph-map-changes-tokens",
                    format!("[{cfg}] token {s0:?} ({}) at byte {} of the tree parsed without a glyph map is {s1:?} ({}) with it", t0.kind, t0.start, t1.kind),
                );
                return;
            }
            i += 1;
            k += 1;
            continue;
        }
        j.amb_tokens += 1;
        if known(s0) {
            if s1 != s0 {
                j.fail("known-name-split", format!("[{cfg}] {s0:?} is a glyph of the glyph map but the tree has the token {s1:?} in its place"));
                return;
            }
            if t1.kind != Kind::GlyphName {
                j.fail("known-name-kind", format!("[{cfg}] {s0:?} is a glyph of the glyph map but its token has kind {}", t1.kind));
                return;
            }
            j.amb_kept_name += 1;
            i += 1;
            k += 1;
            continue;
        }
        let cuts: Vec<usize> = s0
            .bytes()
            .enumerate()
            .filter(|(p, b)| *b == b'-' && known(&s0[..*p]) && known(&s0[*p + 1..]))
            .map(|(p, _)| p)
            .collect();
        if cuts.len() == 1 {
            let (head, tail) = (&s0[..cuts[0]], &s0[cuts[0] + 1..]);
            let ok = k + 2 < w1.toks.len()
                && w1.text(k) == head
                && w1.text(k + 1) == "-"
                && w1.text(k + 2) == tail
                && w1.toks[k].kind == Kind::GlyphName
                && w1.toks[k + 1].kind == Kind::Hyphen
                && w1.toks[k + 2].kind == Kind::GlyphName
                && w1.ranges.contains(&(k, 3));
            if !ok {
                let got: Vec<String> = (k..(k + 3).min(w1.toks.len())).map(|x| format!("{:?} ({})", w1.text(x), w1.toks[x].kind)).collect();
                j.fail(
                    "range-split-wrong",
                    format!("[{cfg}] {s0:?} is not a glyph and has exactly one cut into glyphs ({head:?} - {tail:?}); expected a GlyphRange node of these, found {}", got.join(" ")),
                );
                return;
            }
            j.amb_split += 1;
            i += 1;
            k += 3;
            continue;
        }
        if s1 != s0 {
            j.fail(
                "range-split-unexpected",
                format!("[{cfg}] {s0:?} is not a glyph and has {} cuts into two glyphs of the glyph map, but the tree has {s1:?} in its place", cuts.len()),
            );
            return;
        }
        if t1.kind != Kind::GlyphNameOrRange {
            j.fail("ambiguous-name-kind", format!("[{cfg}] {s0:?} is neither a glyph nor a range (cuts: {}) but its token has kind {}", cuts.len(), t1.kind));
            return;
        }
        if let Some(errs) = err_spans {
            if !errs.iter().any(|r| r.start < t1.start + t1.len && t1.start < r.end) {
                j.fail(
                    "ambiguous-name-no-error",
                    format!("[{cfg}] {s0:?} is neither a glyph nor a range of glyphs (cuts: {}) and no error diagnostic covers it", cuts.len()),
                );
                return;
            }
        }
        if cuts.is_empty() {
            j.amb_no_solution += 1;
        } else {
            j.amb_several_solutions += 1;
        }
        i += 1;
        k += 1;
    }
    if k != w1.toks.len() {
        j.fail("glyph-map-changes-tokens", format!("[{cfg}] the tree has {} tokens more than the one parsed without a glyph map", w1.toks.len() - k));
    }
}

/// One front-end configuration of a case.
struct RunCfg<'a> {
    label: String,
    gm: Option<&'a GlyphMap>,
    names: Option<&'a HashSet<String>>,
}

fn judge(case: &Case, ctx: &Ctx, parse_only: bool) -> Judgement {
    let mut j = Judgement::default();
    // the compiler's own pipeline (parse with the glyph map, validate with it) first; what
    // only happens when a tree parsed without a glyph map is validated is a class of its own
    let own: Vec<(String, GlyphMap, HashSet<String>)> = case
        .maps
        .iter()
        .flatten()
        .flatten()
        .map(|names| (format!("glyph-map{{{}}}", names.join(",")), make_glyph_map(names), names.iter().cloned().collect()))
        .collect();
    let mut cfgs: Vec<RunCfg> = vec![];
    match &case.maps {
        None => {
            cfgs.push(RunCfg { label: "glyph-map".into(), gm: Some(&ctx.full), names: Some(&ctx.full_names) });
            cfgs.push(RunCfg { label: "no-glyph-map".into(), gm: None, names: None });
        }
        Some(l) => {
            for (label, gm, names) in &own {
                cfgs.push(RunCfg { label: label.clone(), gm: Some(gm), names: Some(names) });
            }
            if l.iter().any(|m| m.is_none()) {
                cfgs.push(RunCfg { label: "no-glyph-map".into(), gm: None, names: None });
            }
        }
    }
    // the glyph map a tree parsed without one is validated with (besides the empty one)
    let big: (&str, &GlyphMap) = match (&case.maps, own.iter().max_by_key(|o| o.2.len())) {
        (Some(_), Some(o)) => ("largest", &o.1),
        _ => ("full", &ctx.full),
    };
    let plain = case.is_plain();
    // (cfg index, walk, spans of the error diagnostics) of the runs with a glyph map
    let mut mapped: Vec<(usize, Walk, Vec<std::ops::Range<usize>>)> = vec![];
    for (ci, rc) in cfgs.iter().enumerate() {
        let (cfg, gm) = (rc.label.as_str(), rc.gm);
        let class = if gm.is_some() { "glyph-map" } else { "no-glyph-map" };
        j.parses += 1;
        let parsed = match guarded(|| do_parse(case, gm)) {
            Err((file, msg)) => {
                j.fail(format!("panic:parse:{file}"), format!("[{cfg}] parser {msg}"));
                continue;
            }
            Ok(Err(e)) => {
                j.fail("root-not-loaded", format!("[{cfg}] {e}"));
                continue;
            }
            Ok(Ok(p)) => p,
        };
        let (tree, diags) = parsed;
        let w = match guarded(|| walk_tree(&tree, plain)) {
            Ok(w) => w,
            Err((file, msg)) => {
                j.fail(format!("panic:walk:{file}"), format!("[{cfg}] walking the tree {msg}"));
                continue;
            }
        };
        if gm.is_none() {
            j.nontrivial = w.good_node || w.ntok >= 2;
            j.has_amb_token |= w.toks.iter().any(|t| t.kind == Kind::GlyphNameOrRange);
        }
        j.has_range_node |= !w.ranges.is_empty();
        if w.iter_mismatch {
            j.fail("iter-tokens-mismatch", format!("[{cfg}] iter_tokens and a descent over iter_children give different token sequences"));
        }
        if let Some(m) = &w.misplaced {
            j.fail(format!("position:{class}"), format!("[{cfg}] {m}"));
        }
        check_diags(&tree, &diags, "parse", cfg, &mut j);

        // which generated include statements were refused?
        let mut skipped = HashSet::new();
        if !plain {
            for d in diags.diagnostics().iter().filter(|d| d.is_error()) {
                let Some(src) = tree.get_source(d.message.file) else {
                    continue;
                };
                let Some(fi) = case.files.iter().position(|f| Path::new(&f.name) == src.path()) else {
                    continue;
                };
                let r = d.span();
                for (k, inc) in case.files[fi].includes.iter().enumerate() {
                    if r.start < inc.end && inc.start < r.end {
                        skipped.insert((fi, k));
                    }
                }
            }
        }
        match expected_text(case, &skipped) {
            Err(e) => j.fail("include-expansion-unbounded", format!("[{cfg}] {e}")),
            Ok(want) => {
                if w.joined != want {
                    let at = w
                        .joined
                        .bytes()
                        .zip(want.bytes())
                        .position(|(a, b)| a != b)
                        .unwrap_or(w.joined.len().min(want.len()));
                    j.fail(
                        format!("not-lossless:{class}"),
                        format!(
                            "[{cfg}] token texts concatenate to {} bytes, expected {} bytes; first difference at byte {at}",
                            w.joined.len(),
                            want.len()
                        ),
                    );
                }
                if tree.root().text_len() != want.len() {
                    j.fail(
                        "root-length",
                        format!("[{cfg}] root text_len {} but the text has {} bytes", tree.root().text_len(), want.len()),
                    );
                }
            }
        }
        let has_err = diags.has_errors();
        match case.expect {
            Expect::MustError if !has_err => j.fail(
                "include-no-error",
                format!("[{cfg}] cyclic or too deep include graph ({}) produced no error diagnostic", case.desc),
            ),
            Expect::MustNotError if has_err => j.fail(
                "include-spurious-error",
                format!(
                    "[{cfg}] acyclic shallow include graph ({}) produced an error: {:?}",
                    case.desc,
                    diags.diagnostics().iter().find(|d| d.is_error()).map(|d| d.text().to_string())
                ),
            ),
            _ => {}
        }
        if gm.is_none() {
            j.error_free = !has_err;
            // the runs with a glyph map against this one
            for (mi, w1, errs) in &mapped {
                let rc1 = &cfgs[*mi];
                let Some(names) = rc1.names else { continue };
                if w1.joined != w.joined {
                    // the two trees do not even spell the same text (reported above as
                    // not-lossless or as an include error); there is nothing to align
                    continue;
                }
                check_map_effect(&w, w1, &|s: &str| names.contains(s), plain.then_some(errs.as_slice()), &rc1.label, &mut j);
            }
        } else {
            let errs = diags.diagnostics().iter().filter(|d| d.is_error()).map(|d| d.span()).collect();
            mapped.push((ci, w, errs));
        }
        if has_err || parse_only {
            continue;
        }
        let own_map = [(cfg, gm.unwrap_or(&ctx.empty))];
        let mapless = [("empty", &ctx.empty), big];
        let maps: &[(&str, &GlyphMap)] = if gm.is_none() { &mapless } else { &own_map };
        let stage = if gm.is_none() { "validate-mapless" } else { "validate" };
        for (mname, m) in maps {
            j.validations += 1;
            match guarded(|| validate(&tree, m, None::<&NopVariationInfo>)) {
                Err((file, msg)) => {
                    if !j.fails.iter().any(|(s, _)| *s == format!("panic:validate:{file}")) {
                        j.fail(
                            format!("panic:{stage}:{file}"),
                            format!("[parsed with {cfg}, validated with {mname} glyph map] validation {msg}"),
                        )
                    }
                }
                Ok(vd) => check_diags(&tree, &vd, stage, cfg, &mut j),
            }
        }
    }
    j
}

// ------------------------------------------------------------------ worker

fn is_lexeme_sequence(text: &str) -> bool {
    let words: Vec<&str> = text.split(' ').collect();
    text.is_empty() || (words.len() <= 8 && words.iter().all(|w| LEXEMES.iter().any(|l| l == w)))
}

fn is_char_string(text: &str) -> bool {
    text.chars().count() <= 8 && text.chars().all(|c| CHARS.iter().any(|s| s.chars().next() == Some(c)))
}

fn gcd(a: u64, b: u64) -> u64 {
    if b == 0 { a } else { gcd(b, a % b) }
}

/// Sweep positions are spread over the case indices by a fixed stride coprime to the total,
/// so that neighbouring (similar, possibly all hanging) cases land in different chunks.
fn stride_for(total: u64) -> u64 {
    if total < 3 {
        return 1;
    }
    let mut p = ((total as f64 * 0.618_033_988_7) as u64).max(1);
    while gcd(p, total) != 1 {
        p += 1;
    }
    p
}

fn permute(pos: u64, stride: u64, total: u64) -> u64 {
    ((pos as u128 * stride as u128) % total.max(1) as u128) as u64
}

/// CPU-time clock of the calling thread, readable from other threads.
fn own_cpu_clock() -> libc::clockid_t {
    let mut cid: libc::clockid_t = 0;
    unsafe { libc::pthread_getcpuclockid(libc::pthread_self(), &mut cid) };
    cid
}

fn cpu_ms(cid: libc::clockid_t) -> u64 {
    let mut ts = libc::timespec { tv_sec: 0, tv_nsec: 0 };
    unsafe { libc::clock_gettime(cid, &mut ts) };
    ts.tv_sec as u64 * 1000 + ts.tv_nsec as u64 / 1_000_000
}

/// What the case-running thread is on: 0 when idle, otherwise a ticket that changes per case.
static TICKET: std::sync::atomic::AtomicU64 = std::sync::atomic::AtomicU64::new(0);
/// CPU deadline of the current ticket in ms.
static TICKET_LIMIT_MS: std::sync::atomic::AtomicU64 = std::sync::atomic::AtomicU64::new(0);

/// Watches the calling thread: when it has burnt more than the limit of CPU time on one ticket,
/// `on_stall(limit)` runs (on the watchdog thread) and the process exits with `code`.
fn start_cpu_watchdog(code: i32, on_stall: impl Fn(u64) + Send + 'static) {
    use std::sync::atomic::Ordering::SeqCst;
    let cid = own_cpu_clock();
    std::thread::spawn(move || {
        let (mut last, mut base) = (0u64, 0u64);
        loop {
            std::thread::sleep(Duration::from_millis(20));
            let cur = TICKET.load(SeqCst);
            if cur == 0 {
                last = 0;
                continue;
            }
            if cur != last {
                last = cur;
                base = cpu_ms(cid);
                continue;
            }
            let limit = TICKET_LIMIT_MS.load(SeqCst);
            if cpu_ms(cid).saturating_sub(base) > limit && TICKET.load(SeqCst) == cur {
                on_stall(limit);
                unsafe { libc::_exit(code) };
            }
        }
    });
}

/// A worker or single-case process must not outlive the process that waits for it
/// (it may be in an allocating endless loop).
fn die_with_parent() {
    let parent = unsafe { libc::getppid() };
    std::thread::spawn(move || {
        loop {
            std::thread::sleep(Duration::from_millis(250));
            if unsafe { libc::getppid() } != parent {
                std::process::exit(3);
            }
        }
    });
}

fn run_worker(name: &str, arg: &str) -> ! {
    die_with_parent();
    install_hook();
    let space = Space::from_worker(name, arg);
    let ctx = Ctx::new();
    let want_hashes = matches!(space, Space::Edits(_) | Space::Graphs { .. });
    let is_chars = matches!(space, Space::Chars { .. });
    let is_operand = matches!(space, Space::Operand { .. });
    let total = space.total();
    let stride = stride_for(total);
    TICKET_LIMIT_MS.store(WORKER_STALL_MS, std::sync::atomic::Ordering::SeqCst);
    start_cpu_watchdog(86, |_| {});
    sweep::worker_loop(|lo, hi, progress| {
        // per signature: number of failing cases, and the EXAMPLES_PER_CHUNK shortest of them
        let mut fails: BTreeMap<String, (u64, Vec<(usize, u64)>)> = BTreeMap::new();
        let mut details: BTreeMap<String, String> = BTreeMap::new();
        let (mut nontrivial, mut error_free, mut validations, mut diags) = (0u64, 0u64, 0u64, 0u64);
        let mut hashes: Vec<u64> = vec![];
        let mut slow = (0u64, 0u64);
        let mut chain_status: Vec<Value> = vec![];
        let mut ctr: BTreeMap<&'static str, u64> = BTreeMap::new();
        for pos in lo..hi {
            progress.begin(pos);
            TICKET.store(pos + 1, std::sync::atomic::Ordering::SeqCst);
            let idx = permute(pos, stride, total);
            let case = space.case(idx);
            let t = Instant::now();
            let j = judge(&case, &ctx, false);
            let us = t.elapsed().as_micros() as u64;
            if us > slow.0 {
                slow = (us, idx);
            }
            // distinctness: a and aw are distinct by construction; b strings that are also
            // a-strings, and c/d texts that are also a/b strings, are not counted again
            let dup_of_other_space = if is_chars {
                is_lexeme_sequence(case.root_text())
            } else if want_hashes {
                case.is_plain() && (is_lexeme_sequence(case.root_text()) || is_char_string(case.root_text()))
            } else {
                false
            };
            for (k, v) in [
                ("front_end_runs", j.parses as u64),
                ("ambiguous_tokens_x_glyph_maps", j.amb_tokens as u64),
                ("kept_as_known_glyph_name", j.amb_kept_name as u64),
                ("split_into_range_by_glyph_map", j.amb_split as u64),
                ("left_ambiguous_no_cut", j.amb_no_solution as u64),
                ("left_ambiguous_several_cuts", j.amb_several_solutions as u64),
                ("inputs_with_range_node", j.has_range_node as u64),
                ("inputs_with_ambiguous_token", j.has_amb_token as u64),
                ("inputs_split_by_glyph_map", (j.amb_split > 0) as u64),
            ] {
                *ctr.entry(k).or_default() += v;
            }
            // in e the mechanism is the name-or-range rule: an input counts when its tree has an
            // ambiguous token or a range node
            let nontrivial_here = if is_operand { j.has_amb_token || j.has_range_node } else { j.nontrivial };
            if nontrivial_here && !dup_of_other_space {
                if want_hashes {
                    hashes.push(vcore::hash64(case.memo_key().as_bytes()));
                } else {
                    nontrivial += 1;
                }
            }
            error_free += j.error_free as u64;
            validations += j.validations as u64;
            diags += j.diags as u64;
            if case.desc.starts_with("chain ") {
                chain_status.push(json!([case.desc, if j.error_free { "accepted" } else { "rejected" }]));
            }
            for (sig, detail) in j.fails {
                details.entry(sig.clone()).or_insert(detail);
                let e = fails.entry(sig).or_default();
                e.0 += 1;
                e.1.push((case.root_text().len(), idx));
                if e.1.len() > 4 * EXAMPLES_PER_CHUNK {
                    e.1.sort();
                    e.1.truncate(EXAMPLES_PER_CHUNK);
                }
            }
        }
        TICKET.store(0, std::sync::atomic::Ordering::SeqCst);
        let fails: BTreeMap<String, Value> = fails
            .into_iter()
            .map(|(sig, (n, mut ex))| {
                ex.sort();
                ex.truncate(EXAMPLES_PER_CHUNK);
                (sig, json!({"n": n, "ex": ex.iter().map(|(_, i)| *i).collect::<Vec<_>>()}))
            })
            .collect();
        json!({
            "n": hi - lo, "nontrivial": nontrivial, "error_free": error_free,
            "validations": validations, "diags": diags, "hashes": hashes,
            "fails": fails, "details": details, "slow_us": slow.0, "slow_idx": slow.1,
            "chains": chain_status, "ctr": ctr,
        })
    })
}

// ------------------------------------------------------------------ single-case subprocess

fn run_one(path: &str) -> ! {
    die_with_parent();
    install_hook();
    let v: Value = std::fs::read_to_string(path)
        .ok()
        .and_then(|s| serde_json::from_str(&s).ok())
        .unwrap_or(Value::Null);
    let Some(case) = Case::from_json(&v) else {
        eprintln!("cannot read case from {path}");
        std::process::exit(2)
    };
    let parse_only = std::env::var("C13_PARSE_ONLY").is_ok();
    WANT_BACKTRACE.store(true, std::sync::atomic::Ordering::Relaxed);
    let limit = std::env::var("C13_CPU_MS").ok().and_then(|s| s.parse().ok()).unwrap_or(CASE_TIMEOUT_MS);
    let ctx = Ctx::new();
    TICKET_LIMIT_MS.store(limit, std::sync::atomic::Ordering::SeqCst);
    start_cpu_watchdog(87, report_stall);
    TICKET.store(1, std::sync::atomic::Ordering::SeqCst);
    let j = judge(&case, &ctx, parse_only);
    answer(&json!({"fails": j.fails, "nontrivial": j.nontrivial, "error_free": j.error_free}));
    std::process::exit(0)
}

/// Print the result line of the current ticket and close the ticket, atomically with
/// respect to the watchdog's own "hang" line.
fn answer(v: &Value) {
    use std::io::Write;
    let so = std::io::stdout();
    let mut o = so.lock();
    TICKET.store(0, std::sync::atomic::Ordering::SeqCst);
    let _ = writeln!(o, "ONE {v}");
    let _ = o.flush();
}

/// The watchdog's answer for a case that used up its CPU deadline.
fn report_stall(limit: u64) {
    use std::io::Write;
    let so = std::io::stdout();
    let mut o = so.lock();
    if TICKET.load(std::sync::atomic::Ordering::SeqCst) != 0 {
        let v = json!({"fails": [["hang", format!("no result after {limit} ms of CPU time")]]});
        let _ = writeln!(o, "ONE {v}");
        let _ = o.flush();
    } else {
        // the case finished in the meantime; let its answer stand
        drop(o);
        std::thread::sleep(Duration::from_millis(200));
    }
}

/// `c13 --show <text>`: debugging aid, prints trees and diagnostics of one text (no isolation).
fn run_show(text: &str) -> ! {
    install_hook();
    let ctx = Ctx::new();
    let case = Case::plain(text.to_string());
    // an optional third argument is a comma-separated glyph map
    let extra: Option<GlyphMap> = std::env::args().nth(3).map(|l| make_glyph_map(&l.split(',').map(|x| x.to_string()).collect::<Vec<_>>()));
    let mut cfgs = vec![("no-glyph-map", None), ("glyph-map", Some(&ctx.full))];
    if let Some(m) = &extra {
        cfgs = vec![("given glyph map", Some(m))];
    }
    for (cfg, gm) in cfgs {
        println!("=== {cfg}");
        match guarded(|| do_parse(&case, gm)) {
            Ok(Ok((tree, diags))) => {
                println!("{}", tree.root().simple_parse_tree());
                for d in diags.diagnostics() {
                    println!("  {:?} {:?} {}", d.level, d.span(), d.text());
                }
                if !diags.has_errors() {
                    for (mname, m) in [("empty", &ctx.empty), ("full", &ctx.full)] {
                        match guarded(|| validate(&tree, m, None::<&NopVariationInfo>)) {
                            Ok(vd) => {
                                println!("  validate[{mname}]: {} diagnostics", vd.len());
                                for d in vd.diagnostics() {
                                    println!("    {:?} {:?} {}", d.level, d.span(), d.text());
                                }
                            }
                            Err((_, msg)) => println!("  validate[{mname}]: {msg}"),
                        }
                    }
                }
            }
            Ok(Err(e)) => println!("  load error {e}"),
            Err((_, msg)) => println!("  parse {msg}"),
        }
    }
    std::process::exit(0)
}

/// `c13 --serve`: a warm single-case process; one JSON request per line, one `ONE` line back.
fn run_server() -> ! {
    use std::io::BufRead;
    die_with_parent();
    install_hook();
    let ctx = Ctx::new();
    start_cpu_watchdog(87, report_stall);
    println!("ONE ready");
    let stdin = std::io::stdin();
    let mut line = String::new();
    let mut ticket = 0u64;
    loop {
        line.clear();
        match stdin.lock().read_line(&mut line) {
            Ok(0) | Err(_) => std::process::exit(0),
            Ok(_) => {}
        }
        let v: Value = serde_json::from_str(&line).unwrap_or(Value::Null);
        let parse_only = v.get("parse_only").and_then(|p| p.as_bool()).unwrap_or(false);
        WANT_BACKTRACE.store(
            v.get("backtrace").and_then(|p| p.as_bool()).unwrap_or(false),
            std::sync::atomic::Ordering::Relaxed,
        );
        let limit = v.get("cpu_ms").and_then(|p| p.as_u64()).unwrap_or(CASE_TIMEOUT_MS);
        let out = match v.get("case").and_then(Case::from_json) {
            Some(case) => {
                ticket += 1;
                TICKET_LIMIT_MS.store(limit, std::sync::atomic::Ordering::SeqCst);
                TICKET.store(ticket, std::sync::atomic::Ordering::SeqCst);
                let j = judge(&case, &ctx, parse_only);
                json!({"fails": j.fails, "nontrivial": j.nontrivial, "error_free": j.error_free})
            }
            None => json!({"fails": [["bad-request", "unreadable case"]]}),
        };
        answer(&out);
    }
}

struct Server {
    proc: std::process::Child,
    stdin: std::process::ChildStdin,
    rx: std::sync::mpsc::Receiver<String>,
}

impl Server {
    fn spawn() -> Option<Server> {
        use std::io::BufRead;
        use std::os::unix::process::CommandExt;
        // /proc/self/exe still names this program after a rebuild has replaced the file
        let exe = PathBuf::from("/proc/self/exe");
        let mut cmd = std::process::Command::new(exe);
        cmd.arg("--serve")
            .env_remove("VERIF_WORKER")
            .stdin(std::process::Stdio::piped())
            .stdout(std::process::Stdio::piped())
            .stderr(std::process::Stdio::null());
        unsafe {
            cmd.pre_exec(|| {
                let lim = libc::rlimit { rlim_cur: MEM_CAP, rlim_max: MEM_CAP };
                libc::setrlimit(libc::RLIMIT_AS, &lim);
                let core = libc::rlimit { rlim_cur: 0, rlim_max: 0 };
                libc::setrlimit(libc::RLIMIT_CORE, &core);
                Ok(())
            });
        }
        let mut proc = cmd.spawn().ok()?;
        let stdin = proc.stdin.take()?;
        let stdout = proc.stdout.take()?;
        let (tx, rx) = std::sync::mpsc::channel();
        std::thread::spawn(move || {
            for l in std::io::BufReader::new(stdout).lines() {
                let Ok(l) = l else { break };
                if let Some(rest) = l.strip_prefix("ONE ") {
                    if tx.send(rest.to_string()).is_err() {
                        break;
                    }
                }
            }
        });
        let mut s = Server { proc, stdin, rx };
        match s.rx.recv_timeout(Duration::from_secs(20)) {
            Ok(l) if l == "ready" => Some(s),
            _ => {
                s.kill();
                None
            }
        }
    }
    fn kill(&mut self) {
        let _ = self.proc.kill();
        let _ = self.proc.wait();
    }
}

fn parse_fails(line: &str) -> Vec<(String, String)> {
    let v: Value = serde_json::from_str(line).unwrap_or(Value::Null);
    let mut out = vec![];
    if let Some(a) = v.get("fails").and_then(|f| f.as_array()) {
        for e in a {
            if let (Some(s), Some(d)) = (e.get(0).and_then(|x| x.as_str()), e.get(1).and_then(|x| x.as_str())) {
                out.push((s.to_string(), d.to_string()));
            }
        }
    }
    out
}

#[derive(Clone, Debug, Default)]
struct ProbeResult {
    /// (signature, detail)
    fails: Vec<(String, String)>,
}

impl ProbeResult {
    fn has(&self, sig: &str) -> bool {
        self.fails.iter().any(|(s, _)| s == sig)
    }
}

struct Prober {
    /// case -> (result, deadline it was run with)
    memo: Mutex<HashMap<String, (ProbeResult, u64)>>,
    runs: std::sync::atomic::AtomicU64,
    dir: PathBuf,
    /// idle warm single-case processes
    pool: Mutex<Vec<Server>>,
    /// ask the single-case processes to name the panicking function
    backtrace: std::sync::atomic::AtomicBool,
}

impl Prober {
    fn new() -> Prober {
        let dir = vcore::scratch_root().join("probe");
        let _ = std::fs::create_dir_all(&dir);
        Prober {
            memo: Mutex::new(HashMap::new()),
            runs: Default::default(),
            dir,
            pool: Mutex::new(vec![]),
            backtrace: Default::default(),
        }
    }

    /// The innermost fea-rs function on the stack when `case` panics with `sig`.
    fn panic_function(&self, case: &Case, sig: &str) -> Option<String> {
        use std::sync::atomic::Ordering;
        self.backtrace.store(true, Ordering::Relaxed);
        let mut detail = None;
        for _ in 0..3 {
            let r = self.run_raw(case, false, 5 * CASE_TIMEOUT_MS);
            detail = r.fails.into_iter().find(|(s, d)| s == sig && d.contains(" [in ")).map(|(_, d)| d);
            if detail.is_some() {
                break;
            }
        }
        self.backtrace.store(false, Ordering::Relaxed);
        let detail = detail?;
        let i = detail.rfind(" [in ")?;
        let f = detail[i + 5..].trim_end_matches(']').trim();
        // `fea_rs::token_tree::typed::Gpos1::target` -> `typed::Gpos1::target`
        let parts: Vec<&str> = f.split("::").collect();
        Some(parts[parts.len().saturating_sub(3)..].join("::"))
    }

    fn shutdown(&self) {
        for mut s in self.pool.lock().unwrap().drain(..) {
            s.kill();
        }
    }

    /// Run one case in a warm process (the deadline then does not include process start).
    /// A process that does not answer in time is killed; one that dies is replaced and the
    /// case is run again in a process of its own, whose end is then classified.
    fn run_raw(&self, case: &Case, parse_only: bool, timeout_ms: u64) -> ProbeResult {
        use std::io::Write;
        use std::sync::atomic::Ordering;
        let srv = self.pool.lock().unwrap().pop().or_else(Server::spawn);
        let Some(mut srv) = srv else {
            return self.run_single(case, parse_only, timeout_ms);
        };
        self.runs.fetch_add(1, Ordering::Relaxed);
        let req = json!({"case": case.to_json(), "parse_only": parse_only, "cpu_ms": timeout_ms,
            "backtrace": self.backtrace.load(Ordering::Relaxed)})
        .to_string();
        let wall_ms = 5 * timeout_ms + 5000;
        if writeln!(srv.stdin, "{req}").is_err() || srv.stdin.flush().is_err() {
            srv.kill();
            return self.run_single(case, parse_only, timeout_ms);
        }
        match srv.rx.recv_timeout(Duration::from_millis(wall_ms)) {
            Ok(line) => {
                let r = ProbeResult { fails: parse_fails(&line) };
                if r.has("hang") {
                    // the process has given up on the case and is gone
                    srv.kill();
                } else {
                    self.pool.lock().unwrap().push(srv);
                }
                r
            }
            Err(std::sync::mpsc::RecvTimeoutError::Timeout) => {
                srv.kill();
                ProbeResult { fails: vec![("hang".into(), format!("no result within {wall_ms} ms (not using CPU)"))] }
            }
            Err(std::sync::mpsc::RecvTimeoutError::Disconnected) => {
                srv.kill();
                self.run_single(case, parse_only, timeout_ms)
            }
        }
    }

    /// Run one case in a fresh process and classify how it ended.
    fn run_single(&self, case: &Case, parse_only: bool, timeout_ms: u64) -> ProbeResult {
        use std::sync::atomic::Ordering;
        let n = self.runs.fetch_add(1, Ordering::Relaxed);
        let path = self.dir.join(format!("case-{n}.json"));
        if std::fs::write(&path, case.to_json().to_string()).is_err() {
            vcore::machinery_error("cannot write a probe case file");
        }
        let mut cmd = std::process::Command::new("/proc/self/exe");
        cmd.arg("--one").arg(&path).env_remove("VERIF_WORKER");
        if parse_only {
            cmd.env("C13_PARSE_ONLY", "1");
        }
        cmd.env("C13_CPU_MS", timeout_ms.to_string());
        let out = vcore::run_proc(&mut cmd, 5 * timeout_ms + 5000, Some(MEM_CAP));
        let _ = std::fs::remove_file(&path);
        let mut r = ProbeResult::default();
        if let Some(line) = out.stdout.lines().find_map(|l| l.strip_prefix("ONE ")) {
            // (a process that used up its CPU deadline says so itself and exits with 87)
            r.fails = parse_fails(line);
        } else if out.timed_out {
            r.fails.push(("hang".into(), format!("no result within {} ms (not using CPU)", 5 * timeout_ms + 5000)));
        } else if let Some(sig) = out.signal {
            if out.stderr.contains("memory allocation") {
                r.fails.push((
                    "hang".into(),
                    format!("allocates without bound: aborted at the {} MiB address-space cap after {} ms", MEM_CAP >> 20, out.wall_ms),
                ));
            } else if out.stderr.contains("overflowed its stack") {
                r.fails.push(("stack-overflow".into(), "stack overflow".into()));
            } else {
                r.fails.push((format!("crash:signal{sig}"), format!("killed by signal {sig}: {}", out.stderr.chars().take(200).collect::<String>())));
            }
        } else {
            r.fails.push((
                format!("crash:exit{}", out.code.unwrap_or(-1)),
                format!("single-case process ended with {} and no result: {}", out.summary(), out.stderr.chars().take(200).collect::<String>()),
            ));
        }
        r
    }

    /// memoised single-case run; `timeout_ms` applies only if the case has not been run yet
    fn probe(&self, case: &Case, timeout_ms: u64) -> ProbeResult {
        let key = case.memo_key();
        if let Some((r, _)) = self.memo.lock().unwrap().get(&key) {
            return r.clone();
        }
        let r = self.run_raw(case, false, timeout_ms);
        self.memo.lock().unwrap().insert(key, (r.clone(), timeout_ms));
        r
    }

    /// run with the full per-case deadline, replacing whatever a shorter run concluded
    fn verify(&self, case: &Case) -> ProbeResult {
        if let Some((r, t)) = self.memo.lock().unwrap().get(&case.memo_key()) {
            if *t >= CASE_TIMEOUT_MS || !r.has("hang") {
                return r.clone();
            }
        }
        let r = self.run_raw(case, false, CASE_TIMEOUT_MS);
        self.memo.lock().unwrap().insert(case.memo_key(), (r.clone(), CASE_TIMEOUT_MS));
        r
    }
}

// ------------------------------------------------------------------ shrinking

fn is_subsequence(small: &str, big: &str) -> bool {
    let mut it = big.chars();
    small.chars().all(|c| it.any(|d| d == c))
}

#[derive(Clone)]
enum Shrunk {
    To(String, String),
    OutOfTime,
    /// the input itself does not fail this way in a run of its own with the full deadline
    NotReproduced,
}

struct Shrinker<'a> {
    prober: &'a Prober,
    /// minimal failing fragments found so far, per signature (verified with the full deadline)
    minimal: BTreeMap<String, Vec<(String, String)>>,
    threads: usize,
    deadline: Instant,
    /// deadline of one candidate run while shrinking (the result is verified with the full one)
    fast_timeout_ms: u64,
    cut_short: u64,
    /// hang fragment -> "parse" | "validate"
    hang_stage: HashMap<String, &'static str>,
    /// the glyph maps of the input being shrunk (candidates are run with the same ones)
    maps: Option<Vec<Option<Vec<String>>>>,
}

impl Shrinker<'_> {
    fn mk(&self, text: String) -> Case {
        let mut c = Case::plain(text);
        c.maps = self.maps.clone();
        c
    }

    /// Is a fragment already known to fail with `sig` obtainable from `text` by deletions?
    fn known_minimal(&self, text: &str, sig: &str) -> bool {
        self.minimal.get(&self.mkey(sig)).is_some_and(|frags| frags.iter().any(|(f, _)| is_subsequence(f, text)))
    }

    /// key of `minimal`: fragments are only comparable under the same glyph maps
    fn mkey(&self, sig: &str) -> String {
        match &self.maps {
            None => sig.to_string(),
            m => format!("{sig}\u{0}{}", maps_tag(m)),
        }
    }

    fn out_of_time(&self) -> bool {
        Instant::now() >= self.deadline
    }

    /// Delta debugging (complements only). One round runs the candidates of several
    /// granularities in parallel and keeps the smallest one that still fails with `sig`.
    fn ddmin(&self, mut cur: Vec<String>, sig: &str, budget: &mut i64) -> Vec<String> {
        'outer: while cur.len() >= 2 {
            let len = cur.len();
            let mut n = 2usize;
            loop {
                if *budget <= 0 || self.out_of_time() {
                    break 'outer;
                }
                let mut cands: Vec<Vec<String>> = vec![];
                let mut ranges: Vec<(usize, usize)> = vec![];
                let last_n;
                loop {
                    let n_eff = n.min(len);
                    let chunk = len.div_ceil(n_eff);
                    let mut lo = 0;
                    while lo < len {
                        let hi = (lo + chunk).min(len);
                        cands.push([&cur[..lo], &cur[hi..]].concat());
                        ranges.push((lo, hi));
                        lo = hi;
                    }
                    if n_eff >= len || cands.len() >= 2 * self.threads {
                        last_n = n_eff;
                        break;
                    }
                    n = n_eff * 2;
                }
                *budget -= cands.len() as i64;
                let res = vcore::par_for(cands.len(), self.threads, |i| {
                    self.prober
                        .probe(&self.mk(cands[i].concat()), self.fast_timeout_ms)
                        .has(sig)
                });
                let good: Vec<usize> = (0..cands.len()).filter(|i| res[*i]).collect();
                if good.len() > 1 {
                    // units that can go one at a time can often go together
                    let mut keep = vec![true; len];
                    for i in &good {
                        let (lo, hi) = ranges[*i];
                        keep[lo..hi].iter_mut().for_each(|k| *k = false);
                    }
                    let all: Vec<String> = (0..len).filter(|k| keep[*k]).map(|k| cur[k].clone()).collect();
                    *budget -= 1;
                    if !all.is_empty() && self.prober.probe(&self.mk(all.concat()), self.fast_timeout_ms).has(sig) {
                        cur = all;
                        continue 'outer;
                    }
                }
                if let Some(i) = good.into_iter().min_by_key(|i| cands[*i].len()) {
                    cur = cands.swap_remove(i);
                    continue 'outer;
                }
                if last_n >= len {
                    break 'outer;
                }
                n = last_n * 2;
            }
        }
        cur
    }

    /// Shrink many inputs that fail with the same signature. Most of them are resolved without
    /// a shrink of their own: a minimal text found earlier is a sub-sequence of the input, or
    /// of the input with one token made canonical (one confirming run, all such runs of a
    /// round in parallel). Only what is left is shrunk, shortest first.
    fn resolve_many(&mut self, texts: &[String], sig: &str) -> HashMap<String, Shrunk> {
        const CANON: [&str; 3] = [";", "a", "0"];
        let mut out: HashMap<String, Shrunk> = HashMap::new();
        let mut pending: Vec<&String> = texts.iter().collect();
        pending.sort_by_key(|t| (t.len(), t.as_str()));
        pending.dedup();
        loop {
            // a known minimal text is obtainable by deletions
            let frags: Vec<(String, String)> = self.minimal.get(&self.mkey(sig)).cloned().unwrap_or_default();
            pending.retain(|t| match frags.iter().find(|(f, _)| is_subsequence(f, t)) {
                Some((f, d)) => {
                    out.insert((*t).clone(), Shrunk::To(f.clone(), d.clone()));
                    false
                }
                None => true,
            });
            if pending.is_empty() {
                break;
            }
            // ... or by one canonical token and deletions
            if !frags.is_empty() && !self.out_of_time() {
                let mut cands: Vec<(usize, String, usize)> = vec![];
                for (pi, t) in pending.iter().enumerate().take(1024) {
                    let units = split_units(t);
                    let mut n = 0;
                    'case: for (i, u) in units.iter().enumerate().filter(|(_, u)| !u.ws) {
                        for c in CANON.iter().filter(|c| **c != u.text) {
                            let y: String = units.iter().enumerate().map(|(k, x)| if k == i { *c } else { x.text.as_str() }).collect();
                            if let Some(fi) = frags.iter().position(|(f, _)| is_subsequence(f, &y)) {
                                cands.push((pi, y, fi));
                                n += 1;
                                if n >= 4 {
                                    break 'case;
                                }
                            }
                        }
                    }
                }
                let res = vcore::par_for(cands.len(), self.threads, |i| {
                    self.prober.probe(&self.mk(cands[i].1.clone()), self.fast_timeout_ms).has(sig)
                });
                let mut done: HashSet<usize> = HashSet::new();
                for ((pi, _, fi), ok) in cands.iter().zip(res) {
                    if ok && done.insert(*pi) {
                        out.insert(pending[*pi].clone(), Shrunk::To(frags[*fi].0.clone(), frags[*fi].1.clone()));
                    }
                }
                let mut k = 0;
                pending.retain(|_| {
                    k += 1;
                    !done.contains(&(k - 1))
                });
                if pending.is_empty() {
                    break;
                }
            }
            // shrink the shortest one left; its minimal text may resolve others
            let t = pending.remove(0);
            match self.shrink(t, sig) {
                Shrunk::OutOfTime => {
                    out.insert(t.clone(), Shrunk::OutOfTime);
                    for t in pending.drain(..) {
                        self.cut_short += 1;
                        out.insert(t.clone(), Shrunk::OutOfTime);
                    }
                    break;
                }
                r => {
                    out.insert(t.clone(), r);
                }
            }
        }
        out
    }

    /// A smaller text that still fails with `sig` (deletions, then canonical tokens),
    /// 1-minimal unless cut short, with the detail of its own run.
    fn shrink(&mut self, text: &str, sig: &str) -> Shrunk {
        if let Some(frags) = self.minimal.get(&self.mkey(sig)) {
            // a fragment already verified to fail this way and obtainable from `text` by
            // deletions is a valid result of shrinking `text`
            if let Some((f, d)) = frags.iter().find(|(f, _)| is_subsequence(f, text)) {
                return Shrunk::To(f.clone(), d.clone());
            }
        }
        if self.out_of_time() {
            self.cut_short += 1;
            return Shrunk::OutOfTime;
        }
        let mut budget: i64 = 3000;
        let mut cur = text.to_string();
        let lines: Vec<String> = cur.split_inclusive('\n').map(|l| l.to_string()).collect();
        if lines.len() > 1 {
            cur = self.ddmin(lines, sig, &mut budget).concat();
        }
        let words: Vec<String> = split_units(&cur).into_iter().map(|u| u.text).collect();
        if words.len() > 1 {
            cur = self.ddmin(words, sig, &mut budget).concat();
        }
        let chars: Vec<String> = cur.chars().map(|c| c.to_string()).collect();
        cur = self.ddmin(chars, sig, &mut budget).concat();
        // canonical tokens: a token that can be `;`, `a` or `0` without changing the failure
        // becomes that, so that inputs differing in an irrelevant token share a fragment
        const CANON: [&str; 3] = [";", "a", "0"];
        let rank = |t: &str| CANON.iter().position(|c| *c == t).unwrap_or(CANON.len());
        while budget > 0 && !self.out_of_time() {
            let units = split_units(&cur);
            let mut cands: Vec<String> = vec![];
            // all occurrences of one token at once (tags and labels have to stay equal) ...
            let mut seen: Vec<&str> = vec![];
            for u in units.iter().filter(|u| !u.ws) {
                if seen.contains(&u.text.as_str()) || units.iter().filter(|x| x.text == u.text).count() < 2 {
                    continue;
                }
                seen.push(&u.text);
                for c in CANON.iter().take(rank(&u.text)) {
                    cands.push(units.iter().map(|x| if x.text == u.text { *c } else { x.text.as_str() }).collect());
                }
            }
            // ... then one token at a time
            for (i, u) in units.iter().enumerate().filter(|(_, u)| !u.ws) {
                for c in CANON.iter().take(rank(&u.text)) {
                    let mut v: Vec<&str> = units.iter().map(|x| x.text.as_str()).collect();
                    v[i] = c;
                    cands.push(v.concat());
                }
            }
            budget -= cands.len() as i64;
            let res = vcore::par_for(cands.len(), self.threads, |i| {
                self.prober.probe(&self.mk(cands[i].clone()), self.fast_timeout_ms).has(sig)
            });
            match res.iter().position(|ok| *ok) {
                Some(i) => {
                    let chars: Vec<String> = cands[i].chars().map(|c| c.to_string()).collect();
                    cur = self.ddmin(chars, sig, &mut budget).concat();
                }
                None => break,
            }
        }
        // canonical characters: in tokens that are not plain words (`b--a`, `\\b`, `a1`) and in
        // single letters, a letter that can be `a` and a digit that can be `0` becomes that, so that
        // `a--b`, `b--a`, `b--b` share the fragment of `a--a`
        while budget > 0 && !self.out_of_time() {
            let units = split_units(&cur);
            let mut cands: Vec<String> = vec![];
            for (i, u) in units.iter().enumerate().filter(|(_, u)| !u.ws) {
                let word = u.text.chars().count() >= 2 && u.text.chars().all(|c| c.is_ascii_alphabetic());
                if word {
                    continue;
                }
                for (ci, c) in u.text.char_indices() {
                    let to = if c.is_ascii_alphabetic() && c != 'a' {
                        'a'
                    } else if c.is_ascii_digit() && c != '0' {
                        '0'
                    } else {
                        continue;
                    };
                    let mut t = u.text.clone();
                    t.replace_range(ci..ci + c.len_utf8(), &to.to_string());
                    cands.push(units.iter().enumerate().map(|(k, x)| if k == i { t.as_str() } else { x.text.as_str() }).collect());
                }
            }
            if cands.is_empty() {
                break;
            }
            budget -= cands.len() as i64;
            let res = vcore::par_for(cands.len(), self.threads, |i| {
                self.prober.probe(&self.mk(cands[i].clone()), self.fast_timeout_ms).has(sig)
            });
            match res.iter().position(|ok| *ok) {
                Some(i) => cur = cands.swap_remove(i),
                None => break,
            }
        }
        if budget <= 0 || self.out_of_time() {
            self.cut_short += 1;
        }
        // the candidate runs had a short deadline: confirm with the full one
        // (for a hang, the parse-only run that names the stage goes alongside)
        let shrunk = self.mk(cur.clone());
        let (mut pr, parse_only) = std::thread::scope(|sc| {
            let h = (sig == "hang").then(|| sc.spawn(|| self.prober.run_raw(&shrunk, true, CASE_TIMEOUT_MS)));
            let pr = self.prober.verify(&shrunk);
            (pr, h.and_then(|h| h.join().ok()))
        });
        if let Some(po) = parse_only {
            self.hang_stage.insert(cur.clone(), if po.has("hang") { "parse" } else { "validate" });
        }
        if !pr.has(sig) {
            self.cut_short += 1;
            cur = text.to_string();
            pr = self.prober.verify(&self.mk(cur.clone()));
            if !pr.has(sig) {
                return Shrunk::NotReproduced;
            }
        }
        let detail = pr.fails.iter().find(|(s, _)| s == sig).map(|(_, d)| d.clone()).unwrap_or_default();
        let mkey = self.mkey(sig);
        self.minimal.entry(mkey).or_default().push((cur.clone(), detail.clone()));
        Shrunk::To(cur, detail)
    }
}

fn esc(s: &str) -> String {
    s.escape_default().to_string()
}

/// `panic:<stage>:<file>:<line>` -> `panic:<stage>:<file>` (keys survive line shifts; the line
/// still separates classes while shrinking and is named in the description)
fn key_sig(sig: &str) -> String {
    if sig.starts_with("panic:") {
        if let Some((head, tail)) = sig.rsplit_once(':') {
            if !tail.is_empty() && tail.bytes().all(|b| b.is_ascii_digit()) {
                return head.to_string();
            }
        }
    }
    sig.to_string()
}

// ------------------------------------------------------------------ parent

struct SpaceResult {
    name: &'static str,
    total: u64,
    done: u64,
    capped: bool,
    nontrivial: u64,
    error_free: u64,
    validations: u64,
    diags: u64,
    hashes: HashSet<u64>,
    /// signature -> (failing cases, example case indices)
    fails: BTreeMap<String, (u64, Vec<u64>)>,
    details: BTreeMap<String, String>,
    abnormal: Vec<(u64, Abnormal)>,
    slow: (u64, u64),
    chains: Vec<(String, String)>,
    /// sums of the workers' counters
    ctr: BTreeMap<String, u64>,
    wall_s: f64,
}

fn run_space(space: &Space, deadline: Instant) -> SpaceResult {
    let total = space.total();
    let chunk = (total / (vcore::ncores() as u64 * 8)).clamp(1, 20_000);
    let workers = vcore::ncores().min(total.div_ceil(chunk) as usize).max(1);
    let t = Instant::now();
    let cfg = SweepCfg {
        name: space.name().to_string(),
        total,
        chunk,
        workers,
        case_timeout_ms: SWEEP_TIMEOUT_MS,
        mem_cap: Some(MEM_CAP),
        arg: space.arg(),
        deadline: Some(deadline),
    };
    let r = sweep::run_sweep(&cfg);
    let mut out = SpaceResult {
        name: space.name(),
        total,
        done: r.cases_done,
        // (vcore also raises its flag when the deadline passes after the last chunk was handed out)
        capped: r.cases_done < total,
        nontrivial: 0,
        error_free: 0,
        validations: 0,
        diags: 0,
        hashes: HashSet::new(),
        fails: BTreeMap::new(),
        details: BTreeMap::new(),
        abnormal: r.abnormal.into_iter().map(|(pos, ab)| (permute(pos, stride_for(total), total), ab)).collect(),
        slow: (0, 0),
        chains: vec![],
        ctr: BTreeMap::new(),
        wall_s: 0.0,
    };
    for c in &r.chunks {
        let g = |k: &str| c.get(k).and_then(|v| v.as_u64()).unwrap_or(0);
        if c.is_null() {
            vcore::machinery_error(&format!("sweep {}: unreadable chunk result", space.name()));
        }
        out.nontrivial += g("nontrivial");
        out.error_free += g("error_free");
        out.validations += g("validations");
        out.diags += g("diags");
        if g("slow_us") > out.slow.0 {
            out.slow = (g("slow_us"), g("slow_idx"));
        }
        if let Some(h) = c.get("hashes").and_then(|h| h.as_array()) {
            out.hashes.extend(h.iter().filter_map(|x| x.as_u64()));
        }
        if let Some(f) = c.get("fails").and_then(|f| f.as_object()) {
            for (sig, v) in f {
                let e = out.fails.entry(sig.clone()).or_default();
                e.0 += v.get("n").and_then(|n| n.as_u64()).unwrap_or(0);
                e.1.extend(v.get("ex").and_then(|x| x.as_array()).into_iter().flatten().filter_map(|x| x.as_u64()));
            }
        }
        if let Some(d) = c.get("details").and_then(|f| f.as_object()) {
            for (sig, det) in d {
                out.details
                    .entry(sig.clone())
                    .or_insert_with(|| det.as_str().unwrap_or("").to_string());
            }
        }
        if let Some(m) = c.get("ctr").and_then(|f| f.as_object()) {
            for (k, v) in m {
                *out.ctr.entry(k.clone()).or_default() += v.as_u64().unwrap_or(0);
            }
        }
        if let Some(a) = c.get("chains").and_then(|f| f.as_array()) {
            for e in a {
                if let (Some(d), Some(s)) = (e.get(0).and_then(|x| x.as_str()), e.get(1).and_then(|x| x.as_str())) {
                    out.chains.push((d.to_string(), s.to_string()));
                }
            }
        }
    }
    out.nontrivial += out.hashes.len() as u64;
    out.wall_s = t.elapsed().as_secs_f64();
    eprintln!(
        "[C13] space {}: {}/{} cases in {:.1}s, failing signatures {}, abnormal (hang/crash) {}{}",
        out.name,
        out.done,
        out.total,
        out.wall_s,
        out.fails.len(),
        out.abnormal.len(),
        if out.capped { " CAPPED" } else { "" }
    );
    out
}

struct Failing {
    space: &'static str,
    idx: u64,
    sig: String,
    detail: String,
    case: Case,
}

fn trunc(s: &str, n: usize) -> String {
    if s.chars().count() <= n {
        s.to_string()
    } else {
        format!("{}…", s.chars().take(n).collect::<String>())
    }
}

fn replay(path: &Path) -> ! {
    let body: Value = std::fs::read_to_string(path)
        .ok()
        .and_then(|s| serde_json::from_str(&s).ok())
        .unwrap_or_else(|| vcore::machinery_error(&format!("cannot read replay file {path:?}")));
    let r = body.get("replay").unwrap_or(&body);
    let Some(case) = Case::from_json(r) else {
        vcore::machinery_error("replay file has no replay.input / replay.files")
    };
    let prober = Prober::new();
    println!("replaying {} ({} source file(s), root {} bytes)", body.get("key").and_then(|k| k.as_str()).unwrap_or("?"), case.files.len(), case.root_text().len());
    println!("input: {:?}", trunc(case.root_text(), 300));
    let res = prober.run_single(&case, false, CASE_TIMEOUT_MS);
    vcore::cleanup_scratch();
    if res.fails.is_empty() {
        println!("holds now: the front end returned in time, without panic, losslessly, with well-placed diagnostics");
        std::process::exit(0)
    }
    for (sig, detail) in &res.fails {
        println!("still fails: {sig}: {detail}");
    }
    println!("VIOLATION property=C13 replay={}", path.display());
    std::process::exit(1)
}

fn main() {
    if let Some((name, arg)) = sweep::worker_env() {
        run_worker(&name, &arg);
    }
    let argv: Vec<String> = std::env::args().collect();
    if argv.get(1).map(|s| s.as_str()) == Some("--show") {
        run_show(argv.get(2).map(|s| s.as_str()).unwrap_or(""));
    }
    if argv.get(1).map(|s| s.as_str()) == Some("--serve") {
        run_server();
    }
    if argv.get(1).map(|s| s.as_str()) == Some("--one") {
        run_one(argv.get(2).map(|s| s.as_str()).unwrap_or(""));
    }
    if std::env::var("VERIF_SCRATCH_ROOT").is_err() {
        // SAFETY: single-threaded at this point
        unsafe { std::env::set_var("VERIF_SCRATCH_ROOT", format!("/dev/shm/c13-{}", std::process::id())) };
    }
    let args = vcore::parse_args();
    if let Some(p) = &args.replay {
        replay(p);
    }
    let mut rep = Reporter::new("C13", "exploration", &args);
    std::panic::set_hook(Box::new(|_| {}));
    // replay files of an earlier run of this property would be mistaken for this run's
    if let Ok(rd) = std::fs::read_dir(Path::new(vcore::VERIF).join("replays").join("C13")) {
        for e in rd.flatten() {
            if e.path().extension().is_some_and(|x| x == "json") {
                let _ = std::fs::remove_file(e.path());
            }
        }
    }
    let tier = args.tier;
    let max_depth = max_include_depth();
    let (n_a, n_aw, m_b, k_e) = match tier {
        Tier::Quick => (4, 3, 4, 5),
        Tier::Thorough => (5, 4, 5, 7),
    };
    let env_n = |k: &str, d: usize| std::env::var(k).ok().and_then(|s| s.parse().ok()).unwrap_or(d);
    let (n_a, n_aw, m_b, k_e) = (env_n("C13_N", n_a), env_n("C13_NW", n_aw), env_n("C13_M", m_b), env_n("C13_K", k_e));
    let spaces = vec![
        Space::Graphs { max_depth },
        Space::Operand { k: k_e },
        Space::Blocks { labels: block_labels(), bodies: tier.pick(2, BLOCK_BODIES.len()) },
        Space::Edits(Corpus::load(tier == Tier::Thorough)),
        Space::Chars { m: m_b },
        Space::Seq { n: n_aw, wrapped: true },
        Space::Seq { n: n_a, wrapped: false },
    ];
    // debugging aid: C13_SPACES=e,c runs only those sub-spaces (the run then says it is not exhaustive)
    let only: Option<Vec<String>> = std::env::var("C13_SPACES").ok().map(|l| l.split(',').map(|x| x.trim().to_string()).collect());
    let spaces: Vec<Space> = spaces.into_iter().filter(|sp| only.as_ref().is_none_or(|o| o.iter().any(|n| n == sp.name()))).collect();
    let sweep_budget = Duration::from_secs_f64(tier.pick(35.0, 12.0 * 60.0) * vcore::budget_scale());
    let deadline = Instant::now() + sweep_budget;
    let results: Vec<SpaceResult> = spaces.iter().map(|s| run_space(s, deadline)).collect();

    // ---- collect the failing cases, classify the abnormal ones
    let prober = Prober::new();
    let mut failing: Vec<Failing> = vec![];
    let mut unreproduced = 0u64;
    let mut transient: Vec<Value> = vec![];
    // signature -> failing cases counted by the workers (examples or not)
    let mut sig_totals: BTreeMap<String, u64> = BTreeMap::new();
    for (space, r) in spaces.iter().zip(&results) {
        for (sig, (n, idxs)) in &r.fails {
            *sig_totals.entry(key_sig(sig)).or_default() += n;
            for idx in idxs {
                failing.push(Failing {
                    space: r.name,
                    idx: *idx,
                    sig: sig.clone(),
                    detail: r.details.get(sig).cloned().unwrap_or_default(),
                    case: space.case(*idx),
                });
            }
        }
        // a worker that gave up after WORKER_STALL_MS of CPU time on a case (exit 86) has
        // measured the stall itself; any other abnormal end is looked at in a single run
        let (stalled, other): (Vec<_>, Vec<_>) = r
            .abnormal
            .iter()
            .partition(|(_, ab)| matches!(ab, Abnormal::Crashed { code: Some(86), .. }));
        for (idx, _) in stalled {
            *sig_totals.entry("hang".into()).or_default() += 1;
            failing.push(Failing {
                space: r.name,
                idx: *idx,
                sig: "hang".into(),
                detail: format!("no result after {WORKER_STALL_MS} ms of CPU time in the sweep worker"),
                case: space.case(*idx),
            });
        }
        let ab_cases: Vec<(u64, Case)> = other.iter().map(|(i, _)| (*i, space.case(*i))).collect();
        let probed = vcore::par_for(ab_cases.len(), vcore::ncores(), |i| prober.probe(&ab_cases[i].1, CASE_TIMEOUT_MS));
        for (((idx, case), (_, ab)), pr) in ab_cases.into_iter().zip(other).zip(probed) {
            if pr.fails.is_empty() {
                // the case ran to completion and passed in a process of its own: the worker's
                // end was not caused by this input (machine load, external kill)
                unreproduced += 1;
                transient.push(json!({"space": r.name, "index": idx, "input": trunc(case.root_text(), 200), "worker": format!("{ab:?}")}));
                continue;
            }
            for (sig, detail) in pr.fails {
                *sig_totals.entry(key_sig(&sig)).or_default() += 1;
                failing.push(Failing {
                    space: r.name,
                    idx,
                    sig,
                    detail,
                    case: case.clone(),
                });
            }
        }
    }
    let examined_cases = failing.len();
    // shortest inputs first (they give the minimal texts that longer ones are matched against)
    failing.sort_by_key(|f| (f.case.files.len(), f.case.root_text().len(), f.space, f.idx));

    // ---- shrink, key, report
    let mut shr = Shrinker {
        prober: &prober,
        minimal: BTreeMap::new(),
        threads: vcore::ncores(),
        deadline: Instant::now() + Duration::from_secs_f64(tier.pick(75.0, 150.0) * vcore::budget_scale()),
        fast_timeout_ms: 300,
        cut_short: 0,
        hang_stage: HashMap::new(),
        maps: None,
    };
    // the hangs are resolved together (every confirming run of a hang costs a deadline)
    let hang_texts: Vec<String> = failing
        .iter()
        .filter(|f| f.sig == "hang" && f.case.is_plain() && f.case.maps.is_none())
        .map(|f| f.case.root_text().to_string())
        .collect();
    let hang_results = shr.resolve_many(&hang_texts, "hang");
    // panic signature (stage, file, line) -> key of its class, fixed by its shortest example
    let mut panic_keys: HashMap<String, String> = HashMap::new();
    // (key, example text, signature) of panic classes whose example is still to be shrunk
    let mut to_polish: Vec<(String, Case, String)> = vec![];
    // key -> (examined cases, what, replay)
    let mut classes: BTreeMap<String, (u64, String, Value)> = BTreeMap::new();
    for f in &failing {
        let found_as = json!({"space": f.space, "index": f.idx, "input": trunc(f.case.root_text(), 2000), "note": f.case.desc});
        let (key, what, mut rj) = if !f.case.is_plain() {
            // include graphs are not shrunk: the smallest failing graph names the class
            (
                format!("{}:include-graph:{}", key_sig(&f.sig), f.case.desc),
                format!("include graph {}: {}", f.case.desc, f.detail),
                f.case.to_json(),
            )
        } else if f.sig.starts_with("diag-") {
            // misplaced diagnostics are keyed by stage and message; the shortest input is the example
            let key = f.sig.clone();
            if let Some(e) = classes.get_mut(&key) {
                e.0 += 1;
                continue;
            }
            let pr = prober.probe(&f.case, CASE_TIMEOUT_MS);
            let detail = pr.fails.iter().find(|(s, _)| *s == f.sig).map(|(_, d)| d.clone()).unwrap_or_else(|| f.detail.clone());
            (key, format!("input {:?}: {detail}", trunc(f.case.root_text(), 120)), f.case.to_json())
        } else if let Some(key) = panic_keys.get(&f.sig) {
            // same panic site as a class already named
            if let Some(e) = classes.get_mut(key) {
                e.0 += 1;
            }
            continue;
        } else if f.sig.starts_with("panic:") {
            // a panic class is named by the panicking function (which survives line shifts and
            // does not depend on shrinking); its shortest example is shrunk later, time permitting
            let stage = f.sig.split(':').nth(1).unwrap_or("");
            let key = match prober.panic_function(&f.case, &f.sig) {
                Some(func) => format!("panic:{stage}:{func}"),
                None => format!("{}:{}", f.sig, esc(&trunc(f.case.root_text(), 60))),
            };
            panic_keys.insert(f.sig.clone(), key.clone());
            if !classes.contains_key(&key) {
                to_polish.push((key.clone(), f.case.clone(), f.sig.clone()));
            }
            (key, format!("input {:?}: {}", trunc(f.case.root_text(), 120), f.detail), f.case.to_json())
        } else {
            let shrunk = if f.sig == "hang" && f.case.maps.is_none() {
                hang_results.get(f.case.root_text()).cloned().unwrap_or(Shrunk::OutOfTime)
            } else {
                shr.maps = f.case.maps.clone();
                let mut text = f.case.root_text().to_string();
                if f.space == "e" && !shr.known_minimal(&text, &f.sig) {
                    // the statement around the operand is not part of the failure when the same
                    // operand fails the same way in a shorter template
                    let operand = operand_of(f.idx);
                    let mut ts: Vec<String> = OPERAND_TEMPLATES.iter().map(|t| t.replace('X', &operand)).collect();
                    ts.sort_by_key(|t| t.len());
                    for cand in ts {
                        if cand.len() >= text.len() {
                            break;
                        }
                        if prober.probe(&f.case.with_text(cand.clone()), CASE_TIMEOUT_MS).has(&f.sig) {
                            text = cand;
                            break;
                        }
                    }
                }
                let r = shr.shrink(&text, &f.sig);
                shr.maps = None;
                r
            };
            match shrunk {
                Shrunk::NotReproduced => {
                    unreproduced += 1;
                    transient.push(json!({"space": f.space, "index": f.idx, "input": trunc(f.case.root_text(), 200), "worker": f.detail}));
                    continue;
                }
                Shrunk::OutOfTime => (
                    format!("{}:(not shrunk, out of time)", key_sig(&f.sig)),
                    format!("input {:?}: {}", trunc(f.case.root_text(), 120), f.detail),
                    f.case.to_json(),
                ),
                Shrunk::To(frag, detail) => {
                    let shrunk = f.case.with_text(frag.clone());
                    let key = if f.sig == "hang" {
                        // one extra run per fragment tells parsing from validation
                        let st = *shr.hang_stage.entry(frag.clone()).or_insert_with(|| {
                            if prober.run_raw(&shrunk, true, CASE_TIMEOUT_MS).has("hang") { "parse" } else { "validate" }
                        });
                        format!("hang:{st}:{}", esc(&frag))
                    } else {
                        format!("{}:{}", f.sig, esc(&frag))
                    };
                    (key, format!("input {:?}: {detail}", trunc(&frag, 120)), shrunk.to_json())
                }
            }
        };
        if let Some(e) = classes.get_mut(&key) {
            e.0 += 1;
            continue;
        }
        rj["space"] = json!(f.space);
        rj["signature"] = json!(f.sig);
        rj["found_as"] = found_as;
        classes.insert(key, (1, what, rj));
    }
    // smaller examples for the panic classes, with whatever time is left
    for (key, case, sig) in &to_polish {
        shr.maps = case.maps.clone();
        let shrunk = shr.shrink(case.root_text(), sig);
        shr.maps = None;
        if let Shrunk::To(frag, detail) = shrunk {
            if let Some(e) = classes.get_mut(key) {
                let keep: Vec<(String, Value)> = ["space", "signature", "found_as"]
                    .iter()
                    .map(|k| (k.to_string(), e.2[*k].clone()))
                    .collect();
                e.1 = format!("input {:?}: {detail}", trunc(&frag, 120));
                e.2 = case.with_text(frag).to_json();
                for (k, v) in keep {
                    e.2[k] = v;
                }
            }
        }
    }
    // one graph class per signature: the smallest failing graph stands for the others
    let mut final_classes: Vec<(String, u64, String, Value)> = vec![];
    let mut graph_seen: HashMap<String, usize> = HashMap::new();
    for (key, (n, what, replay)) in classes {
        if let Some(p) = key.find(":include-graph:") {
            let head = key[..p].to_string();
            if let Some(i) = graph_seen.get(&head) {
                final_classes[*i].1 += n;
                continue;
            }
            graph_seen.insert(head, final_classes.len());
        }
        final_classes.push((key, n, what, replay));
    }
    for (key, n, what, replay) in &final_classes {
        // one Reporter call per examined failing case keeps its case counts honest
        for _ in 0..*n {
            rep.violation(key, &format!("{what} [{n} examined failing inputs belong to this class]"), replay.clone());
        }
    }

    prober.shutdown();

    // ---- evidence
    let evaluations: u64 = results.iter().map(|r| r.done).sum();
    let nontrivial: u64 = results.iter().map(|r| r.nontrivial).sum();
    let exhaustive = results.iter().all(|r| !r.capped) && only.is_none();
    let mut per_space = serde_json::Map::new();
    let mut samples = vec![];
    for (space, r) in spaces.iter().zip(&results) {
        let mut o = json!({
            "cases": r.done, "planned": r.total, "capped": r.capped,
            "distinct_nontrivial": r.nontrivial, "error_free_parses": r.error_free,
            "validation_runs": r.validations, "diagnostics_checked": r.diags,
            "failing_case_signature_pairs": r.fails.values().map(|v| v.0).sum::<u64>() + r.abnormal.len() as u64,
            "hang_or_crash_cases": r.abnormal.len(),
            "slowest_case_us": r.slow.0,
            "wall_s": (r.wall_s * 10.0).round() / 10.0,
        });
        match space {
            Space::Seq { n, wrapped } => {
                o["max_tokens"] = json!(n);
                o["alphabet"] = json!(LEXEMES);
                o["wrapped_in_feature_block"] = json!(wrapped);
            }
            Space::Chars { m } => {
                o["max_chars"] = json!(m);
                o["alphabet"] = json!(CHARS);
            }
            Space::Edits(c) => {
                o["files"] = json!(c.files.len());
                o["token_positions"] = json!(c.tokens());
                o["edits"] = json!(if c.all_ops { "none, delete, duplicate, swap-adjacent, glue each of NUL U+0001 DEL CR U+FEFF U+2028 to the token, replace by each of the 29 lexemes" } else { "none, delete, duplicate, swap-adjacent, glue NUL to the token" });
            }
            Space::Operand { k } => {
                o["max_operand_chars"] = json!(k);
                o["operand_alphabet"] = json!(OPERAND_CHARS);
                o["operands"] = json!(pow_sum(OPERAND_CHARS.len() as u64, *k));
                o["templates"] = json!(OPERAND_TEMPLATES);
                o["glyph_maps"] = json!(maps_tag(&Some(operand_maps())));
            }
            Space::Blocks { labels, bodies } => {
                o["openers"] = json!(BLOCK_OPENERS);
                o["labels"] = json!(labels);
                o["label_pairs"] = json!(labels.len() * labels.len());
                o["bodies"] = json!(&BLOCK_BODIES[..*bodies]);
                o["form"] = json!("<opener with label L> { <body> } <label'>;");
                o["tag_statements_in_table_BASE"] = json!(TAG_STATEMENTS);
            }
            Space::Graphs { max_depth } => {
                o["digraphs"] = json!(512);
                o["variants_per_digraph"] = json!("include at top level / inside a feature block x each statement once / twice");
                o["max_include_depth_constant"] = json!(max_depth);
                o["chain_depths"] = json!(format!("1..={} nested include statements, two scopes", max_depth + 2));
                let mut ch = r.chains.clone();
                ch.sort_by_key(|(d, _)| {
                    d.trim_start_matches("chain depth=").split(';').next().and_then(|x| x.parse::<u64>().ok()).unwrap_or(0)
                });
                let first_rejected = ch.iter().find(|(_, s)| s == "rejected").map(|(d, _)| d.clone());
                let last_accepted = ch.iter().rev().find(|(_, s)| s == "accepted").map(|(d, _)| d.clone());
                o["deepest_accepted_chain"] = json!(last_accepted);
                o["shallowest_rejected_chain"] = json!(first_rejected);
            }
        }
        o["name_or_range"] = json!(r.ctr);
        per_space.insert(r.name.to_string(), o);
        if r.total > 0 {
            for i in [0, r.total / 2, r.total - 1] {
                let c = space.case(i);
                samples.push(json!({"space": r.name, "index": i, "input": trunc(c.root_text(), 160), "note": c.desc}));
            }
        }
    }
    rep.set("evaluations", evaluations);
    rep.set("front_end_runs", results.iter().map(|r| r.ctr.get("front_end_runs").copied().unwrap_or(0)).sum::<u64>());
    let mut nor: BTreeMap<String, u64> = BTreeMap::new();
    for r in &results {
        for (k, v) in &r.ctr {
            *nor.entry(k.clone()).or_default() += v;
        }
    }
    rep.set("name_or_range_totals", json!(nor));
    rep.set("distinct_nontrivial", nontrivial);
    rep.set("rule", "every input of a, aw, b, c, d, f is parsed twice (without and with a glyph map), every input of e five times (glyph maps {a,b}, {a,b,a-b}, {a,b,a-,-a}, a larger one with a-b, b-a, a-, -a, a.b, a1, a-a-a and CIDs, and without one); a tree parsed with the glyph map (fea-rs/test-data/simple_glyph_order.txt plus a-b, a-b-c, 0, s, test, é) and free of errors is validated with that map, one parsed without is validated with an empty map and with that map. Non-trivial = the tree parsed without a glyph map has a child node of the root not flagged as error, or at least 2 tokens that are not whitespace/comment. Distinct: a and aw inputs are distinct by construction (injective decoding, aw has a wrapper no a-string has); b strings that are empty or a single a-lexeme are not counted; c and d inputs are counted by the 64-bit hash of their text(s), and c texts that also occur in a or b are not counted; f inputs (block skeletons of at least 6 tokens without the aw wrapper) are distinct by construction; e inputs are distinct by construction (template x operand, no a/aw/b text has their form) and count as non-trivial when the tree parsed without a glyph map has a GlyphNameOrRange token or some tree has a GlyphRange node. name_or_range counters: every GlyphNameOrRange token of the tree parsed without a glyph map, per run with a glyph map, is judged by the oracle's own model of the rule (known name: one GlyphName token; exactly one cut at a hyphen into two known names: GlyphRange node of name, hyphen, name spelling the token; otherwise unchanged under an error diagnostic) and every other token must be identical with and without the glyph map");
    rep.set("spaces", Value::Object(per_space));
    rep.set("samples", samples);
    rep.set("exhaustive", exhaustive);
    rep.set("failing_cases_by_signature", json!(sig_totals));
    rep.set("failing_cases_examined", examined_cases as u64);
    rep.set("failing_classes", final_classes.iter().map(|(k, n, _, _)| json!({"key": k, "cases": n})).collect::<Vec<_>>());
    rep.set("abnormal_not_reproduced", unreproduced);
    rep.set("abnormal_not_reproduced_cases", transient);
    rep.set("shrink_single_case_runs", prober.runs.load(std::sync::atomic::Ordering::Relaxed));
    rep.set("shrinks_cut_short", shr.cut_short);
    rep.set("per_case_deadline_ms", CASE_TIMEOUT_MS);
    rep.set("address_space_cap_mib", MEM_CAP >> 20);
    rep.assume("the name-or-range model is the one of the feature file specification as the front end documents it in its own diagnostics: a hyphenated name that is a glyph is that glyph, else a range if exactly one hyphen cuts it into two glyphs, else an error ('neither a known glyph or a range', 'multiple possible glyph ranges'); glyph maps of e are tiny and have no .notdef");
    rep.assume("token and node positions (Token::range, Node::range) are checked against the running sum of token lengths only for inputs without resolved includes");
    rep.assume("inputs longer than the stated token / character bounds, lexemes and characters outside the two alphabets, and multi-edit mutations of the corpus files are not covered");
    rep.assume("a case that does not return within 2 s of CPU time of its thread (15 s of wall time if it is not using CPU) or needs more than 2 GiB of address space counts as non-terminating; while shrinking, candidates get a shorter CPU deadline and the result is confirmed with the full one");
    rep.assume("in sub-spaces a, aw, b, c the resolver knows only the root source, so include statements there exercise the unresolved-include path; resolved includes are covered by sub-space d only (3 files, each include at most twice per file, chains up to MAX_INCLUDE_DEPTH+2)");
    rep.assume("which include statements were refused is read from the error diagnostics; the oracle then checks that the tree spells exactly the expansion with those statements left in place, and that every cyclic or over-deep graph has at least one error");
    rep.assume("failing inputs are grouped into classes: a panic by stage and panicking function (innermost fea-rs frame), a misplaced diagnostic by stage and message, anything else (hang, lossy text) by a delta-debugged, token-canonicalised minimal text; workers report per chunk and signature the 16 shortest failing cases and count the rest, so a second defect behind the same signature and minimal text would share a key");
    rep.assume("chains of MAX_INCLUDE_DEPTH/2+1 ..= MAX_INCLUDE_DEPTH nested includes may be accepted or rejected (the depth at which rejection starts is recorded, not judged)");
    rep.finish()
}
