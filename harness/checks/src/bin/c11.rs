//! C11 — compiled GSUB/GPOS behave as the feature file says.
//!
//! Bounded-exhaustive: every program of an explicitly listed space of small feature files
//! (built as ASTs, printed to text, compiled by `fea_rs::Compiler` from memory) × every glyph
//! string up to a small length × every language system the program registers. Oracle: the
//! `fearef` interpreter applied to the *source rules*; subject: the compiled binary applied by
//! the independent engine `otlayout`. A disagreement is re-read by a second, much simpler
//! table walker (module `tw`, read-fonts typed tables only) before it is reported; if the two
//! readers of the binary disagree with each other that is a machinery problem, not a verdict.
//!
//! Families of programs: A1/A2/A3 (one to three lookups from a rule alphabet per lookup type),
//! B (registration under script/language statements), I (several contextual rules with in-line
//! replacements whose marked classes are equal / overlapping / disjoint), F (lookup flags with
//! mark filtering sets and mark attachment types changing between runs of rules), G (grids of
//! class tuples in one contextual lookup, so that each of the subtable formats 1, 2 and 3 of
//! GSUB 5/6 is chosen by the compiler for some program; the formats are read back from the
//! binary and counted in the evidence).
use fea_rs::{
    GlyphMap,
    compile::{Compiler, NopFeatureProvider, NopVariationInfo},
    parse::SourceLoadError,
};
use fearef::{
    ast::*,
    interp::{self, Kind, Reject, Resolved, rule_kind},
};
use otlayout::{FeatureSel, LFont, ShapeRequest};
use serde_json::{Value as Json, json};
use std::{
    collections::{BTreeMap, BTreeSet, HashSet},
    path::Path,
    sync::Arc,
};
use vcore::{Reporter, Tier};

// =============================================================== second reader

/// A deliberately small second reading of the binary: exactly the lookup types the generator
/// can produce (GSUB 1, 2, 4, 5, 6; GPOS 1, 2); lookup flags: the three Ignore* bits, mark
/// attachment type, mark filtering set.
mod tw {
    use std::collections::BTreeSet;
    use write_fonts::read::{
        FontRef, ReadError, TableProvider,
        tables::{
            gdef::MarkGlyphSets,
            gpos::{PairPos, PositionSubtables, SinglePos, ValueRecord},
            gsub::{SingleSubst, SubstitutionSubtables},
            layout::{
                ChainedSequenceContext, ClassDef, CoverageTable, FeatureList, ScriptList,
                SequenceContext, SequenceLookupRecord,
            },
        },
        types::Tag,
    };

    #[derive(Clone, Debug, PartialEq)]
    pub struct Glyph {
        pub gid: u16,
        /// xPlacement, yPlacement, xAdvance, yAdvance
        pub adj: [i32; 4],
    }

    pub struct Walker<'a> {
        font: FontRef<'a>,
        classes: Option<ClassDef<'a>>,
        attach: Option<ClassDef<'a>>,
        mark_sets: Option<MarkGlyphSets<'a>>,
    }

    /// What of a lookup decides which glyphs it does not see.
    #[derive(Clone, Copy)]
    struct Flt {
        flag: u16,
        set: Option<u16>,
    }

    #[derive(Clone)]
    enum Pred<'a> {
        Gid(u16),
        Class(ClassDef<'a>, u16),
        Cov(CoverageTable<'a>),
        CovAndClass(CoverageTable<'a>, ClassDef<'a>, u16),
    }

    impl Pred<'_> {
        fn test(&self, g: u16) -> bool {
            match self {
                Pred::Gid(x) => *x == g,
                Pred::Class(cd, c) => cd.get(gid16(g)) == *c,
                Pred::Cov(c) => c.get(gid16(g)).is_some(),
                Pred::CovAndClass(cov, cd, c) => {
                    cov.get(gid16(g)).is_some() && cd.get(gid16(g)) == *c
                }
            }
        }
    }

    struct CtxRule<'a> {
        /// nearest first
        back: Vec<Pred<'a>>,
        input: Vec<Pred<'a>>,
        ahead: Vec<Pred<'a>>,
        records: Vec<(u16, u16)>,
    }

    fn gid16(g: u16) -> write_fonts::read::types::GlyphId16 {
        write_fonts::read::types::GlyphId16::new(g)
    }

    fn e(x: ReadError) -> String {
        format!("read error: {x}")
    }

    fn tag_eq(t: Tag, s: &str) -> bool {
        t.to_string().trim_end() == s.trim_end()
    }

    fn recs(r: &[SequenceLookupRecord]) -> Vec<(u16, u16)> {
        r.iter()
            .map(|r| (r.sequence_index(), r.lookup_list_index()))
            .collect()
    }

    fn add(adj: &mut [i32; 4], v: &ValueRecord) {
        adj[0] += v.x_placement().unwrap_or(0) as i32;
        adj[1] += v.y_placement().unwrap_or(0) as i32;
        adj[2] += v.x_advance().unwrap_or(0) as i32;
        adj[3] += v.y_advance().unwrap_or(0) as i32;
    }

    impl<'a> Walker<'a> {
        pub fn new(bytes: &'a [u8]) -> Result<Self, String> {
            let font = FontRef::new(bytes).map_err(|x| format!("sfnt: {x}"))?;
            let (mut classes, mut attach, mut mark_sets) = (None, None, None);
            if let Ok(g) = font.gdef() {
                if let Some(c) = g.glyph_class_def() {
                    classes = Some(c.map_err(e)?);
                }
                if let Some(c) = g.mark_attach_class_def() {
                    attach = Some(c.map_err(e)?);
                }
                if let Some(c) = g.mark_glyph_sets_def() {
                    mark_sets = Some(c.map_err(e)?);
                }
            }
            Ok(Walker { font, classes, attach, mark_sets })
        }

        fn skipped(&self, f: Flt, g: u16) -> Result<bool, String> {
            let flag = f.flag;
            if flag & 0x00E0 != 0 {
                return Err(format!("lookup flag {flag:#x} not supported by the second reader"));
            }
            let class = self.classes.as_ref().map(|c| c.get(gid16(g))).unwrap_or(0);
            if class >= 1 && class <= 3 && flag & (1 << class) != 0 {
                return Ok(true); // 0x2 base, 0x4 ligature, 0x8 mark
            }
            if class != 3 {
                return Ok(false);
            }
            if flag & 0x0010 != 0 {
                let set = f.set.ok_or("UseMarkFilteringSet without a set index")?;
                let sets = self.mark_sets.as_ref().ok_or("UseMarkFilteringSet without GDEF mark glyph sets")?;
                let cov = sets.coverages().get(set as usize).map_err(e)?;
                return Ok(cov.get(gid16(g)).is_none());
            }
            let want = flag >> 8;
            if want != 0 {
                let have = self.attach.as_ref().map(|c| c.get(gid16(g))).unwrap_or(0);
                return Ok(have != want);
            }
            Ok(false)
        }

        /// (lookup type, subtable format, number of subtables) of every contextual GSUB
        /// lookup; format 0 = subtables of different formats in one lookup.
        pub fn context_formats(&self) -> Result<Vec<(u8, u8, usize)>, String> {
            let mut out = vec![];
            let one = |fs: Vec<u8>, ty: u8, out: &mut Vec<(u8, u8, usize)>| {
                let f = if fs.iter().all(|x| *x == fs[0]) { fs[0] } else { 0 };
                out.push((ty, f, fs.len()));
            };
            if let Ok(t) = self.font.gsub() {
                for l in t.lookup_list().map_err(e)?.lookups().iter() {
                    match l.map_err(e)?.subtables().map_err(e)? {
                        SubstitutionSubtables::Contextual(sts) => {
                            let mut fs = vec![];
                            for st in sts.iter() {
                                fs.push(match st.map_err(e)? {
                                    SequenceContext::Format1(_) => 1,
                                    SequenceContext::Format2(_) => 2,
                                    SequenceContext::Format3(_) => 3,
                                });
                            }
                            if !fs.is_empty() {
                                one(fs, 5, &mut out);
                            }
                        }
                        SubstitutionSubtables::ChainContextual(sts) => {
                            let mut fs = vec![];
                            for st in sts.iter() {
                                fs.push(match st.map_err(e)? {
                                    ChainedSequenceContext::Format1(_) => 1,
                                    ChainedSequenceContext::Format2(_) => 2,
                                    ChainedSequenceContext::Format3(_) => 3,
                                });
                            }
                            if !fs.is_empty() {
                                one(fs, 6, &mut out);
                            }
                        }
                        _ => {}
                    }
                }
            }
            Ok(out)
        }

        fn next_visible(&self, buf: &[Glyph], from: usize, flag: Flt) -> Result<Option<usize>, String> {
            for i in from..buf.len() {
                if !self.skipped(flag, buf[i].gid)? {
                    return Ok(Some(i));
                }
            }
            Ok(None)
        }

        fn prev_visible(&self, buf: &[Glyph], before: usize, flag: Flt) -> Result<Option<usize>, String> {
            for i in (0..before).rev() {
                if !self.skipped(flag, buf[i].gid)? {
                    return Ok(Some(i));
                }
            }
            Ok(None)
        }

        fn lists(&self, gsub: bool) -> Result<Option<(ScriptList<'a>, FeatureList<'a>)>, String> {
            if gsub {
                match self.font.gsub() {
                    Ok(t) => Ok(Some((t.script_list().map_err(e)?, t.feature_list().map_err(e)?))),
                    Err(_) => Ok(None),
                }
            } else {
                match self.font.gpos() {
                    Ok(t) => Ok(Some((t.script_list().map_err(e)?, t.feature_list().map_err(e)?))),
                    Err(_) => Ok(None),
                }
            }
        }

        /// Language systems that exist in the table and list at least one feature with at
        /// least one lookup.
        pub fn exact_keys(&self, gsub: bool) -> Result<BTreeSet<(String, String)>, String> {
            let mut out = BTreeSet::new();
            let Some((sl, fl)) = self.lists(gsub)? else {
                return Ok(out);
            };
            let has_lookups = |ls: &write_fonts::read::tables::layout::LangSys| -> Result<bool, String> {
                let mut idx: Vec<u16> = ls.feature_indices().iter().map(|i| i.get()).collect();
                if ls.required_feature_index() != 0xFFFF {
                    idx.push(ls.required_feature_index());
                }
                for i in idx {
                    let rec = fl.feature_records().get(i as usize).ok_or("feature index out of range")?;
                    if !rec.feature(fl.offset_data()).map_err(e)?.lookup_list_indices().is_empty() {
                        return Ok(true);
                    }
                }
                Ok(false)
            };
            for sr in sl.script_records() {
                let script = sr.script(sl.offset_data()).map_err(e)?;
                let st = sr.script_tag().to_string().trim_end().to_string();
                if let Some(d) = script.default_lang_sys() {
                    if has_lookups(&d.map_err(e)?)? {
                        out.insert((st.clone(), "dflt".to_string()));
                    }
                }
                for lr in script.lang_sys_records() {
                    let ls = lr.lang_sys(script.offset_data()).map_err(e)?;
                    if has_lookups(&ls)? {
                        out.insert((st.clone(), lr.lang_sys_tag().to_string().trim_end().to_string()));
                    }
                }
            }
            Ok(out)
        }

        /// Lookups of all features of (script, lang), with the OpenType fallbacks
        /// (script -> DFLT, language -> default language system).
        fn lookups_for(&self, gsub: bool, script: &str, lang: &str) -> Result<Vec<u16>, String> {
            let Some((sl, fl)) = self.lists(gsub)? else {
                return Ok(vec![]);
            };
            let find = |w: &str| sl.script_records().iter().find(|r| tag_eq(r.script_tag(), w));
            let Some(sr) = find(script).or_else(|| find("DFLT")) else {
                return Ok(vec![]);
            };
            let sc = sr.script(sl.offset_data()).map_err(e)?;
            let mut ls = None;
            if lang.trim_end() != "dflt" {
                for lr in sc.lang_sys_records() {
                    if tag_eq(lr.lang_sys_tag(), lang) {
                        ls = Some(lr.lang_sys(sc.offset_data()).map_err(e)?);
                    }
                }
            }
            let ls = match ls {
                Some(l) => l,
                None => match sc.default_lang_sys() {
                    Some(l) => l.map_err(e)?,
                    None => return Ok(vec![]),
                },
            };
            let mut idx: Vec<u16> = ls.feature_indices().iter().map(|i| i.get()).collect();
            if ls.required_feature_index() != 0xFFFF {
                idx.push(ls.required_feature_index());
            }
            let mut out = BTreeSet::new();
            for i in idx {
                let rec = fl.feature_records().get(i as usize).ok_or("feature index out of range")?;
                for l in rec.feature(fl.offset_data()).map_err(e)?.lookup_list_indices() {
                    out.insert(l.get());
                }
            }
            Ok(out.into_iter().collect())
        }

        pub fn shape(
            &self,
            script: &str,
            lang: &str,
            gsub: bool,
            gpos: bool,
            input: &[u16],
        ) -> Result<Vec<Glyph>, String> {
            let mut buf: Vec<Glyph> = input.iter().map(|g| Glyph { gid: *g, adj: [0; 4] }).collect();
            if gsub {
                for li in self.lookups_for(true, script, lang)? {
                    self.whole(true, li, &mut buf)?;
                }
            }
            if gpos {
                for li in self.lookups_for(false, script, lang)? {
                    self.whole(false, li, &mut buf)?;
                }
            }
            Ok(buf)
        }

        fn flag_of(&self, gsub: bool, li: u16) -> Result<Flt, String> {
            if gsub {
                let l = self.font.gsub().map_err(e)?.lookup_list().map_err(e)?.lookups().get(li as usize).map_err(e)?;
                Ok(Flt { flag: l.lookup_flag().to_bits(), set: l.mark_filtering_set() })
            } else {
                let l = self.font.gpos().map_err(e)?.lookup_list().map_err(e)?.lookups().get(li as usize).map_err(e)?;
                Ok(Flt { flag: l.lookup_flag().to_bits(), set: l.mark_filtering_set() })
            }
        }

        fn whole(&self, gsub: bool, li: u16, buf: &mut Vec<Glyph>) -> Result<(), String> {
            let flag = self.flag_of(gsub, li)?;
            let mut i = 0;
            let mut guard = 0;
            while i < buf.len() {
                guard += 1;
                if guard > 10_000 {
                    return Err("second reader: no progress".into());
                }
                if self.skipped(flag, buf[i].gid)? {
                    i += 1;
                    continue;
                }
                let next = if gsub {
                    self.gsub_at(li, buf, i, 0)?
                } else {
                    self.gpos_at(li, buf, i)?
                };
                i = match next {
                    Some(n) if n > i => n,
                    _ => i + 1,
                };
            }
            Ok(())
        }

        fn match_input(
            &self,
            buf: &[Glyph],
            i: usize,
            preds: &[Pred],
            flag: Flt,
        ) -> Result<Option<Vec<usize>>, String> {
            let mut pos = vec![];
            let mut cur = i;
            for (k, p) in preds.iter().enumerate() {
                let idx = if k == 0 {
                    cur
                } else {
                    match self.next_visible(buf, cur, flag)? {
                        Some(x) => x,
                        None => return Ok(None),
                    }
                };
                if idx >= buf.len() || !p.test(buf[idx].gid) {
                    return Ok(None);
                }
                pos.push(idx);
                cur = idx + 1;
            }
            Ok(Some(pos))
        }

        fn ctx_apply(
            &self,
            rules: &[CtxRule],
            buf: &mut Vec<Glyph>,
            i: usize,
            flag: Flt,
            depth: u32,
        ) -> Result<Option<usize>, String> {
            'rules: for r in rules {
                let Some(mut pos) = self.match_input(buf, i, &r.input, flag)? else {
                    continue;
                };
                let mut cur = i;
                for p in &r.back {
                    match self.prev_visible(buf, cur, flag)? {
                        Some(x) if p.test(buf[x].gid) => cur = x,
                        _ => continue 'rules,
                    }
                }
                let mut cur = *pos.last().unwrap() + 1;
                for p in &r.ahead {
                    match self.next_visible(buf, cur, flag)? {
                        Some(x) if p.test(buf[x].gid) => cur = x + 1,
                        _ => continue 'rules,
                    }
                }
                let mut end = *pos.last().unwrap() as isize + 1;
                for (si, li) in &r.records {
                    let si = *si as usize;
                    if si >= pos.len() {
                        continue;
                    }
                    let before = buf.len() as isize;
                    if depth > 8 {
                        return Err("second reader: nesting too deep".into());
                    }
                    self.gsub_at(*li, buf, pos[si], depth + 1)?;
                    let delta = buf.len() as isize - before;
                    if delta != 0 {
                        end += delta;
                        for k in si + 1..pos.len() {
                            pos[k] = (pos[k] as isize + delta).max(pos[si] as isize) as usize;
                        }
                    }
                }
                return Ok(Some((end.max(i as isize + 1)) as usize));
            }
            Ok(None)
        }

        fn seq_ctx_rules(&self, st: &SequenceContext<'a>, g: u16) -> Result<Vec<CtxRule<'a>>, String> {
            let mut out = vec![];
            match st {
                SequenceContext::Format1(t) => {
                    let Some(ci) = t.coverage().map_err(e)?.get(gid16(g)) else {
                        return Ok(out);
                    };
                    if let Some(set) = t.seq_rule_sets().get(ci as usize) {
                        for r in set.map_err(e)?.seq_rules().iter() {
                            let r = r.map_err(e)?;
                            let mut input = vec![Pred::Gid(g)];
                            input.extend(r.input_sequence().iter().map(|x| Pred::Gid(x.get().to_u16())));
                            out.push(CtxRule { back: vec![], input, ahead: vec![], records: recs(r.seq_lookup_records()) });
                        }
                    }
                }
                SequenceContext::Format2(t) => {
                    let cov = t.coverage().map_err(e)?;
                    if cov.get(gid16(g)).is_none() {
                        return Ok(out);
                    }
                    let cd = t.class_def().map_err(e)?;
                    let c = cd.get(gid16(g));
                    if let Some(set) = t.class_seq_rule_sets().get(c as usize) {
                        for r in set.map_err(e)?.class_seq_rules().iter() {
                            let r = r.map_err(e)?;
                            let mut input = vec![Pred::CovAndClass(cov.clone(), cd.clone(), c)];
                            input.extend(r.input_sequence().iter().map(|x| Pred::Class(cd.clone(), x.get())));
                            out.push(CtxRule { back: vec![], input, ahead: vec![], records: recs(r.seq_lookup_records()) });
                        }
                    }
                }
                SequenceContext::Format3(t) => {
                    let mut input = vec![];
                    for c in t.coverages().iter() {
                        input.push(Pred::Cov(c.map_err(e)?));
                    }
                    out.push(CtxRule { back: vec![], input, ahead: vec![], records: recs(t.seq_lookup_records()) });
                }
            }
            Ok(out)
        }

        fn chain_ctx_rules(&self, st: &ChainedSequenceContext<'a>, g: u16) -> Result<Vec<CtxRule<'a>>, String> {
            let mut out = vec![];
            match st {
                ChainedSequenceContext::Format1(t) => {
                    let Some(ci) = t.coverage().map_err(e)?.get(gid16(g)) else {
                        return Ok(out);
                    };
                    if let Some(set) = t.chained_seq_rule_sets().get(ci as usize) {
                        for r in set.map_err(e)?.chained_seq_rules().iter() {
                            let r = r.map_err(e)?;
                            let mut input = vec![Pred::Gid(g)];
                            input.extend(r.input_sequence().iter().map(|x| Pred::Gid(x.get().to_u16())));
                            out.push(CtxRule {
                                back: r.backtrack_sequence().iter().map(|x| Pred::Gid(x.get().to_u16())).collect(),
                                input,
                                ahead: r.lookahead_sequence().iter().map(|x| Pred::Gid(x.get().to_u16())).collect(),
                                records: recs(r.seq_lookup_records()),
                            });
                        }
                    }
                }
                ChainedSequenceContext::Format2(t) => {
                    let cov = t.coverage().map_err(e)?;
                    if cov.get(gid16(g)).is_none() {
                        return Ok(out);
                    }
                    let bcd = t.backtrack_class_def().map_err(e)?;
                    let icd = t.input_class_def().map_err(e)?;
                    let lcd = t.lookahead_class_def().map_err(e)?;
                    let c = icd.get(gid16(g));
                    if let Some(set) = t.chained_class_seq_rule_sets().get(c as usize) {
                        for r in set.map_err(e)?.chained_class_seq_rules().iter() {
                            let r = r.map_err(e)?;
                            let mut input = vec![Pred::CovAndClass(cov.clone(), icd.clone(), c)];
                            input.extend(r.input_sequence().iter().map(|x| Pred::Class(icd.clone(), x.get())));
                            out.push(CtxRule {
                                back: r.backtrack_sequence().iter().map(|x| Pred::Class(bcd.clone(), x.get())).collect(),
                                input,
                                ahead: r.lookahead_sequence().iter().map(|x| Pred::Class(lcd.clone(), x.get())).collect(),
                                records: recs(r.seq_lookup_records()),
                            });
                        }
                    }
                }
                ChainedSequenceContext::Format3(t) => {
                    let mut back = vec![];
                    for c in t.backtrack_coverages().iter() {
                        back.push(Pred::Cov(c.map_err(e)?));
                    }
                    let mut input = vec![];
                    for c in t.input_coverages().iter() {
                        input.push(Pred::Cov(c.map_err(e)?));
                    }
                    let mut ahead = vec![];
                    for c in t.lookahead_coverages().iter() {
                        ahead.push(Pred::Cov(c.map_err(e)?));
                    }
                    out.push(CtxRule { back, input, ahead, records: recs(t.seq_lookup_records()) });
                }
            }
            Ok(out)
        }

        /// One application of GSUB lookup `li` at `i`: first subtable that matches.
        fn gsub_at(&self, li: u16, buf: &mut Vec<Glyph>, i: usize, depth: u32) -> Result<Option<usize>, String> {
            let lookup = self.font.gsub().map_err(e)?.lookup_list().map_err(e)?.lookups().get(li as usize).map_err(e)?;
            let flag = Flt { flag: lookup.lookup_flag().to_bits(), set: lookup.mark_filtering_set() };
            let g = buf[i].gid;
            match lookup.subtables().map_err(e)? {
                SubstitutionSubtables::Single(sts) => {
                    for st in sts.iter() {
                        match st.map_err(e)? {
                            SingleSubst::Format1(t) => {
                                if t.coverage().map_err(e)?.get(gid16(g)).is_some() {
                                    buf[i].gid = (g as i32 + t.delta_glyph_id() as i32).rem_euclid(65536) as u16;
                                    return Ok(Some(i + 1));
                                }
                            }
                            SingleSubst::Format2(t) => {
                                if let Some(ci) = t.coverage().map_err(e)?.get(gid16(g)) {
                                    let s = t.substitute_glyph_ids().get(ci as usize).ok_or("substitute index out of range")?;
                                    buf[i].gid = s.get().to_u16();
                                    return Ok(Some(i + 1));
                                }
                            }
                        }
                    }
                }
                SubstitutionSubtables::Multiple(sts) => {
                    for st in sts.iter() {
                        let t = st.map_err(e)?;
                        if let Some(ci) = t.coverage().map_err(e)?.get(gid16(g)) {
                            let seq = t.sequences().get(ci as usize).map_err(e)?;
                            let adj = buf[i].adj;
                            let new: Vec<Glyph> = seq.substitute_glyph_ids().iter().map(|x| Glyph { gid: x.get().to_u16(), adj }).collect();
                            let n = new.len();
                            buf.splice(i..i + 1, new);
                            return Ok(Some(i + n));
                        }
                    }
                }
                SubstitutionSubtables::Ligature(sts) => {
                    for st in sts.iter() {
                        let t = st.map_err(e)?;
                        let Some(ci) = t.coverage().map_err(e)?.get(gid16(g)) else {
                            continue;
                        };
                        let set = t.ligature_sets().get(ci as usize).map_err(e)?;
                        for lig in set.ligatures().iter() {
                            let lig = lig.map_err(e)?;
                            let mut preds = vec![Pred::Gid(g)];
                            preds.extend(lig.component_glyph_ids().iter().map(|x| Pred::Gid(x.get().to_u16())));
                            if let Some(pos) = self.match_input(buf, i, &preds, flag)? {
                                buf[i].gid = lig.ligature_glyph().to_u16();
                                let last = *pos.last().unwrap();
                                for p in pos[1..].iter().rev() {
                                    buf.remove(*p);
                                }
                                return Ok(Some(last + 1 - (pos.len() - 1)));
                            }
                        }
                    }
                }
                SubstitutionSubtables::Contextual(sts) => {
                    for st in sts.iter() {
                        let rules = self.seq_ctx_rules(&st.map_err(e)?, g)?;
                        if let Some(n) = self.ctx_apply(&rules, buf, i, flag, depth)? {
                            return Ok(Some(n));
                        }
                    }
                }
                SubstitutionSubtables::ChainContextual(sts) => {
                    for st in sts.iter() {
                        let rules = self.chain_ctx_rules(&st.map_err(e)?, g)?;
                        if let Some(n) = self.ctx_apply(&rules, buf, i, flag, depth)? {
                            return Ok(Some(n));
                        }
                    }
                }
                _ => return Err("second reader: GSUB lookup type not supported".into()),
            }
            Ok(None)
        }

        fn gpos_at(&self, li: u16, buf: &mut [Glyph], i: usize) -> Result<Option<usize>, String> {
            let lookup = self.font.gpos().map_err(e)?.lookup_list().map_err(e)?.lookups().get(li as usize).map_err(e)?;
            let flag = Flt { flag: lookup.lookup_flag().to_bits(), set: lookup.mark_filtering_set() };
            let g = buf[i].gid;
            match lookup.subtables().map_err(e)? {
                PositionSubtables::Single(sts) => {
                    for st in sts.iter() {
                        match st.map_err(e)? {
                            SinglePos::Format1(t) => {
                                if t.coverage().map_err(e)?.get(gid16(g)).is_some() {
                                    add(&mut buf[i].adj, &t.value_record());
                                    return Ok(Some(i + 1));
                                }
                            }
                            SinglePos::Format2(t) => {
                                if let Some(ci) = t.coverage().map_err(e)?.get(gid16(g)) {
                                    let v = t.value_records().get(ci as usize).map_err(e)?;
                                    add(&mut buf[i].adj, &v);
                                    return Ok(Some(i + 1));
                                }
                            }
                        }
                    }
                }
                PositionSubtables::Pair(sts) => {
                    let Some(j) = self.next_visible(buf, i + 1, flag)? else {
                        return Ok(None);
                    };
                    let g2 = buf[j].gid;
                    for st in sts.iter() {
                        match st.map_err(e)? {
                            PairPos::Format1(t) => {
                                let Some(ci) = t.coverage().map_err(e)?.get(gid16(g)) else {
                                    continue;
                                };
                                let set = t.pair_sets().get(ci as usize).map_err(e)?;
                                for rec in set.pair_value_records().iter() {
                                    let rec = rec.map_err(e)?;
                                    if rec.second_glyph().to_u16() == g2 {
                                        add(&mut buf[i].adj, rec.value_record1());
                                        add(&mut buf[j].adj, rec.value_record2());
                                        let skip2 = !t.value_format2().is_empty();
                                        return Ok(Some(if skip2 { j + 1 } else { j }));
                                    }
                                }
                            }
                            PairPos::Format2(t) => {
                                if t.coverage().map_err(e)?.get(gid16(g)).is_none() {
                                    continue;
                                }
                                let c1 = t.class_def1().map_err(e)?.get(gid16(g));
                                let c2 = t.class_def2().map_err(e)?.get(gid16(g2));
                                let r1 = t.class1_records().get(c1 as usize).map_err(e)?;
                                let r2 = r1.class2_records().get(c2 as usize).map_err(e)?;
                                add(&mut buf[i].adj, r2.value_record1());
                                add(&mut buf[j].adj, r2.value_record2());
                                let skip2 = !t.value_format2().is_empty();
                                return Ok(Some(if skip2 { j + 1 } else { j }));
                            }
                        }
                    }
                }
                _ => return Err("second reader: GPOS lookup type not supported".into()),
            }
            Ok(None)
        }
    }
}

// =============================================================== program space

#[derive(Clone, Copy, Debug, PartialEq, Eq, Hash, PartialOrd, Ord)]
enum Form {
    /// rules written directly in the feature block
    Anon,
    /// `lookup N { .. } N;` inside the feature block
    BlockIn,
    /// `lookup N { .. } N;` before the feature, `lookup N;` inside it
    BlockOutRef,
    /// `lookup N { .. } N;` before the feature, used only from a contextual rule
    BlockOutOnly,
}

impl Form {
    fn name(self) -> &'static str {
        match self {
            Form::Anon => "anon",
            Form::BlockIn => "block-in-feature",
            Form::BlockOutRef => "block-outside+ref",
            Form::BlockOutOnly => "block-outside-nested-only",
        }
    }
}

#[derive(Clone, Debug)]
struct LSpec {
    rules: Vec<Rule>,
    flag: LFlag,
    form: Form,
}

fn lf(bits: u16) -> LFlag {
    LFlag::bits(bits)
}
fn umfs(c: Gs) -> LFlag {
    LFlag { bits: 0, mark_attach: None, mark_filter: Some(c) }
}
fn mat(c: Gs) -> LFlag {
    LFlag { bits: 0, mark_attach: Some(c), mark_filter: None }
}
fn flag_stmt(f: &LFlag) -> Stmt {
    if f.is_plain() { Stmt::LookupFlag(f.bits) } else { Stmt::LookupFlagEx(f.clone()) }
}
/// `IgnoreMarks`, `UseMarkFilteringSet [acutecomb]`, ... (`0` for no flag)
fn flag_text(f: &LFlag) -> String {
    f.to_fea().trim_start_matches("lookupflag ").trim_end_matches(';').to_string()
}

/// Named mark classes the flag alphabet may refer to.
const MARK_CLASSES: [(&str, &[Gid]); 2] = [("M1", &[G_GRAVE]), ("M2", &[G_GRAVE, G_DOTBELOW])];

impl LSpec {
    fn kind(&self) -> Kind {
        rule_kind(&self.rules[0])
    }
}

const NEST: &str = "NEST";

fn g(x: Gid) -> Gs {
    Gs::G(x)
}
fn lit(v: &[Gid]) -> Gs {
    Gs::Lit(v.to_vec())
}

/// The rule alphabet, per lookup type. Chain rules that reference `NEST` are usable only
/// where another named GSUB lookup precedes them; `NEST` is replaced by that lookup's name.
fn alphabet() -> BTreeMap<Kind, Vec<Rule>> {
    let c0 = || Gs::Named("C0".into());
    let mut m = BTreeMap::new();
    m.insert(
        Kind::Single,
        vec![
            Rule::Single { from: g(G_A), to: g(G_B) },
            Rule::Single { from: g(G_B), to: g(G_C) },
            Rule::Single { from: lit(&[G_A, G_B]), to: g(G_D) },
            Rule::Single { from: lit(&[G_A, G_B]), to: lit(&[G_C, G_D]) },
            Rule::Single { from: c0(), to: lit(&[G_B, G_A]) },
            Rule::Single { from: Gs::Range(G_A, G_C), to: g(G_D) },
            Rule::Single { from: g(G_ACUTE), to: g(G_D) },
            Rule::Single { from: g(G_D), to: g(G_ACUTE) },
            Rule::Single { from: g(G_FF), to: g(G_A) },
        ],
    );
    m.insert(
        Kind::Multiple,
        vec![
            Rule::Multiple { from: G_A, to: vec![G_B, G_C] },
            Rule::Multiple { from: G_FF, to: vec![G_A, G_A] },
            Rule::Multiple { from: G_B, to: vec![G_A, G_ACUTE] },
            Rule::Multiple { from: G_C, to: vec![G_A, G_B, G_C] },
        ],
    );
    m.insert(
        Kind::Ligature,
        vec![
            Rule::Ligature { comps: vec![g(G_A), g(G_B)], to: G_FF },
            Rule::Ligature { comps: vec![g(G_A), g(G_B), g(G_C)], to: G_D },
            Rule::Ligature { comps: vec![lit(&[G_A, G_B]), g(G_C)], to: G_D },
            Rule::Ligature { comps: vec![g(G_A), g(G_A)], to: G_B },
            Rule::Ligature { comps: vec![g(G_A), g(G_ACUTE)], to: G_C },
        ],
    );
    let inp = |x: Gs| (x, Vec::<String>::new());
    let nest = |x: Gs, n: usize| (x, vec![NEST.to_string(); n]);
    m.insert(
        Kind::Chain,
        vec![
            // sub a b' c by d;
            Rule::Chain { back: vec![g(G_A)], input: vec![inp(g(G_B))], ahead: vec![g(G_C)], by: Some(g(G_D)) },
            // sub a' b by c;
            Rule::Chain { back: vec![], input: vec![inp(g(G_A))], ahead: vec![g(G_B)], by: Some(g(G_C)) },
            // sub a b c' by d;   (two backtrack glyphs: order)
            Rule::Chain { back: vec![g(G_A), g(G_B)], input: vec![inp(g(G_C))], ahead: vec![], by: Some(g(G_D)) },
            // sub c' a b by d;   (two lookahead glyphs)
            Rule::Chain { back: vec![], input: vec![inp(g(G_C))], ahead: vec![g(G_A), g(G_B)], by: Some(g(G_D)) },
            // sub [a b]' c by [c d];
            Rule::Chain { back: vec![], input: vec![inp(lit(&[G_A, G_B]))], ahead: vec![g(G_C)], by: Some(lit(&[G_C, G_D])) },
            // sub a' b' c by f_f;   (inline ligature)
            Rule::Chain { back: vec![], input: vec![inp(g(G_A)), inp(g(G_B))], ahead: vec![g(G_C)], by: Some(g(G_FF)) },
            // ignore sub a b' c;
            Rule::Ignore { back: vec![g(G_A)], input: vec![g(G_B)], ahead: vec![g(G_C)] },
            // sub b' c by a;   (same marked glyph as rule 0, other replacement)
            Rule::Chain { back: vec![], input: vec![inp(g(G_B))], ahead: vec![g(G_C)], by: Some(g(G_A)) },
            // sub a' acutecomb by c;   (mark in the context)
            Rule::Chain { back: vec![], input: vec![inp(g(G_A))], ahead: vec![g(G_ACUTE)], by: Some(g(G_C)) },
            // sub a' lookup NEST b;
            Rule::Chain { back: vec![], input: vec![nest(g(G_A), 1)], ahead: vec![g(G_B)], by: None },
            // sub a' lookup NEST b' lookup NEST;
            Rule::Chain { back: vec![], input: vec![nest(g(G_A), 1), nest(g(G_B), 1)], ahead: vec![], by: None },
            // sub a b' lookup NEST;
            Rule::Chain { back: vec![g(G_A)], input: vec![nest(g(G_B), 1)], ahead: vec![], by: None },
            // sub a' lookup NEST b' c;   (nested ligature fits the marked input)
            Rule::Chain { back: vec![], input: vec![nest(g(G_A), 1), inp(g(G_B))], ahead: vec![g(G_C)], by: None },
        ],
    );
    m.insert(
        Kind::SinglePos,
        vec![
            Rule::SinglePos { target: g(G_A), value: Value::Adv(10) },
            Rule::SinglePos { target: g(G_B), value: Value::Rec([1, 2, 3, 4]) },
            Rule::SinglePos { target: lit(&[G_A, G_B]), value: Value::Adv(-5) },
            Rule::SinglePos { target: g(G_ACUTE), value: Value::Rec([5, 6, 0, 0]) },
        ],
    );
    let pair = |f: Gs, s: Gs, v: Value, e: bool| Rule::PairPos { first: f, second: s, value: v, enumerate: e };
    m.insert(
        Kind::PairPos,
        vec![
            pair(g(G_A), g(G_B), Value::Adv(10), false),
            pair(g(G_A), g(G_C), Value::Rec([1, 2, 3, 4]), false),
            pair(lit(&[G_A, G_B]), g(G_D), Value::Adv(-7), true),
            pair(g(G_A), g(G_ACUTE), Value::Adv(15), false),
            pair(lit(&[G_A, G_B]), lit(&[G_C, G_D]), Value::Adv(20), false),
            pair(lit(&[G_C, G_D]), lit(&[G_A, G_B]), Value::Adv(30), false),
            pair(lit(&[G_A, G_B]), lit(&[G_A, G_B]), Value::Adv(40), false),
            pair(c0(), g(G_FF), Value::Adv(25), false),
        ],
    );
    m
}

fn rule_uses_nest(r: &Rule) -> bool {
    matches!(r, Rule::Chain { input, .. } if input.iter().any(|(_, l)| !l.is_empty()))
}

fn bind_nest(r: &Rule, name: &str) -> Rule {
    match r {
        Rule::Chain { back, input, ahead, by } => Rule::Chain {
            back: back.clone(),
            input: input
                .iter()
                .map(|(g, l)| (g.clone(), l.iter().map(|_| name.to_string()).collect()))
                .collect(),
            ahead: ahead.clone(),
            by: by.clone(),
        },
        r => r.clone(),
    }
}

/// Ordered sequences of 1..=max distinct rules.
fn sequences(rules: &[Rule], max: usize) -> Vec<Vec<Rule>> {
    fn rec(rules: &[Rule], max: usize, cur: &mut Vec<usize>, out: &mut Vec<Vec<Rule>>) {
        if !cur.is_empty() {
            out.push(cur.iter().map(|i| rules[*i].clone()).collect());
        }
        if cur.len() == max {
            return;
        }
        for i in 0..rules.len() {
            if !cur.contains(&i) {
                cur.push(i);
                rec(rules, max, cur, out);
                cur.pop();
            }
        }
    }
    let mut out = vec![];
    rec(rules, max, &mut vec![], &mut out);
    out
}

/// Build the program of family A from lookup specs. Lookups defined outside the feature are
/// declared first (so their lookup index precedes the feature's own lookups). `lookupflag`
/// statements are written so that every reading of the specification gives each lookup the
/// intended flag (see the assumptions in the evidence).
fn build_a(specs: &[LSpec]) -> Program {
    let mut items = vec![];
    fn named(g: &Gs) -> bool {
        matches!(g, Gs::Named(_))
    }
    let uses_c0 = specs.iter().any(|s| {
        s.rules.iter().any(|r| match r {
            Rule::Single { from, to } => named(from) || named(to),
            Rule::PairPos { first, second, .. } => named(first) || named(second),
            Rule::SinglePos { target, .. } => named(target),
            Rule::Ligature { comps, .. } => comps.iter().any(named),
            Rule::Chain { back, input, ahead, by } => {
                back.iter().any(named)
                    || ahead.iter().any(named)
                    || input.iter().any(|(g, _)| named(g))
                    || by.as_ref().map(named).unwrap_or(false)
            }
            Rule::Ignore { back, input, ahead } => back.iter().chain(input).chain(ahead).any(named),
            Rule::ChainMultiple { back, ahead, .. } => back.iter().chain(ahead).any(named),
            Rule::Multiple { .. } => false,
        })
    });
    if uses_c0 {
        items.push(Top::ClassDef { name: "C0".into(), glyphs: vec![G_A, G_B] });
    }
    for (name, glyphs) in MARK_CLASSES {
        let used = |c: &Option<Gs>| matches!(c, Some(Gs::Named(n)) if n == name);
        if specs.iter().any(|s| used(&s.flag.mark_attach) || used(&s.flag.mark_filter)) {
            items.push(Top::ClassDef { name: name.into(), glyphs: glyphs.to_vec() });
        }
    }
    items.push(Top::Gdef);
    let names: Vec<String> = (0..specs.len()).map(|i| format!("L{i}")).collect();
    // bind NEST in lookup i to the nearest preceding named GSUB non-contextual lookup
    let bound: Vec<Vec<Rule>> = specs
        .iter()
        .enumerate()
        .map(|(i, s)| {
            let target = (0..i).rev().find(|j| {
                specs[*j].form != Form::Anon && specs[*j].kind().is_gsub() && specs[*j].kind() != Kind::Chain
            });
            s.rules
                .iter()
                .map(|r| match target {
                    Some(j) => bind_nest(r, &names[j]),
                    None => r.clone(),
                })
                .collect()
        })
        .collect();
    let block_body = |i: usize, need_flag: bool| {
        let mut body = vec![];
        if need_flag {
            body.push(flag_stmt(&specs[i].flag));
        }
        body.extend(bound[i].iter().cloned().map(Stmt::Rule));
        body
    };
    for (i, s) in specs.iter().enumerate() {
        if matches!(s.form, Form::BlockOutRef | Form::BlockOutOnly) {
            items.push(Top::Lookup { name: names[i].clone(), body: block_body(i, !s.flag.is_zero()) });
        }
    }
    let mut body = vec![];
    // the feature-level flag as far as every reading agrees on it
    let mut cur: Option<LFlag> = Some(lf(0));
    for (i, s) in specs.iter().enumerate() {
        match s.form {
            Form::Anon => {
                if cur.as_ref() != Some(&s.flag) {
                    body.push(flag_stmt(&s.flag));
                    cur = Some(s.flag.clone());
                }
                body.extend(bound[i].iter().cloned().map(Stmt::Rule));
            }
            Form::BlockIn => {
                let need = !s.flag.is_zero() || cur != Some(lf(0));
                body.push(Stmt::Lookup { name: names[i].clone(), body: block_body(i, need) });
                if need {
                    cur = None;
                }
            }
            Form::BlockOutRef => {
                body.push(Stmt::LookupRef(names[i].clone()));
                if cur.as_ref() != Some(&s.flag) {
                    cur = None;
                }
            }
            Form::BlockOutOnly => {}
        }
    }
    items.push(Top::Feature { tag: "test".into(), body });
    Program { items }
}

// ---------------------------------------------------------------- family B

#[derive(Clone, Copy, Debug, PartialEq, Eq)]
enum Item {
    AnonAB,
    RefN0,
    BlockN1,
    AnonPosA,
    AnonDA,
}

/// Family B: one feature `test` whose body is `pre-items [script latn; items [language TRK
/// [exclude_dflt]; items]]`, under each languagesystem prelude, optionally followed by a
/// feature `kern`.
fn build_b(ls: usize, pre: &[Item], latn: Option<&[Item]>, trk: Option<(bool, &[Item])>, trailer: usize) -> Program {
    let mut items = vec![];
    let d = |s: &str, l: &str| Top::LanguageSystem { script: s.into(), lang: l.into() };
    match ls {
        0 => {}
        1 => items.push(d("DFLT", "dflt")),
        2 => {
            items.push(d("DFLT", "dflt"));
            items.push(d("latn", "dflt"));
        }
        _ => {
            items.push(d("DFLT", "dflt"));
            items.push(d("latn", "dflt"));
            items.push(d("latn", "TRK"));
        }
    }
    items.push(Top::Gdef);
    let sub = |a, b| Stmt::Rule(Rule::Single { from: g(a), to: g(b) });
    items.push(Top::Lookup { name: "N0".into(), body: vec![sub(G_B, G_C)] });
    let mut n1_defined = false;
    let mut emit = |it: &Item, out: &mut Vec<Stmt>| match it {
        Item::AnonAB => out.push(sub(G_A, G_B)),
        Item::RefN0 => out.push(Stmt::LookupRef("N0".into())),
        Item::BlockN1 => {
            if n1_defined {
                out.push(Stmt::LookupRef("N1".into()));
            } else {
                n1_defined = true;
                out.push(Stmt::Lookup { name: "N1".into(), body: vec![sub(G_C, G_D)] });
            }
        }
        Item::AnonPosA => out.push(Stmt::Rule(Rule::SinglePos { target: g(G_A), value: Value::Adv(10) })),
        Item::AnonDA => out.push(sub(G_D, G_A)),
    };
    let mut body = vec![];
    for it in pre {
        emit(it, &mut body);
    }
    if let Some(l) = latn {
        body.push(Stmt::Script("latn".into()));
        for it in l {
            emit(it, &mut body);
        }
        if let Some((ex, t)) = trk {
            body.push(Stmt::Language { tag: "TRK".into(), exclude_dflt: ex });
            for it in t {
                emit(it, &mut body);
            }
        }
    }
    items.push(Top::Feature { tag: "test".into(), body });
    let pair = Stmt::Rule(Rule::PairPos { first: g(G_A), second: g(G_B), value: Value::Adv(10), enumerate: false });
    match trailer {
        1 => items.push(Top::Feature { tag: "kern".into(), body: vec![pair] }),
        2 => items.push(Top::Feature { tag: "kern".into(), body: vec![Stmt::Script("latn".into()), pair] }),
        _ => {}
    }
    Program { items }
}

fn item_seqs(alpha: &[Item], max: usize) -> Vec<Vec<Item>> {
    let mut out = vec![vec![]];
    for a in alpha {
        out.push(vec![*a]);
    }
    if max >= 2 {
        for a in alpha {
            for b in alpha {
                if a != b {
                    out.push(vec![*a, *b]);
                }
            }
        }
    }
    out
}


// ---------------------------------------------------------------- family I

/// Family I: contextual rules with in-line replacements, several per lookup. The marked
/// element is a glyph or a class; classes of different rules are equal (also in another
/// order), overlapping or disjoint, and the replacements differ.
#[derive(Clone)]
enum Ctx {
    None,
    Back(Gid),
    Ahead(Gid),
}

fn with_ctx(c: &Ctx) -> (Vec<Gs>, Vec<Gs>) {
    match c {
        Ctx::None => (vec![], vec![]),
        Ctx::Back(x) => (vec![g(*x)], vec![]),
        Ctx::Ahead(x) => (vec![], vec![g(*x)]),
    }
}

/// (in-line single, in-line ligature, in-line multiple) rule alphabets; `small` = the reduced
/// alphabets used for three-rule lookups.
fn inline_alphabet(small: bool) -> Vec<Rule> {
    let mut out = vec![];
    // single: sub [ctx] M' [ctx] by R;
    let (ctxs, marked, bys): (Vec<Ctx>, Vec<Gs>, Vec<Gs>) = if small {
        (
            vec![Ctx::Back(G_D), Ctx::None],
            vec![lit(&[G_A, G_B]), lit(&[G_C, G_B]), lit(&[G_B, G_A])],
            vec![g(G_D), g(G_FF), lit(&[G_C, G_D])],
        )
    } else {
        (
            vec![Ctx::Back(G_D), Ctx::Back(G_FF), Ctx::Ahead(G_D), Ctx::None],
            vec![g(G_A), lit(&[G_A, G_B]), lit(&[G_C, G_B]), lit(&[G_B, G_A]), Gs::Range(G_A, G_C)],
            vec![g(G_D), g(G_FF), lit(&[G_C, G_D]), lit(&[G_D, G_A])],
        )
    };
    for c in &ctxs {
        for m in &marked {
            for by in &bys {
                let (back, ahead) = with_ctx(c);
                out.push(Rule::Chain { back, input: vec![(m.clone(), vec![])], ahead, by: Some(by.clone()) });
            }
        }
    }
    // ligature: sub [ctx] M1' M2' [ctx] by G;
    let (ctxs, m1s, m2s): (Vec<Ctx>, Vec<Gs>, Vec<Gs>) = if small {
        (vec![Ctx::Ahead(G_D), Ctx::None], vec![g(G_A), lit(&[G_A, G_C])], vec![g(G_B)])
    } else {
        (
            vec![Ctx::Back(G_D), Ctx::Ahead(G_D), Ctx::Ahead(G_FF), Ctx::None],
            vec![g(G_A), lit(&[G_A, G_C])],
            vec![g(G_B), lit(&[G_B, G_A])],
        )
    };
    for c in &ctxs {
        for m1 in &m1s {
            for m2 in &m2s {
                for by in [G_FF, G_D] {
                    let (back, ahead) = with_ctx(c);
                    out.push(Rule::Chain {
                        back,
                        input: vec![(m1.clone(), vec![]), (m2.clone(), vec![])],
                        ahead,
                        by: Some(g(by)),
                    });
                }
            }
        }
    }
    // multiple: sub [ctx] G' [ctx] by X Y ..;
    let (ctxs, tos): (Vec<Ctx>, Vec<Vec<Gid>>) = if small {
        (vec![Ctx::Ahead(G_D)], vec![vec![G_C, G_D]])
    } else {
        (
            vec![Ctx::Back(G_D), Ctx::Ahead(G_D), Ctx::Ahead(G_FF), Ctx::None],
            vec![vec![G_C, G_D], vec![G_B, G_A, G_ACUTE]],
        )
    };
    for c in &ctxs {
        for input in [G_A, G_B] {
            for to in &tos {
                let (back, ahead) = with_ctx(c);
                out.push(Rule::ChainMultiple { back, input, ahead, to: to.clone() });
            }
        }
    }
    out.into_iter().filter(|r| lookup_ok(std::slice::from_ref(r))).collect()
}

fn inline_kind(r: &Rule) -> &'static str {
    match r {
        Rule::ChainMultiple { .. } => "inline-multiple",
        Rule::Chain { input, by: Some(_), .. } if input.len() > 1 => "inline-ligature",
        Rule::Chain { input, by: Some(_), .. } if !matches!(input[0].0, Gs::G(_)) => "inline-class",
        Rule::Chain { by: Some(_), .. } => "inline-single",
        _ => "other",
    }
}

/// Two in-line single rules whose marked classes share a glyph and whose replacements differ.
fn overlapping_inline(a: &Rule, b: &Rule) -> bool {
    let set = |x: &Gs| -> Vec<Gid> {
        match x {
            Gs::G(x) => vec![*x],
            Gs::Lit(v) => v.clone(),
            Gs::Range(a, b) => (*a..=*b).collect(),
            Gs::Named(_) => vec![],
        }
    };
    match (a, b) {
        (
            Rule::Chain { input: ia, by: Some(ba), .. },
            Rule::Chain { input: ib, by: Some(bb), .. },
        ) if ia.len() == 1 && ib.len() == 1 => {
            let (sa, sb) = (set(&ia[0].0), set(&ib[0].0));
            sa.len() > 1 && sb.len() > 1 && sa.iter().any(|x| sb.contains(x)) && ba != bb
        }
        _ => false,
    }
}

// ---------------------------------------------------------------- family F

/// The lookup-flag alphabet of family F. `M1`, `M2` are named classes (see `MARK_CLASSES`).
fn flag_alphabet(full: bool) -> Vec<LFlag> {
    let mut v = vec![
        lf(0),
        lf(FLAG_IGNORE_MARKS),
        lf(FLAG_IGNORE_LIGATURES),
        umfs(lit(&[G_ACUTE])),
        umfs(Gs::Named("M1".into())),
        umfs(lit(&[G_ACUTE, G_DOTBELOW])),
        mat(lit(&[G_ACUTE])),
        mat(Gs::Named("M2".into())),
    ];
    if full {
        v.push(lf(FLAG_IGNORE_BASE_GLYPHS));
        v.push(LFlag { bits: FLAG_IGNORE_LIGATURES, mark_attach: None, mark_filter: Some(lit(&[G_GRAVE])) });
        v.push(LFlag { bits: FLAG_RIGHT_TO_LEFT, mark_attach: Some(lit(&[G_ACUTE])), mark_filter: None });
    }
    v
}

/// Rules whose outcome depends on which glyphs the lookup sees.
fn flag_rules() -> Vec<Rule> {
    let inp = |x: Gs| (x, Vec::<String>::new());
    let pair = |f: Gid, s: Gid, v: i32| Rule::PairPos { first: g(f), second: g(s), value: Value::Adv(v), enumerate: false };
    vec![
        Rule::Ligature { comps: vec![g(G_A), g(G_B)], to: G_C },
        Rule::Ligature { comps: vec![g(G_A), g(G_ACUTE)], to: G_D },
        Rule::Ligature { comps: vec![g(G_A), g(G_GRAVE), g(G_B)], to: G_D },
        pair(G_A, G_B, 10),
        pair(G_A, G_ACUTE, 15),
        pair(G_FF, G_B, 20),
        Rule::Chain { back: vec![], input: vec![inp(g(G_A))], ahead: vec![g(G_B)], by: Some(g(G_C)) },
        Rule::Chain { back: vec![g(G_A)], input: vec![inp(g(G_B))], ahead: vec![], by: Some(g(G_D)) },
        Rule::Chain { back: vec![], input: vec![inp(g(G_A))], ahead: vec![g(G_GRAVE)], by: Some(g(G_C)) },
        Rule::Chain { back: vec![], input: vec![inp(g(G_A)), inp(g(G_B))], ahead: vec![], by: Some(g(G_FF)) },
        Rule::Single { from: g(G_A), to: g(G_B) },
        Rule::Single { from: g(G_ACUTE), to: g(G_GRAVE) },
        Rule::SinglePos { target: lit(&[G_ACUTE, G_DOTBELOW]), value: Value::Rec([5, 6, 0, 0]) },
        Rule::Multiple { from: G_B, to: vec![G_A, G_ACUTE] },
    ]
}

// ---------------------------------------------------------------- family G

/// Family G: one contextual lookup whose rules are a prefix of the grid of all class
/// tuples over a two-class pool, `nb` backtrack + `ni` input + `nl` lookahead positions.
/// Large prefixes share classes between many rules, so that each of the three subtable
/// formats of GSUB 5/6 is the smallest encoding for some member of the family.
#[derive(Clone, Copy, Debug, PartialEq, Eq)]
enum GAction {
    /// `by <glyph>`: in-line single (one input position) or ligature (two)
    Inline,
    /// `lookup NA` / `lookup NB` at the first input position
    Nested,
}

#[derive(Clone, Copy, Debug)]
struct GSpec {
    pool: usize,
    nb: usize,
    ni: usize,
    nl: usize,
    /// number of rules (prefix of the tuple list)
    m: usize,
    /// tuple list in descending order
    rev: bool,
    action: GAction,
}

const G_POOLS: [&str; 4] = ["glyphs", "classes", "overlapping-classes", "class+glyph"];

fn g_pool(i: usize) -> [Gs; 2] {
    match i {
        0 => [g(G_A), g(G_B)],
        1 => [lit(&[G_A, G_B]), lit(&[G_C, G_D])],
        2 => [lit(&[G_A, G_B]), lit(&[G_B, G_C])],
        _ => [lit(&[G_A, G_B]), g(G_C)],
    }
}

fn build_g(sp: &GSpec) -> Program {
    let mut items = vec![Top::Gdef];
    if sp.action == GAction::Nested {
        items.push(Top::Lookup {
            name: "NA".into(),
            body: vec![Stmt::Rule(Rule::Single { from: Gs::Range(G_A, G_D), to: lit(&[G_B, G_C, G_D, G_A]) })],
        });
        items.push(Top::Lookup {
            name: "NB".into(),
            body: vec![Stmt::Rule(Rule::Single { from: Gs::Range(G_A, G_D), to: g(G_FF) })],
        });
    }
    let pool = g_pool(sp.pool);
    let n = sp.nb + sp.ni + sp.nl;
    let total = 1usize << n;
    let repl = [G_FF, G_D, G_C, G_B, G_A];
    let mut body = vec![];
    for j in 0..sp.m.min(total) {
        // k = index of the tuple in ascending order: the identity of the rule
        let k = if sp.rev { total - 1 - j } else { j };
        let at = |pos: usize| pool[(k >> (n - 1 - pos)) & 1].clone();
        let back: Vec<Gs> = (0..sp.nb).map(at).collect();
        let ahead: Vec<Gs> = (sp.nb + sp.ni..n).map(at).collect();
        let mut input: Vec<(Gs, Vec<String>)> = (sp.nb..sp.nb + sp.ni).map(|p| (at(p), vec![])).collect();
        let by = match sp.action {
            GAction::Inline => Some(g(repl[k % repl.len()])),
            GAction::Nested => {
                input[0].1.push(if k.count_ones() % 2 == 0 { "NA".into() } else { "NB".into() });
                None
            }
        };
        body.push(Stmt::Rule(Rule::Chain { back, input, ahead, by }));
    }
    items.push(Top::Feature { tag: "test".into(), body });
    Program { items }
}

fn all_strings_over(alpha: &[Gid], max_len: usize) -> Vec<Vec<Gid>> {
    let mut out: Vec<Vec<Gid>> = vec![vec![]];
    let mut level: Vec<Vec<Gid>> = vec![vec![]];
    for _ in 0..max_len {
        let mut next = vec![];
        for s in &level {
            for gl in alpha {
                let mut t = s.clone();
                t.push(*gl);
                next.push(t);
            }
        }
        out.extend(next.iter().cloned());
        level = next;
    }
    out
}

// =============================================================== evaluation

fn compile(fea: &str, gm: &GlyphMap) -> Result<Vec<u8>, String> {
    let src: Arc<str> = Arc::from(fea);
    let resolver = move |_p: &Path| -> Result<Arc<str>, SourceLoadError> { Ok(src.clone()) };
    let r = std::panic::catch_unwind(std::panic::AssertUnwindSafe(|| {
        Compiler::<NopFeatureProvider, NopVariationInfo>::new("mem.fea", gm)
            .with_resolver(resolver)
            .compile_binary()
    }));
    match r {
        Ok(Ok(b)) => Ok(b),
        Ok(Err(e)) => Err(format!("rejected: {}", first_line(&format!("{e:?}")))),
        Err(p) => {
            let msg = p
                .downcast_ref::<String>()
                .cloned()
                .or_else(|| p.downcast_ref::<&str>().map(|s| s.to_string()))
                .unwrap_or_default();
            Err(format!("PANIC: {msg}"))
        }
    }
}

fn first_line(s: &str) -> String {
    s.lines().next().unwrap_or("").chars().take(160).collect()
}

fn all_strings(max_len: usize) -> Vec<Vec<Gid>> {
    let mut out: Vec<Vec<Gid>> = vec![vec![]];
    let mut level: Vec<Vec<Gid>> = vec![vec![]];
    for _ in 0..max_len {
        let mut next = vec![];
        for s in &level {
            for gl in 1..=6u16 {
                let mut t = s.clone();
                t.push(gl);
                next.push(t);
            }
        }
        out.extend(next.iter().cloned());
        level = next;
    }
    out
}

fn show(s: &[Gid]) -> String {
    s.iter().map(|g| glyph_name(*g)).collect::<Vec<_>>().join(" ")
}

type Shaped = Vec<(u16, [i32; 4])>;

fn show_shaped(s: &Shaped) -> String {
    s.iter()
        .map(|(g, a)| {
            if *a == [0; 4] {
                glyph_name(*g).to_string()
            } else {
                format!("{}<{} {} {} {}>", glyph_name(*g), a[0], a[1], a[2], a[3])
            }
        })
        .collect::<Vec<_>>()
        .join(" ")
}

#[derive(Default)]
struct Stats {
    programs: u64,
    excluded: BTreeMap<String, u64>,
    ill_formed: u64,
    ill_formed_accepted: u64,
    compiled: u64,
    rejected: u64,
    rejected_reasons: BTreeMap<String, u64>,
    evaluations: u64,
    eval_ambiguous: BTreeMap<String, u64>,
    fired_pairs: u64,
    ctx_pairs: u64,
    ignore_pairs: u64,
    nested_pairs: u64,
    skip_pairs: u64,
    mark_class_skip_pairs: u64,
    /// "<family>/GSUB<type>.format<n>" -> compiled contextual lookups
    ctx_formats: BTreeMap<String, u64>,
    /// per family: programs compiled, evaluations, programs with a mismatch-free nontrivial run
    by_family: BTreeMap<String, [u64; 3]>,
    liga_longest_pairs: u64,
    positioned_pairs: u64,
    programs_nontrivial: u64,
    keys_checked: u64,
    second_reader_runs: u64,
    combos: BTreeSet<String>,
    engine_disagreements: Vec<Json>,
    second_reader_errors: BTreeMap<String, u64>,
    engine_problems: BTreeMap<String, u64>,
    violations: Vec<(String, String, Json)>,
    samples: Vec<Json>,
    hashes: HashSet<u64>,
}

impl Stats {
    fn merge(&mut self, o: Stats) {
        self.programs += o.programs;
        for (k, v) in o.excluded {
            *self.excluded.entry(k).or_default() += v;
        }
        self.ill_formed += o.ill_formed;
        self.ill_formed_accepted += o.ill_formed_accepted;
        self.compiled += o.compiled;
        self.rejected += o.rejected;
        for (k, v) in o.rejected_reasons {
            *self.rejected_reasons.entry(k).or_default() += v;
        }
        self.evaluations += o.evaluations;
        for (k, v) in o.eval_ambiguous {
            *self.eval_ambiguous.entry(k).or_default() += v;
        }
        self.fired_pairs += o.fired_pairs;
        self.ctx_pairs += o.ctx_pairs;
        self.ignore_pairs += o.ignore_pairs;
        self.nested_pairs += o.nested_pairs;
        self.skip_pairs += o.skip_pairs;
        self.mark_class_skip_pairs += o.mark_class_skip_pairs;
        for (k, v) in o.ctx_formats {
            *self.ctx_formats.entry(k).or_default() += v;
        }
        for (k, v) in o.by_family {
            let e = self.by_family.entry(k).or_default();
            for i in 0..3 {
                e[i] += v[i];
            }
        }
        self.liga_longest_pairs += o.liga_longest_pairs;
        self.positioned_pairs += o.positioned_pairs;
        self.programs_nontrivial += o.programs_nontrivial;
        self.keys_checked += o.keys_checked;
        self.second_reader_runs += o.second_reader_runs;
        self.combos.extend(o.combos);
        for d in o.engine_disagreements {
            if self.engine_disagreements.len() < 20 {
                self.engine_disagreements.push(d);
            }
        }
        for (k, v) in o.second_reader_errors {
            *self.second_reader_errors.entry(k).or_default() += v;
        }
        for (k, v) in o.engine_problems {
            *self.engine_problems.entry(k).or_default() += v;
        }
        self.violations.extend(o.violations);
        for s in o.samples {
            if self.samples.len() < 12 {
                self.samples.push(s);
            }
        }
        self.hashes.extend(o.hashes);
    }
}

struct Case<'a> {
    family: &'a str,
    /// short description of the program's shape, used in violation keys
    shape: String,
    /// full description (flags, forms, trailer), for the replay file
    detail: String,
    program: Program,
}

/// What is enumerated: the program is built from this in the worker.
#[derive(Clone, Debug)]
enum Desc {
    A(&'static str, Vec<LSpec>),
    G(GSpec),
    B { ls: usize, pre: Vec<Item>, latn: Option<Vec<Item>>, trk: Option<(bool, Vec<Item>)>, trailer: usize },
}

impl Desc {
    fn family(&self) -> &'static str {
        match self {
            Desc::A(f, _) => f,
            Desc::G(_) => "G",
            Desc::B { .. } => "B",
        }
    }
    fn build(&self) -> Case<'static> {
        match self {
            Desc::A(f, specs) if f.starts_with('I') => {
                let mut kinds: Vec<&str> = specs.iter().flat_map(|s| s.rules.iter().map(inline_kind)).collect();
                kinds.sort();
                kinds.dedup();
                Case {
                    family: f,
                    shape: format!("{}:{}", kinds.join("+"), if specs.len() == 1 { "one-lookup" } else { "two-lookups" }),
                    detail: detail_of(specs),
                    program: build_a(specs),
                }
            }
            Desc::A(f, specs) => Case { family: f, shape: shape_of(specs), detail: detail_of(specs), program: build_a(specs) },
            Desc::G(sp) => Case {
                family: "G",
                shape: format!(
                    "{}:{}",
                    G_POOLS[sp.pool],
                    match (sp.action, sp.ni) {
                        (GAction::Inline, 1) => "inline-single",
                        (GAction::Inline, _) => "inline-ligature",
                        (GAction::Nested, _) => "named-lookup",
                    }
                ),
                detail: format!("{sp:?}"),
                program: build_g(sp),
            },
            Desc::B { ls, pre, latn, trk, trailer } => {
                let n = |v: &Vec<Item>| if v.is_empty() { "0" } else { "+" };
                let shape = format!(
                    "ls{ls}:pre{}:latn{}:TRK{}",
                    n(pre),
                    match latn {
                        Some(l) => n(l),
                        None => "-",
                    },
                    match trk {
                        Some((ex, t)) => format!("{}{}", if *ex { "x" } else { "i" }, n(t)),
                        None => "-".into(),
                    }
                );
                Case {
                    family: "B",
                    detail: format!("{self:?}"),
                    shape,
                    program: build_b(*ls, pre, latn.as_deref(), trk.as_ref().map(|(e, t)| (*e, t.as_slice())), *trailer),
                }
            }
        }
    }
}

fn engine_shape(font: &LFont, script: &str, lang: &str, gsub: bool, gpos: bool, s: &[Gid]) -> (Shaped, Vec<String>) {
    let req = ShapeRequest {
        features: FeatureSel::All,
        gsub,
        gpos,
        ..ShapeRequest::all(script, lang)
    };
    let r = font.shape(&req, s);
    let out = r
        .glyphs
        .iter()
        .map(|g| {
            (
                g.gid,
                [
                    g.x_offset.round() as i32,
                    g.y_offset.round() as i32,
                    g.x_advance_adj.round() as i32,
                    g.y_advance_adj.round() as i32,
                ],
            )
        })
        .collect();
    (out, r.problems)
}

/// Evaluate one program over all strings. Returns true if the case still fails (replay).
fn evaluate(case: &Case, strings: &[Vec<Gid>], gm: &GlyphMap, st: &mut Stats, verbose: bool, always_second: bool) -> bool {
    st.programs += 1;
    let fea = case.program.to_fea();
    st.hashes.insert(vcore::hash64(fea.as_bytes()));
    let resolved: Resolved = match interp::resolve(&case.program) {
        Ok(r) => r,
        Err(Reject::Ambiguous(why)) => {
            *st.excluded.entry(why.clone()).or_default() += 1;
            if verbose {
                println!("reference: program excluded ({why})");
            }
            return false;
        }
        Err(Reject::IllFormed(why)) => {
            st.ill_formed += 1;
            if compile(&fea, gm).is_ok() {
                st.ill_formed_accepted += 1;
            }
            if verbose {
                println!("reference: program is ill-formed ({why})");
            }
            return false;
        }
    };
    let bytes = match compile(&fea, gm) {
        Ok(b) => b,
        Err(why) => {
            if why.starts_with("PANIC") {
                let key = format!("{}:{}:compiler-panic", case.family, case.shape);
                st.violations.push((
                    key,
                    format!("fea-rs panicked on a program of the supported subset: {why}"),
                    json!({"fea": fea, "program": case.program, "family": case.family, "shape": case.shape, "detail": case.detail}),
                ));
                return true;
            }
            st.rejected += 1;
            *st.rejected_reasons.entry(why.clone()).or_default() += 1;
            if verbose {
                println!("fea-rs: {why}");
            }
            return false;
        }
    };
    st.compiled += 1;
    let font = match LFont::new(&bytes) {
        Ok(f) => f,
        Err(e) => {
            st.violations.push((
                format!("{}:{}:unreadable-output", case.family, case.shape),
                format!("compiled tables do not parse: {e}"),
                json!({"fea": fea, "program": case.program, "family": case.family, "shape": case.shape, "detail": case.detail}),
            ));
            return true;
        }
    };
    let walker = tw::Walker::new(&bytes);
    st.by_family.entry(case.family.to_string()).or_default()[0] += 1;
    let mut formats_here: Vec<String> = vec![];
    if let Ok(w) = &walker {
        match w.context_formats() {
            Ok(v) => {
                for (ty, f, _n) in v {
                    let name = format!("GSUB{ty}.format{f}");
                    *st.ctx_formats.entry(format!("{}/{name}", case.family)).or_default() += 1;
                    formats_here.push(name);
                }
            }
            Err(e) => *st.second_reader_errors.entry(e).or_default() += 1,
        }
    }
    let evals_before = st.evaluations;
    let (kg, kp) = resolved.keys();
    let mut failed = false;
    let mut nontrivial = false;

    // which language systems exist (with lookups) must be what the source registers
    if let Ok(w) = &walker {
        for (gsub, want) in [(true, &kg), (false, &kp)] {
            match w.exact_keys(gsub) {
                Ok(have) => {
                    if &have != want {
                        let table = if gsub { "GSUB" } else { "GPOS" };
                        let what = format!(
                            "{table}: language systems with lookups are {:?}, the source registers {:?}",
                            have, want
                        );
                        if verbose {
                            println!("MISMATCH {what}");
                        }
                        st.violations.push((
                            format!("{}:{}:langsys-set:{table}", case.family, case.shape),
                            what,
                            json!({"fea": fea, "program": case.program, "family": case.family, "shape": case.shape, "detail": case.detail}),
                        ));
                        failed = true;
                    }
                }
                Err(e) => *st.second_reader_errors.entry(e).or_default() += 1,
            }
        }
    }

    let keys: BTreeSet<_> = kg.union(&kp).cloned().collect();
    for (script, lang) in &keys {
        let gsub_on = kg.contains(&(script.clone(), lang.clone()));
        let gpos_on = kp.contains(&(script.clone(), lang.clone()));
        st.keys_checked += 1;
        let mut reported_here = false;
        let mut shown = 0;
        let mut shown_bad = 0;
        for s in strings {
            let (want, trace) = match resolved.shape(script, lang, gsub_on, gpos_on, s) {
                Ok(x) => x,
                Err(Reject::Ambiguous(why)) | Err(Reject::IllFormed(why)) => {
                    *st.eval_ambiguous.entry(why).or_default() += 1;
                    continue;
                }
            };
            st.evaluations += 1;
            let want: Shaped = want.iter().map(|g| (g.gid, g.adj)).collect();
            let changed = want.len() != s.len() || want.iter().zip(s).any(|((g, a), i)| g != i || *a != [0; 4]);
            if changed {
                st.fired_pairs += 1;
                nontrivial = true;
            }
            if want.iter().any(|(_, a)| *a != [0; 4]) {
                st.positioned_pairs += 1;
            }
            if trace.contextual_fired > 0 {
                st.ctx_pairs += 1;
            }
            if trace.ignore_fired > 0 {
                st.ignore_pairs += 1;
            }
            if trace.nested_fired > 0 {
                st.nested_pairs += 1;
            }
            if trace.skip_mattered > 0 {
                st.skip_pairs += 1;
            }
            if trace.mark_class_skip_mattered > 0 {
                st.mark_class_skip_pairs += 1;
            }
            if trace.ligature_longest_won > 0 {
                st.liga_longest_pairs += 1;
            }
            let (got, problems) = engine_shape(&font, script, lang, gsub_on, gpos_on, s);
            for p in &problems {
                *st.engine_problems.entry(first_line(p)).or_default() += 1;
            }
            // the second reader runs on every mismatch, and on every case of a fixed
            // fraction of the programs so that it is itself validated against `otlayout`
            let second: Option<Shaped> = if always_second || got != want {
                st.second_reader_runs += 1;
                match &walker {
                    Ok(w) => match w.shape(script, lang, gsub_on, gpos_on, s) {
                        Ok(v) => Some(v.into_iter().map(|g| (g.gid, g.adj)).collect()),
                        Err(e) => {
                            *st.second_reader_errors.entry(e).or_default() += 1;
                            None
                        }
                    },
                    Err(e) => {
                        *st.second_reader_errors.entry(e.clone()).or_default() += 1;
                        None
                    }
                }
            } else {
                None
            };
            if let Some(sec) = &second {
                if *sec != got {
                    st.engine_disagreements.push(json!({
                        "fea": fea, "script": script, "lang": lang, "input": show(s),
                        "otlayout": show_shaped(&got), "second_reader": show_shaped(sec), "reference": show_shaped(&want),
                    }));
                    if verbose {
                        println!(
                            "ENGINES DISAGREE on '{}' ({script}/{lang}): otlayout {} / second reader {} / reference {}",
                            show(s), show_shaped(&got), show_shaped(sec), show_shaped(&want)
                        );
                    }
                    continue;
                }
            }
            if verbose && changed && got == want && shown < 2 {
                shown += 1;
                println!("  e.g. {script}/{lang} '{}' -> reference '{}' binary '{}'", show(s), show_shaped(&want), show_shaped(&got));
            }
            if got != want {
                failed = true;
                if second.is_none() {
                    // not confirmed by the second reading: machinery, not a verdict
                    st.engine_disagreements.push(json!({
                        "fea": fea, "script": script, "lang": lang, "input": show(s),
                        "otlayout": show_shaped(&got), "second_reader": "unavailable", "reference": show_shaped(&want),
                    }));
                    continue;
                }
                shown_bad += 1;
                if verbose && shown_bad <= 4 {
                    println!(
                        "MISMATCH {script}/{lang} input '{}': source says '{}', compiled tables give '{}' (both readers)",
                        show(s), show_shaped(&want), show_shaped(&got)
                    );
                }
                if !reported_here {
                    reported_here = true;
                    let aspect = if want.iter().map(|x| x.0).ne(got.iter().map(|x| x.0)) { "glyphs" } else { "positions" };
                    let key = format!("{}:{}:mismatch:{}/{}:{}", case.family, case.shape, script, lang, aspect);
                    st.violations.push((
                        key,
                        format!(
                            "{script}/{lang} input '{}': the source rules give '{}', the compiled tables give '{}' (otlayout and the second table reader agree){}",
                            show(s), show_shaped(&want), show_shaped(&got),
                            if formats_here.is_empty() { String::new() } else { format!("; contextual lookups compiled as {}", formats_here.join(", ")) }
                        ),
                        json!({"fea": fea, "program": case.program, "family": case.family, "shape": case.shape, "detail": case.detail,
                               "script": script, "lang": lang, "input": s}),
                    ));
                }
            }
        }
    }
    {
        let e = st.by_family.entry(case.family.to_string()).or_default();
        e[1] += st.evaluations - evals_before;
        if nontrivial {
            e[2] += 1;
        }
    }
    if nontrivial {
        st.programs_nontrivial += 1;
        let mut kinds: Vec<String> = resolved
            .lookups
            .iter()
            .map(|l| format!("{}{}", l.kind.name(), if l.flag != 0 { format!("/{:#x}", l.flag) } else { String::new() }))
            .collect();
        kinds.sort();
        st.combos.insert(kinds.join("+"));
    }
    if st.samples.len() < 3 || (st.programs % 4001 == 0 && st.samples.len() < 8) {
        st.samples.push(json!({"family": case.family, "shape": case.shape, "detail": case.detail, "fea": fea}));
    }
    failed
}

// =============================================================== enumeration

struct Plan {
    /// max rules per lookup in one-lookup programs
    a1_rules: usize,
    /// two-lookup programs: the union over these (max rules of the first lookup, max rules of
    /// the second lookup) bounds
    a2_rules: Vec<(usize, usize)>,
    /// two-lookup programs whose second lookup references the first from a contextual rule:
    /// max rules of the first / second lookup
    a2_nest_rules: (usize, usize),
    a2_flags: Vec<u16>,
    /// three-lookup programs (single rule each) over these kinds; empty = none
    a3: bool,
    b_items: Vec<Item>,
    /// glyph strings: every string up to this length, for families A and B
    max_len_a: usize,
    max_len_b: usize,
    /// family I: lookups of three in-line rules over the reduced alphabets
    i_triples: bool,
    /// family I strings: over {a b c d f_f}
    max_len_i: usize,
    /// family F: the full flag alphabet; three runs over the reduced alphabets
    f_full: bool,
    /// family F strings: over {a b f_f acutecomb gravecomb dotbelowcomb}
    max_len_f: usize,
    /// family G: bounds on backtrack / lookahead positions and on all positions together;
    /// strings over {a b c d} up to (positions + 1) glyphs, at most `g_max_len`
    g_max_back: usize,
    g_max_ahead: usize,
    g_max_positions: usize,
    g_max_len: usize,
}

const ALPHA_I: [Gid; 5] = [G_A, G_B, G_C, G_D, G_FF];
const ALPHA_F: [Gid; 6] = [G_A, G_B, G_FF, G_ACUTE, G_GRAVE, G_DOTBELOW];
const ALPHA_G: [Gid; 4] = [G_A, G_B, G_C, G_D];

/// Which string set a case is evaluated on: 0 family A, 1 family B, 2 family I, 3 family F,
/// 4 + n family G with strings up to n glyphs.
fn string_set_of(d: &Desc, plan: &Plan) -> usize {
    match d {
        Desc::B { .. } => 1,
        Desc::A(f, _) if f.starts_with('I') => 2,
        Desc::A(f, _) if f.starts_with('F') => 3,
        Desc::A(..) => 0,
        Desc::G(sp) => 4 + (sp.nb + sp.ni + sp.nl + 1).min(plan.g_max_len),
    }
}

/// Coarse identity of a family-A program for violation keys: the lookup types in order,
/// and whether any lookup ignores marks. Flags per lookup and forms are in `detail_of`.
fn shape_of(specs: &[LSpec]) -> String {
    let kinds: Vec<&str> = specs.iter().map(|s| s.kind().name()).collect();
    let mut out = kinds.join("+");
    let any = |f: &dyn Fn(&LFlag) -> bool| specs.iter().any(|s| f(&s.flag));
    for (tag, on) in [
        (":ignoremarks", any(&|f| f.bits & FLAG_IGNORE_MARKS != 0)),
        (":ignoreligatures", any(&|f| f.bits & FLAG_IGNORE_LIGATURES != 0)),
        (":ignorebaseglyphs", any(&|f| f.bits & FLAG_IGNORE_BASE_GLYPHS != 0)),
        (":markfilteringset", any(&|f| f.mark_filter.is_some())),
        (":markattachmenttype", any(&|f| f.mark_attach.is_some())),
    ] {
        if on {
            out.push_str(tag);
        }
    }
    out
}

fn detail_of(specs: &[LSpec]) -> String {
    specs
        .iter()
        .map(|s| {
            format!(
                "{}{}{}",
                s.kind().name(),
                if s.flag.is_zero() { String::new() } else { format!("/{}", flag_text(&s.flag)) },
                match s.form {
                    Form::Anon => "",
                    Form::BlockIn => "@in",
                    Form::BlockOutRef => "@out",
                    Form::BlockOutOnly => "@nested",
                }
            )
        })
        .collect::<Vec<_>>()
        .join("+")
}

/// Is this lookup, on its own, inside the subset the reference gives a meaning to?
fn lookup_ok(rules: &[Rule]) -> bool {
    if rules.iter().any(rule_uses_nest) {
        // checked with a dummy nested lookup
        let specs = vec![
            LSpec { rules: vec![Rule::Single { from: g(G_A), to: g(G_D) }], flag: lf(0), form: Form::BlockOutOnly },
            LSpec { rules: rules.to_vec(), flag: lf(0), form: Form::BlockIn },
        ];
        return interp::resolve(&build_a(&specs)).is_ok();
    }
    let specs = vec![LSpec { rules: rules.to_vec(), flag: lf(0), form: Form::BlockIn }];
    interp::resolve(&build_a(&specs)).is_ok()
}

fn enumerate(plan: &Plan) -> (Vec<Desc>, BTreeMap<String, u64>) {
    let alpha = alphabet();
    let mut counts = BTreeMap::new();
    let mut cases: Vec<Desc> = vec![];

    // rule sequences per kind, with and without NEST rules, individually well-formed
    let seqs_upto = |max: usize, allow_nest: bool| -> Vec<Vec<Rule>> {
        let mut out = vec![];
        for rules in alpha.values() {
            for s in sequences(rules, max) {
                if !allow_nest && s.iter().any(rule_uses_nest) {
                    continue;
                }
                if lookup_ok(&s) {
                    out.push(s);
                }
            }
        }
        out
    };

    // ---- A1: one lookup
    let a1 = seqs_upto(plan.a1_rules, false);
    counts.insert("A1_rule_sequences".into(), a1.len() as u64);
    for rules in &a1 {
        for flag in [0, FLAG_IGNORE_MARKS, FLAG_RIGHT_TO_LEFT] {
            for form in [Form::Anon, Form::BlockIn, Form::BlockOutRef] {
                let specs = vec![LSpec { rules: rules.clone(), flag: lf(flag), form }];
                cases.push(Desc::A("A1", specs));
            }
        }
    }
    counts.insert("A1_programs".into(), cases.len() as u64);

    // ---- A2: two lookups
    let n0 = cases.len();
    let fmax = plan.a2_rules.iter().map(|x| x.0).max().unwrap_or(0).max(plan.a2_nest_rules.0);
    let smax = plan.a2_rules.iter().map(|x| x.1).max().unwrap_or(0);
    let first = seqs_upto(fmax, false);
    let mut second = seqs_upto(smax, false);
    second.extend(
        seqs_upto(plan.a2_nest_rules.1, true)
            .into_iter()
            .filter(|s| s.iter().any(rule_uses_nest)),
    );
    counts.insert("A2_first_sequences".into(), first.len() as u64);
    counts.insert("A2_second_sequences".into(), second.len() as u64);
    for r1 in &first {
        let k1 = rule_kind(&r1[0]);
        for r2 in &second {
            let k2 = rule_kind(&r2[0]);
            let nest = r2.iter().any(rule_uses_nest);
            if nest && !(k1.is_gsub() && k1 != Kind::Chain) {
                continue; // NEST needs a non-contextual GSUB lookup to bind to
            }
            let in_bounds = if nest {
                r1.len() <= plan.a2_nest_rules.0 && r2.len() <= plan.a2_nest_rules.1
            } else {
                plan.a2_rules.iter().any(|(a, b)| r1.len() <= *a && r2.len() <= *b)
            };
            if !in_bounds {
                continue;
            }
            for &f1 in &plan.a2_flags {
                for &f2 in &plan.a2_flags {
                    let forms: &[(Form, Form)] = if nest {
                        &[(Form::BlockOutOnly, Form::Anon), (Form::BlockOutRef, Form::BlockIn), (Form::BlockIn, Form::Anon)]
                    } else {
                        &[
                            (Form::Anon, Form::Anon),
                            (Form::BlockIn, Form::BlockIn),
                            (Form::Anon, Form::BlockOutRef),
                            (Form::BlockOutRef, Form::Anon),
                        ]
                    };
                    for &(fo1, fo2) in forms {
                        // canonical form: two anonymous runs of the same type and flag are
                        // one lookup, i.e. a one-lookup program
                        if fo1 == Form::Anon && fo2 == Form::Anon && k1 == k2 && f1 == f2 {
                            continue;
                        }
                        let specs = vec![
                            LSpec { rules: r1.clone(), flag: lf(f1), form: fo1 },
                            LSpec { rules: r2.clone(), flag: lf(f2), form: fo2 },
                        ];
                        cases.push(Desc::A("A2", specs));
                    }
                }
            }
        }
    }
    counts.insert("A2_programs".into(), (cases.len() - n0) as u64);

    // ---- A3: three lookups of one rule each, flag 0, all in lookup blocks inside the feature
    if plan.a3 {
        let n0 = cases.len();
        let one = seqs_upto(1, false);
        for r1 in &one {
            for r2 in &one {
                for r3 in &one {
                    let specs: Vec<LSpec> = [r1, r2, r3]
                        .iter()
                        .map(|r| LSpec { rules: (*r).clone(), flag: lf(0), form: Form::BlockIn })
                        .collect();
                    cases.push(Desc::A("A3", specs));
                }
            }
        }
        counts.insert("A3_programs".into(), (cases.len() - n0) as u64);
    }

    // ---- I: contextual rules with in-line replacements
    {
        let n0 = cases.len();
        let alpha_i = inline_alphabet(false);
        counts.insert("I_rule_alphabet".into(), alpha_i.len() as u64);
        let mut overlapping = 0u64;
        for (i, r1) in alpha_i.iter().enumerate() {
            for (j, r2) in alpha_i.iter().enumerate() {
                if i == j {
                    continue;
                }
                if overlapping_inline(r1, r2) {
                    overlapping += 1;
                }
                let one = |form| vec![LSpec { rules: vec![r1.clone(), r2.clone()], flag: lf(0), form }];
                cases.push(Desc::A("I2", one(Form::Anon)));
                cases.push(Desc::A(
                    "I2",
                    vec![
                        LSpec { rules: vec![r1.clone()], flag: lf(0), form: Form::BlockIn },
                        LSpec { rules: vec![r2.clone()], flag: lf(0), form: Form::BlockIn },
                    ],
                ));
            }
        }
        counts.insert("I2_programs".into(), (cases.len() - n0) as u64);
        counts.insert("I2_rule_pairs_with_overlapping_marked_classes_and_different_replacements".into(), overlapping);
        if plan.i_triples {
            let n0 = cases.len();
            let small = inline_alphabet(true);
            counts.insert("I3_rule_alphabet".into(), small.len() as u64);
            for rules in sequences(&small, 3).into_iter().filter(|s| s.len() == 3) {
                cases.push(Desc::A("I3", vec![LSpec { rules, flag: lf(0), form: Form::Anon }]));
            }
            counts.insert("I3_programs".into(), (cases.len() - n0) as u64);
        }
    }

    // ---- F: lookup flags with mark classes; the flag changes between runs of rules
    {
        let n0 = cases.len();
        let flags = flag_alphabet(plan.f_full);
        let rules = flag_rules();
        counts.insert("F_flag_alphabet".into(), flags.len() as u64);
        counts.insert("F_rule_alphabet".into(), rules.len() as u64);
        let mut only_mark_class = 0u64;
        for f1 in &flags {
            for r1 in &rules {
                for f2 in &flags {
                    for r2 in &rules {
                        let k1 = rule_kind(r1);
                        let k2 = rule_kind(r2);
                        for (fo1, fo2) in [(Form::Anon, Form::Anon), (Form::BlockIn, Form::BlockIn)] {
                            if fo1 == Form::Anon && fo2 == Form::Anon && k1 == k2 && f1 == f2 {
                                continue; // one lookup: covered by the first run alone
                            }
                            if fo1 == Form::Anon
                                && fo2 == Form::Anon
                                && k1 == k2
                                && f1.bits == f2.bits
                                && f1.mark_attach == f2.mark_attach
                                && f1.mark_filter.is_some()
                                && f2.mark_filter.is_some()
                            {
                                only_mark_class += 1;
                            }
                            cases.push(Desc::A(
                                "F2",
                                vec![
                                    LSpec { rules: vec![r1.clone()], flag: f1.clone(), form: fo1 },
                                    LSpec { rules: vec![r2.clone()], flag: f2.clone(), form: fo2 },
                                ],
                            ));
                        }
                    }
                }
            }
        }
        counts.insert("F2_programs".into(), (cases.len() - n0) as u64);
        counts.insert("F2_programs_two_same_type_runs_differing_only_in_mark_filtering_set".into(), only_mark_class);
        if plan.f_full {
            // three runs of rules written directly in the feature, reduced alphabets
            let n0 = cases.len();
            let fl = [lf(0), umfs(lit(&[G_ACUTE])), umfs(Gs::Named("M1".into())), mat(lit(&[G_ACUTE])), mat(Gs::Named("M2".into()))];
            let rl: Vec<Rule> = [0usize, 1, 3, 6, 8].iter().map(|i| rules[*i].clone()).collect();
            for f1 in &fl {
                for r1 in &rl {
                    for f2 in &fl {
                        for r2 in &rl {
                            for f3 in &fl {
                                for r3 in &rl {
                                    if f1 == f2 || f2 == f3 {
                                        continue;
                                    }
                                    cases.push(Desc::A(
                                        "F3",
                                        [(f1, r1), (f2, r2), (f3, r3)]
                                            .iter()
                                            .map(|(f, r)| LSpec { rules: vec![(*r).clone()], flag: (*f).clone(), form: Form::Anon })
                                            .collect(),
                                    ));
                                }
                            }
                        }
                    }
                }
            }
            counts.insert("F3_programs".into(), (cases.len() - n0) as u64);
        }
    }

    // ---- G: grids of class tuples in one contextual lookup
    {
        let n0 = cases.len();
        for pool in 0..G_POOLS.len() {
            for nb in 0..=plan.g_max_back {
                for nl in 0..=plan.g_max_ahead {
                    for ni in 1..=2usize {
                        let n = nb + ni + nl;
                        if n < 2 || n > plan.g_max_positions {
                            continue;
                        }
                        for action in [GAction::Inline, GAction::Nested] {
                            for rev in [false, true] {
                                for m in 1..=(1usize << n) {
                                    cases.push(Desc::G(GSpec { pool, nb, ni, nl, m, rev, action }));
                                }
                            }
                        }
                    }
                }
            }
        }
        counts.insert("G_programs".into(), (cases.len() - n0) as u64);
    }

    // ---- B: registration under language systems
    let n0 = cases.len();
    let seqs = item_seqs(&plan.b_items, 2);
    for ls in 0..4 {
        for trailer in 0..3 {
            for pre in &seqs {
                let mut push = |latn: Option<&[Item]>, trk: Option<(bool, &[Item])>| {
                    cases.push(Desc::B {
                        ls,
                        pre: pre.clone(),
                        latn: latn.map(|l| l.to_vec()),
                        trk: trk.map(|(e, t)| (e, t.to_vec())),
                        trailer,
                    });
                };
                push(None, None);
                for l in &seqs {
                    push(Some(l), None);
                    for t in &seqs {
                        push(Some(l), Some((false, t)));
                        push(Some(l), Some((true, t)));
                    }
                }
            }
        }
    }
    counts.insert("B_programs".into(), (cases.len() - n0) as u64);
    (cases, counts)
}

fn glyph_map() -> GlyphMap {
    GlyphMap::new(GLYPH_NAMES.iter().copied()).expect("glyph map")
}

fn replay(path: &Path, rep_id: &str) -> ! {
    let text = std::fs::read_to_string(path).unwrap_or_else(|e| vcore::machinery_error(&format!("read {path:?}: {e}")));
    let v: Json = serde_json::from_str(&text).unwrap_or_else(|e| vcore::machinery_error(&format!("parse {path:?}: {e}")));
    let r = &v["replay"];
    let program: Program = serde_json::from_value(r["program"].clone())
        .unwrap_or_else(|e| vcore::machinery_error(&format!("replay file has no program: {e}")));
    println!("[{rep_id}] replaying {}\n--- feature file ---\n{}--------------------", v["key"], program.to_fea());
    let quick_space = match r["family"].as_str().unwrap_or("") {
        f if f.starts_with('I') => all_strings_over(&ALPHA_I, 3),
        f if f.starts_with('F') => all_strings_over(&ALPHA_F, 3),
        "G" => all_strings_over(&ALPHA_G, 5),
        _ => all_strings(3),
    };
    let strings: Vec<Vec<Gid>> = match r.get("input").and_then(|i| serde_json::from_value::<Vec<Gid>>(i.clone()).ok()) {
        Some(s) => {
            // the recorded string first, then the rest of the quick space
            let mut all = vec![s];
            all.extend(quick_space);
            all
        }
        None => quick_space,
    };
    let case = Case {
        family: "replay",
        shape: r["shape"].as_str().unwrap_or("").to_string(),
        detail: r["detail"].as_str().unwrap_or("").to_string(),
        program,
    };
    let mut st = Stats::default();
    let failed = evaluate(&case, &strings, &glyph_map(), &mut st, true, true);
    if !st.engine_disagreements.is_empty() {
        println!("the two readers of the binary disagree: machinery problem");
        std::process::exit(2);
    }
    if failed {
        println!("still fails ({} violation records)", st.violations.len());
        std::process::exit(1);
    }
    println!("holds now ({} evaluations)", st.evaluations);
    std::process::exit(0)
}

fn main() {
    let args = vcore::parse_args();
    std::panic::set_hook(Box::new(|_| {}));
    if let Some(p) = &args.replay {
        replay(p, "C11");
    }
    let mut rep = Reporter::new("C11", "exploration", &args);
    let plan = match args.tier {
        Tier::Quick => Plan {
            a1_rules: 2,
            a2_rules: vec![(1, 1)],
            a2_nest_rules: (1, 2),
            a2_flags: vec![0, FLAG_IGNORE_MARKS],
            a3: false,
            b_items: vec![Item::AnonAB, Item::RefN0, Item::BlockN1],
            max_len_a: 3,
            max_len_b: 2,
            i_triples: false,
            max_len_i: 3,
            f_full: false,
            max_len_f: 3,
            g_max_back: 2,
            g_max_ahead: 1,
            g_max_positions: 4,
            g_max_len: 5,
        },
        Tier::Thorough => Plan {
            a1_rules: 3,
            a2_rules: vec![(1, 2), (2, 1)],
            a2_nest_rules: (2, 2),
            a2_flags: vec![0, FLAG_IGNORE_MARKS],
            a3: true,
            b_items: vec![Item::AnonAB, Item::RefN0, Item::BlockN1, Item::AnonPosA, Item::AnonDA],
            max_len_a: 4,
            max_len_b: 3,
            i_triples: true,
            max_len_i: 4,
            f_full: true,
            max_len_f: 4,
            g_max_back: 3,
            g_max_ahead: 2,
            g_max_positions: 5,
            g_max_len: 6,
        },
    };
    let strings = all_strings(plan.max_len_a);
    let strings_b = all_strings(plan.max_len_b);
    let mut string_sets: Vec<Vec<Vec<Gid>>> = vec![
        strings.clone(),
        strings_b.clone(),
        all_strings_over(&ALPHA_I, plan.max_len_i),
        all_strings_over(&ALPHA_F, plan.max_len_f),
    ];
    for n in 0..=plan.g_max_len {
        string_sets.push(all_strings_over(&ALPHA_G, n));
    }
    let (mut cases, counts) = enumerate(&plan);
    if args.rest.iter().any(|a| a == "--count") {
        // the size of the space, without running it
        let mut evals: BTreeMap<&str, u64> = BTreeMap::new();
        for c in &cases {
            *evals.entry(c.family()).or_default() += string_sets[string_set_of(c, &plan)].len() as u64;
        }
        println!("{}", serde_json::to_string_pretty(&json!({"programs": counts, "program_x_string_pairs": evals})).unwrap());
        std::process::exit(0);
    }
    if let Some(only) = args.rest.iter().find_map(|a| a.strip_prefix("--only=")) {
        cases.retain(|c| c.family().starts_with(only));
    }
    eprintln!("[C11] {} programs x {} (A) / {} (B) strings; enumeration took {:.1}s", cases.len(), strings.len(), strings_b.len(), rep.elapsed_s());
    let gm = glyph_map();
    let threads = vcore::ncores();
    let chunk = 32usize;
    let n_chunks = cases.len().div_ceil(chunk);
    // safety caps only (an overloaded machine); the tiers are sized for < 40 s / < 15 min
    let deadline_s: f64 = match args.tier {
        Tier::Quick => 150.0,
        Tier::Thorough => 1500.0,
    } * vcore::budget_scale();
    let start = std::time::Instant::now();
    let skipped = std::sync::atomic::AtomicU64::new(0);
    // chunks are taken round-robin over the whole list so that a deadline would thin out
    // every family instead of dropping the last one
    let parts = vcore::par_for(n_chunks, threads, |ci| {
        let mut st = Stats::default();
        for k in 0..chunk {
            let idx = k * n_chunks + ci;
            if idx >= cases.len() {
                continue;
            }
            if start.elapsed().as_secs_f64() > deadline_s {
                skipped.fetch_add(1, std::sync::atomic::Ordering::Relaxed);
                continue;
            }
            let case = cases[idx].build();
            let strs = &string_sets[string_set_of(&cases[idx], &plan)];
            evaluate(&case, strs, &gm, &mut st, false, idx % 8 == 0);
        }
        st
    });
    let mut st = Stats::default();
    for p in parts {
        st.merge(p);
    }
    let skipped = skipped.into_inner();

    for (key, what, replay) in std::mem::take(&mut st.violations) {
        rep.violation(&key, &what, replay);
    }

    rep.set("programs_enumerated", cases.len() as u64);
    rep.set("programs_distinct_text", st.hashes.len() as u64);
    rep.set("programs_by_family", json!(counts));
    rep.set("strings_per_program_family_A", strings.len() as u64);
    rep.set("strings_per_program_family_B", strings_b.len() as u64);
    rep.set("max_string_length_family_A", plan.max_len_a as u64);
    rep.set("max_string_length_family_B", plan.max_len_b as u64);
    rep.set("programs_excluded_by_reference", json!(st.excluded));
    rep.set("programs_ill_formed", st.ill_formed);
    rep.set("programs_ill_formed_but_accepted_by_fea_rs", st.ill_formed_accepted);
    rep.set("programs_compiled", st.compiled);
    rep.set("programs_rejected_by_fea_rs", st.rejected);
    rep.set("rejection_reasons", json!(st.rejected_reasons));
    rep.set("evaluations", st.evaluations);
    rep.set("language_system_keys_checked", st.keys_checked);
    rep.set("evaluations_skipped_as_ambiguous", json!(st.eval_ambiguous));
    rep.set("pairs_output_differs_from_input", st.fired_pairs);
    rep.set("pairs_with_position_adjustment", st.positioned_pairs);
    rep.set("pairs_contextual_rule_fired", st.ctx_pairs);
    rep.set("pairs_ignore_rule_fired", st.ignore_pairs);
    rep.set("pairs_nested_named_lookup_fired", st.nested_pairs);
    rep.set("pairs_ignoremarks_skipping_mattered", st.skip_pairs);
    rep.set("pairs_skipping_mattered_under_mark_filtering_set_or_attachment_type", st.mark_class_skip_pairs);
    {
        let mut total: BTreeMap<String, u64> = BTreeMap::new();
        for (k, v) in &st.ctx_formats {
            *total.entry(k.split('/').nth(1).unwrap_or("").to_string()).or_default() += v;
        }
        rep.set("compiled_contextual_lookups_by_subtable_format", json!(total));
        rep.set("compiled_contextual_lookups_by_family_and_subtable_format", json!(st.ctx_formats));
        let fam: BTreeMap<String, Json> = st
            .by_family
            .iter()
            .map(|(k, v)| (k.clone(), json!({"programs_compiled": v[0], "evaluations": v[1], "programs_nontrivial": v[2]})))
            .collect();
        rep.set("by_family", json!(fam));
    }
    rep.set("max_string_length_family_I", plan.max_len_i as u64);
    rep.set("max_string_length_family_F", plan.max_len_f as u64);
    rep.set("max_string_length_family_G", plan.g_max_len as u64);
    rep.set("pairs_ligature_longest_match_decided", st.liga_longest_pairs);
    rep.set("distinct_lookup_type_combinations", st.combos.len() as u64);
    rep.set("lookup_type_combinations", json!(st.combos.iter().take(60).collect::<Vec<_>>()));
    rep.set("distinct_nontrivial", st.programs_nontrivial);
    rep.set(
        "rule",
        "programs (distinct feature-file texts) that fea-rs compiled and for which the reference interpreter changes at least one input string (glyphs or positions) under at least one registered language system",
    );
    rep.set("samples", json!(st.samples));
    rep.set("second_reader_evaluations", st.second_reader_runs);
    rep.set("second_reader_errors", json!(st.second_reader_errors));
    rep.set("engine_problems", json!(st.engine_problems));
    rep.set("engine_disagreements", json!(st.engine_disagreements));
    rep.set("programs_skipped_deadline", skipped);
    rep.set("exhaustive", skipped == 0);

    rep.assume("glyph set {a b c d f_f acutecomb gravecomb dotbelowcomb} (+.notdef), GDEF classes written explicitly in every program: a-d base, f_f ligature, the three *comb glyphs marks; strings of families A and B over the first six glyphs, of family I over {a b c d f_f}, of family F over {a b f_f acutecomb gravecomb dotbelowcomb}, of family G over {a b c d}");
    rep.assume("program space = A1 (one lookup: every ordered sequence of distinct rules of one type from the rule alphabet, x flag {0, IgnoreMarks, RightToLeft} x form {rules in the feature, lookup block in the feature, lookup block before the feature + reference}) + A2 (two lookups, flags {0, IgnoreMarks}, listed form pairs; contextual rules with `lookup NAME` bind NAME to the first lookup) [+ A3 thorough: three one-rule lookups] + B (feature bodies `items [script latn; items [language TRK [exclude_dflt]; items]]` x 4 languagesystem preludes x 3 trailing kern features) + I2 (every ordered pair of distinct rules of the in-line contextual alphabet `sub [d|f_f]? M' [d]? by R;` with M in {a, [a b], [c b], [b a], [a-c]}, R in {d, f_f, [c d], [d a]}, in-line ligatures `sub M1' M2' by f_f|d` with class components and in-line multiple substitutions, all under four contexts; as one lookup or as two lookup blocks) [+ I3 thorough: every ordered triple over reduced alphabets] + F2 (two runs of one rule each from a 14-rule alphabet whose outcome depends on what the lookup sees, each run under every flag of the flag alphabet {0, IgnoreMarks, IgnoreLigatures, UseMarkFilteringSet [acutecomb] / @M1=[gravecomb] / [acutecomb dotbelowcomb], MarkAttachmentType [acutecomb] / @M2=[gravecomb dotbelowcomb]} [thorough: + IgnoreBaseGlyphs, IgnoreLigatures+UseMarkFilteringSet, RightToLeft+MarkAttachmentType], written directly in the feature or as two lookup blocks) [+ F3 thorough: three runs over reduced alphabets] + G (one contextual lookup = every prefix, ascending or descending, of the list of all class tuples over a two-element pool {glyphs a|b, classes [a b]|[c d], overlapping classes [a b]|[b c], class [a b]|glyph c} with 0..2 backtrack, 1..2 input, 0..1 lookahead positions, at most 4 positions [thorough 0..3, 1..2, 0..2, at most 5]; rule k replaces in-line by the k-th glyph of (f_f d c b a) cyclically, or calls one of two named lookups); bounds are in programs_by_family");
    rep.assume("an in-line replacement by several glyphs in a contextual rule (`sub a' b by c d;`) is read as the contextual form of a multiple substitution, like the in-line single and ligature forms of spec 5.f.i; the marked glyph is a single glyph");
    rep.assume("lookup flags follow OpenType: IgnoreBaseGlyphs/IgnoreLigatures/IgnoreMarks hide GDEF classes 1/2/3; UseMarkFilteringSet hides the marks outside the set; MarkAttachmentType hides the marks outside the class; the classes named by the flag alphabet contain marks only and MarkAttachmentType classes are pairwise disjoint (spec 4.d); a lookupflag statement between two rules of the same type starts a new lookup whenever it changes any part of the flag, including only the mark filtering set");
    rep.assume("lookups are judged by behaviour only; RightToLeft has no behavioural effect on the generated lookup types and is therefore only checked for not disturbing the result");
    rep.assume("excluded as not fixed by the specification (reference returns Ambiguous, counted in programs_excluded_by_reference / evaluations_skipped_as_ambiguous): two rules of a lookup with overlapping targets; duplicate ligature sequences; specific glyph pair after a class pair; class pairs whose first classes overlap partially, or are equal with overlapping second classes; all-zero pair values; value records on the second glyph of a pair; single substitution adjacent to multiple/ligature substitution outside a lookup block (implementations fold them into one lookup); a lookupflag statement that does not change the flag between rules; lookup blocks inside a feature inheriting a non-zero feature-level lookupflag; rules after such a block or after a reference to a lookup with another flag without a fresh lookupflag statement; script/language statements while a lookupflag is set; language before script; repeated script/language; explicit `language dflt`; languagesystem with a language but not the script's dflt; ignore rules with several marked glyphs; contextual rules nesting contextual lookups; nested lookups that change the string length before another nested lookup, consume glyphs outside the marked input, or sit on a glyph their own flag ignores");
    rep.assume("language systems: only requests for language systems the source registers with at least one lookup of the table are shaped, each table enabled only if the source registers lookups of that table there (no reliance on script/language fallback); the set of language systems with lookups must equal the registered set per table");
    rep.assume("programs fea-rs rejects are counted, not judged (C13 covers the front end); a fea-rs panic on a program of the subset is reported");
    rep.assume("GPOS contextual rules, mark/cursive attachment, variable values, aalt/size/feature parameters, alternates, reverse chaining, `subtable;`, MarkAttachmentType together with UseMarkFilteringSet in one statement, mark classes of a lookupflag that contain non-mark glyphs, a lookupflag statement after rules inside a lookup block, in-line multiple substitution of a marked class are outside the subset");

    if !st.engine_disagreements.is_empty() {
        eprintln!("[C11] the two readers of the binary disagree on {} cases (see evidence: engine_disagreements)", st.engine_disagreements.len());
        for d in st.engine_disagreements.iter().take(5) {
            eprintln!("  {d}");
        }
        rep.set("exhaustive", false);
        vcore::machinery_error("otlayout and the second table reader disagree; no verdict");
    }
    rep.finish();
}
