//! C02 — task-graph safety. Engine A: every schedule of the real `Workload::exec` within d
//! demotions of a strict-priority base scheduler, for a family of tiny sources; on every
//! execution: no scheduler failure, no deadlock, every conflicting pair of context accesses ordered
//! by happens-before (vector clocks over launch / counter RMW / load / send / recv).
use checks::sources::{self, Src};
use serde_json::json;
use std::collections::BTreeMap;
use std::sync::{Arc, atomic::{AtomicUsize, Ordering}};
use vcore::{Reporter, Tier};
use vrt::{ExploreCfg, ExploreStats, Job, RunCfg};

fn make_job(path: std::path::PathBuf, opts: fcx::Opts, ir_root: Option<std::path::PathBuf>) -> Job {
    let n = Arc::new(AtomicUsize::new(0));
    Arc::new(move || {
        let ir = ir_root.as_ref().map(|r| {
            let d = r.join(format!("ir{}-{}", std::process::id(), n.fetch_add(1, Ordering::Relaxed))); // worker processes share the root
            let _ = std::fs::create_dir_all(&d);
            d
        });
        let r = fcx::compile(&path, &opts, ir.as_deref());
        if let Some(d) = ir {
            let _ = std::fs::remove_dir_all(d);
        }
        match r {
            Ok(b) => format!("ok:{}:{:016x}", b.len(), vcore::hash64(&b)),
            Err(fcx::Failure::Error(e)) => format!("err:{e}"),
            Err(fcx::Failure::Panic(e)) => format!("panic:{e}"),
        }
    })
}

fn short(s: &str) -> String {
    let s = s.replace('\n', " ");
    if s.len() > 120 { format!("{}…", &s[..s.char_indices().nth(120).map(|x| x.0).unwrap_or(s.len())]) } else { s }
}

struct Plan {
    src: usize,
    k: usize,
    main_last: bool,
    dmax: usize,
}

fn replay(path: &std::path::Path) -> ! {
    let v: serde_json::Value = serde_json::from_str(&std::fs::read_to_string(path).unwrap_or_default())
        .unwrap_or_else(|e| vcore::machinery_error(&format!("replay file: {e}")));
    let r = &v["replay"];
    let design: dgen::Design = serde_json::from_value(r["design"].clone())
        .unwrap_or_else(|e| vcore::machinery_error(&format!("replay design: {e}")));
    let opts: fcx::Opts = serde_json::from_value(r["opts"].clone()).unwrap_or_default();
    let choices: Vec<usize> = serde_json::from_value(r["choices"].clone()).unwrap_or_default();
    let sc = vcore::Scratch::new("c02replay");
    let p = design.write_source(sc.path()).unwrap();
    let ir = r["emit_ir"].as_bool().unwrap_or(false).then(|| sc.join("irs"));
    let job = make_job(p, opts, ir);
    let cfg = RunCfg {
        k: r["k"].as_u64().unwrap_or(64) as usize,
        main_last: r["main_last"].as_bool().unwrap_or(false),
        dmax: usize::MAX / 2,
        harvest: false,
    };
    let guide: Option<Vec<vrt::Guide>> = r.get("guide").and_then(|g| serde_json::from_value(g.clone()).ok());
    let (a, b) = match &guide {
        // a model trace replayed on the implementation (guided execution)
        Some(g) => (vrt::run_guided(&job, &cfg, g), vrt::run_guided(&job, &cfg, g)),
        None => (vrt::run_one(&job, &cfg, &choices, None), vrt::run_one(&job, &cfg, &choices, None)),
    };
    println!("replay 1: outcome {:?} deadlock {:?} races {:?} divergence {:?}", a.outcome, a.deadlock, a.races, a.divergence);
    println!("replay 2: outcome {:?} deadlock {:?} races {:?}", b.outcome, b.deadlock, b.races);
    if a.divergence.is_some() || a.obs != b.obs {
        vcore::machinery_error("replay diverged");
    }
    let bad = a.deadlock.is_some() || !a.races.is_empty() || a.outcome.as_deref().is_some_and(|o| !o.starts_with("ok:"));
    vcore::cleanup_scratch();
    std::process::exit(if bad { 1 } else { 0 })
}

fn main() {
    let args = vcore::parse_args();
    vcore::ensure_shim(args.seed);
    fcx::silence_panics();
    if let Some(arg) = vrt::worker_env() {
        let v: serde_json::Value = serde_json::from_str(&arg).unwrap_or_default();
        let job = make_job(
            v["path"].as_str().unwrap_or_default().into(),
            serde_json::from_value(v["opts"].clone()).unwrap_or_default(),
            v["ir_root"].as_str().map(|s| s.into()),
        );
        vrt::worker_loop(&job);
    }
    if let Some(p) = &args.replay {
        replay(p);
    }
    let mut rep = Reporter::new("C02", "model_checking", &args);
    let mut all_exhaustive_model = true;
    let fam: Vec<Src> = sources::family();
    let big = 64usize;
    let mut plans = vec![];
    let idx = |name: &str| fam.iter().position(|s| s.name == name).unwrap_or_else(|| vcore::machinery_error(&format!("no source {name}")));
    match args.tier {
        Tier::Quick => {
            for name in ["J0", "J1", "J2", "J3"] {
                for main_last in [false, true] {
                    plans.push(Plan { src: idx(name), k: big, main_last, dmax: 1 });
                }
            }
            // the kitchen source runs (nearly) every kind of job once: the happens-before monitor
            // judges every declared / undeclared access on the default schedules of both base orders
            for main_last in [false, true] {
                plans.push(Plan { src: idx("K1"), k: big, main_last, dmax: 0 });
                // 289 kerning adjustments: two KernFragment jobs are created at run time
                plans.push(Plan { src: idx("M1"), k: big, main_last, dmax: 0 });
            }
        }
        Tier::Thorough => {
            for src in 0..fam.len() {
                let dmax = match fam[src].name {
                    // two demotions on the two sources that between them exercise every dynamic rule
                    "J0" | "J1" => 2,
                    "J2" | "J3" | "J5" | "K1" | "M1" => 1,
                    // the biggest sources: the default schedules of both base orders (every access pair is judged by the
                    // happens-before monitor there)
                    _ => 0,
                };
                for main_last in [false, true] {
                    plans.push(Plan { src, k: big, main_last, dmax });
                }
                // with at most one demotion no more than two tasks are ever in flight (the strict-priority base
                // scheduler runs a task to its end before the next starts), so a pool of 2 only differs from d = 2 on
                if fam[src].name == "J1" {
                    plans.push(Plan { src, k: 2, main_last: false, dmax: 2 });
                }
                let _ = big;
            }
        }
    }
    // `c02 <tier> K1,J1 [d]`: only these sources (diagnostic runs)
    if let Some(only) = args.rest.first() {
        let names: Vec<&str> = only.split(',').collect();
        plans.retain(|p| names.contains(&fam[p.src].name));
        if let Some(d) = args.rest.get(1).and_then(|d| d.parse().ok()) {
            for p in plans.iter_mut() {
                p.dmax = d;
            }
        }
    }
    let sc = vcore::Scratch::new("c02");
    // ---------------------------------------------------------------- the abstract scheduler model (vrt::absmodel)
    // extracted from a recorded default-schedule execution of each source, explored without a deviation bound
    let model_cap: usize = std::env::var("C02_MODEL_CAP").ok().and_then(|s| s.parse().ok()).unwrap_or(args.tier.pick(3_000_000, 40_000_000));
    let mut model_sources: Vec<usize> = plans.iter().map(|p| p.src).collect();
    model_sources.sort();
    model_sources.dedup();
    // the model is explored for the J sources (<= 4 glyphs): with the ~20 glyphs of K1 / K2 / N1 the dynamic set is too big
    model_sources.retain(|s| fam[*s].name.starts_with('J'));
    let mut model_reports = vec![];
    let mut pending_model_violations: Vec<(&str, String, String, serde_json::Value)> = vec![];
    // sources on which some explored execution showed a handle_success effect that differs from the reference run's
    let mut effect_variants: BTreeMap<&str, Vec<String>> = BTreeMap::new();
    let (mut model_states, mut model_transitions) = (0usize, 0usize);
    // model traces replayed on the implementation (guided executions, DESIGN.md §2.2c)
    let max_guided: usize = std::env::var("C02_GUIDED_MAX").ok().and_then(|s| s.parse().ok()).unwrap_or(args.tier.pick(48, 600));
    let mut guided_reports = vec![];
    let (mut guided_total, mut guided_followed, mut guided_unrealizable, mut guided_steps) = (0usize, 0usize, 0usize, 0usize);
    let mut guided_sample: Option<serde_json::Value> = None;
    for si in &model_sources {
        let src = &fam[*si];
        let dir = sc.join(&format!("m{si}"));
        let path = src.design.write_source(&dir).unwrap_or_else(|e| vcore::machinery_error(&format!("write source: {e}")));
        let ir_root = src.emit_ir.then(|| dir.join("irs"));
        let guided_worker_arg = json!({"path": path, "opts": src.opts, "ir_root": ir_root}).to_string();
        let job = make_job(path, src.opts.clone(), ir_root);
        let base = RunCfg { k: 64, main_last: false, dmax: 0, harvest: false };
        let t = std::time::Instant::now();
        let r = vrt::run_recorded(&job, &base, &[]);
        if !r.outcome.as_deref().is_some_and(|o| o.starts_with("ok:")) {
            // a source that fails on the default schedule is reported by the exploration below
            continue;
        }
        let inst = vrt::absmodel::extract(&r.log).unwrap_or_else(|e| vcore::machinery_error(&format!("{}: model extraction: {e}", src.name)));
        if let Err(e) = vrt::absmodel::conform(&inst, &r.log, true) {
            vcore::machinery_error(&format!("{}: the reference run does not conform to the model extracted from it: {e}", src.name));
        }
        // second base order: a different complete execution must conform too
        let r2 = vrt::run_recorded(&job, &RunCfg { main_last: true, ..base.clone() }, &[]);
        if r2.outcome.as_deref().is_some_and(|o| o.starts_with("ok:")) {
            if let Err(e) = vrt::absmodel::conform(&inst, &r2.log, true) {
                rep.violation(
                    &format!("model-nonconformance:{}", src.name),
                    &format!("the main-last default schedule does not conform to the scheduler model extracted from the main-first one: {e}"),
                    json!({"source": src.name, "design": src.design, "opts": src.opts, "emit_ir": src.emit_ir, "k": 64, "main_last": true, "d": 0, "choices": []}),
                );
            }
        }
        if std::env::var("C02_MODEL_DUMP").is_ok() {
            eprintln!("{}", inst.describe());
        }
        let m = vrt::absmodel::explore(&inst, model_cap);
        // reported after the implementation exploration: only if every explored execution conforms to the model
        for (vi, (v, trace)) in m.violations.iter().enumerate() {
            let class = v.split(':').next().unwrap_or("violation");
            let first = v.split(" (").next().unwrap_or(v);
            // the counterexample is replayed on the implementation: the schedule follows the model trace, then the
            // job the model says can launch too early is executed, then the run finishes on the default schedule
            let mut guide_json = serde_json::Value::Null;
            let mut on_impl = "the trace could not be turned into a guide".to_string();
            if let Some(free) = m.violation_free.get(vi) {
                if let Ok(mut g) = inst.guide_of(free, trace) {
                    if let Some(q) = v.strip_prefix("order-not-forced: ").and_then(|x| x.split(" can launch").next()) {
                        g.push(vrt::Guide::Exec(q.to_string()));
                    }
                    let x = vrt::run_guided(&job, &base, &g);
                    on_impl = match (&x.divergence, &x.outcome) {
                        (Some(d), _) => format!("the implementation could not follow the model trace ({})", short(d)),
                        (None, o) => format!(
                            "the implementation followed the model trace ({} guide steps); outcome {}; unordered accesses {:?}{}",
                            x.guide_steps_followed,
                            short(o.as_deref().unwrap_or("none")),
                            x.races.iter().take(3).collect::<Vec<_>>(),
                            x.deadlock.as_ref().map(|d| format!("; deadlock {}", short(d))).unwrap_or_default()
                        ),
                    };
                    guide_json = json!(g);
                }
            }
            pending_model_violations.push((
                src.name,
                format!("model:{}:{}:{}", src.name, class, short(first)),
                format!("abstract scheduler model (all interleavings): {v}; model trace: {}; replayed on the implementation: {on_impl}", trace.join(" ; ")),
                json!({"source": src.name, "design": src.design, "opts": src.opts, "emit_ir": src.emit_ir, "model_trace": trace, "kind": "model",
                       "guide": guide_json, "k": 64, "main_last": false}),
            ));
        }
        // model -> implementation: a set of model traces that takes every distinct transition label (every Finish j, every
        // Handle j, every distinct launch set) is replayed on the real scheduler; each guided execution must be followed to the
        // end of the trace, launch what the model launches, conform to the model snapshot by snapshot, and end in the same font
        {
            let free = inst.dynamic_set();
            let (traces, cs) = vrt::absmodel::cover_traces(&inst, &free, model_cap, max_guided);
            let guides: Vec<Vec<vrt::Guide>> = traces.iter().filter_map(|t| inst.guide_of(&free, t).ok()).collect();
            let results = vrt::guided_mp(&guided_worker_arg, &guides, vcore::ncores());
            let (mut followed, mut unreal, mut notes_n, mut steps) = (0usize, 0usize, 0usize, 0usize);
            let mut first_unreal: Option<String> = None;
            let mut first_note: Option<String> = None;
            for (g, x) in guides.iter().zip(results.iter()) {
                let mk = || json!({"source": src.name, "design": src.design, "opts": src.opts, "emit_ir": src.emit_ir, "k": 64, "main_last": false, "guide": g, "kind": "guided"});
                steps += x.guide_steps_followed;
                if let Some(d) = &x.divergence {
                    unreal += 1;
                    first_unreal.get_or_insert_with(|| short(d));
                    continue;
                }
                followed += 1;
                if !x.guide_notes.is_empty() {
                    notes_n += 1;
                    first_note.get_or_insert_with(|| short(&x.guide_notes[0]));
                }
                if let Some(o) = x.outcome.as_deref().filter(|o| !o.starts_with("ok:")) {
                    rep.violation(&format!("failure:{}:{}", src.name, short(o)), &format!("valid source fails on a schedule that follows a trace of the scheduler model: {}", short(o)), mk());
                } else if x.outcome != r.outcome {
                    rep.violation(&format!("outcome-differs:{}", src.name), &format!("a schedule that follows a model trace gives {:?}, the default schedule {:?}", x.outcome, r.outcome), mk());
                }
                if let Some(d) = &x.deadlock {
                    rep.violation(&format!("deadlock:{}", src.name), &format!("no enabled actor on a guided schedule: {}", short(d)), mk());
                }
                for race in &x.races {
                    rep.violation(&format!("race:{}:{}", src.name, race), &format!("unordered conflicting accesses on a schedule that follows a model trace: {race}"), mk());
                }
                // (on a failing run tasks legitimately stop early: judged only when the run succeeded)
                if !x.protocol_errors.is_empty() && x.outcome.as_deref().is_some_and(|o| o.starts_with("ok:")) {
                    vcore::machinery_error(&format!("worker protocol drift on a guided execution: {:?}", x.protocol_errors.first()));
                }
                if let Some(e) = &x.conform_error {
                    if e.starts_with("effect-variant:") {
                        let v = effect_variants.entry(src.name).or_default();
                        if v.len() < 4 && !v.contains(e) {
                            v.push(e.clone());
                        }
                    } else {
                        rep.violation(&format!("model-nonconformance:{}:{}", src.name, short(e)), &format!("a guided execution (model trace replayed on the implementation) does not conform to the model: {e}"), mk());
                    }
                }
                if guided_sample.is_none() {
                    guided_sample = Some(json!({"source": src.name, "model_trace_len": g.len(), "guide_head": g.iter().take(6).collect::<Vec<_>>(), "outcome": x.outcome.as_deref().map(short)}));
                }
            }
            guided_total += guides.len();
            guided_followed += followed;
            guided_unrealizable += unreal;
            guided_steps += steps;
            eprintln!("[C02] guided {}: labels {} covered {} traces {} followed {} unrealizable {} notes {} ({:?} / {:?})",
                src.name, cs.distinct_labels, cs.labels_covered, guides.len(), followed, unreal, notes_n, first_unreal, first_note);
            guided_reports.push(json!({"source": src.name, "distinct_transition_labels": cs.distinct_labels, "labels_covered_by_the_replayed_traces": cs.labels_covered,
                "model_traces_replayed": guides.len(), "followed_to_the_end": followed, "not_realizable_on_the_implementation": unreal,
                "first_not_realizable": first_unreal, "executions_whose_launch_sets_or_batches_differ_from_the_model": notes_n, "first_difference": first_note,
                "guide_steps_followed": steps}));
        }
        if m.capped {
            all_exhaustive_model = false;
        }
        model_states += m.states;
        model_transitions += m.transitions;
        eprintln!("[C02] model {}: jobs {} conflict pairs {} states {} transitions {} terminal {} depth {} in-flight<= {} capped {} violations {} ({:.1}s)",
            src.name, m.jobs, m.conflict_pairs, m.states, m.transitions, m.terminal_states, m.max_depth, m.max_jobs_in_flight, m.capped, m.violations.len(), t.elapsed().as_secs_f64());
        model_reports.push(json!({"source": src.name, "jobs": m.jobs, "items": m.items, "conflict_pairs_of_the_reference_run": m.conflict_pairs,
            "states": m.states, "transitions": m.transitions, "terminal_states": m.terminal_states, "max_depth": m.max_depth,
            "max_jobs_in_flight": m.max_jobs_in_flight, "capped_at": if m.capped { Some(model_cap) } else { None }, "violations": m.violations.len(),
            "free_jobs": m.free_jobs, "explorations": m.explorations, "pairs_forced_by_the_text_of_the_accesses": m.pairs_forced_by_text,
            "pairs_with_a_dynamic_first_job": m.pairs_dynamic, "pairs_explored_with_a_lagging_static_job": m.pairs_needing_a_lagging_static_job,
            "scheduler_thread_accesses_not_ordered_with_a_job": m.scheduler_access_notes.iter().map(|(v, _)| v.clone()).collect::<Vec<_>>()}));
    }

    let mut totals = ExploreStats::default();
    let mut per_plan = vec![];
    let mut samples = vec![];
    let mut all_exhaustive = true;
    let budget_s = args.tier.pick(150.0, 3000.0) * vcore::budget_scale();
    let t0 = std::time::Instant::now();
    for (pi, plan) in plans.iter().enumerate() {
        let src = &fam[plan.src];
        let dir = sc.join(&format!("p{pi}"));
        let path = src.design.write_source(&dir).unwrap_or_else(|e| vcore::machinery_error(&format!("write source: {e}")));
        let ir_root = src.emit_ir.then(|| dir.join("irs"));
        let worker_arg = json!({"path": path, "opts": src.opts, "ir_root": ir_root}).to_string();
        let job = make_job(path, src.opts.clone(), ir_root);
        let base = RunCfg { k: plan.k, main_last: plan.main_last, dmax: 0, harvest: false };
        // determinism self-test: the default schedule twice
        let a = vrt::run_one(&job, &base, &[], None);
        let b = vrt::run_one(&job, &base, &[], None);
        if a.obs != b.obs || a.outcome != b.outcome || a.points != b.points {
            vcore::machinery_error(&format!("{}: the same schedule gave different observations (nondeterminism not owned)", src.name));
        }
        let mut completed_d = None;
        let mut plan_stats = ExploreStats::default();
        for d in 0..=plan.dmax {
            let remaining = budget_s - t0.elapsed().as_secs_f64();
            // a plan with two demotions is about ten times the work of one with one
            let weight = |p: &Plan| if p.dmax >= 2 { 10.0 } else { 1.0 };
            let share = remaining * weight(plan) / plans[pi..].iter().map(weight).sum::<f64>();
            let cfg = ExploreCfg {
                run: RunCfg { dmax: d, ..base.clone() },
                threads: vcore::ncores(),
                max_execs: None,
                deadline: Some(std::time::Instant::now() + std::time::Duration::from_secs_f64(share.max(5.0))),
                visited: None,
            };
            // every execution of the d <= 1 levels is recorded and replayed against the abstract model; the d = 2 level
            // (tens of thousands of executions) runs without the recording, which costs a factor of about five
            // SAFETY: single-threaded here; the worker processes started by explore_mp inherit the variable
            if d <= 1 {
                unsafe { std::env::set_var("VERIF_VRT_CONFORM", "1") };
            } else {
                unsafe { std::env::remove_var("VERIF_VRT_CONFORM") };
            }
            let st = vrt::explore_mp(&cfg, &worker_arg, sc.path());
            let mut bad = false;
            let mk_replay = |choices: &Vec<usize>| {
                json!({"source": src.name, "design": src.design, "opts": src.opts, "emit_ir": src.emit_ir,
                       "hash_seed": args.seed, "k": plan.k, "main_last": plan.main_last, "d": d, "choices": choices})
            };
            for (r, ch) in &st.races {
                rep.violation(&format!("race:{}:{}", src.name, r), &format!("unordered conflicting accesses: {r} (d={d}, k={}, main_last={})", plan.k, plan.main_last), mk_replay(ch));
                bad = true;
            }
            for (o, ch) in &st.failures {
                rep.violation(&format!("failure:{}:{}", src.name, short(o)), &format!("valid source fails under a schedule with {d} demotion(s): {}", short(o)), mk_replay(ch));
                bad = true;
            }
            for (w, ch) in &st.deadlocks {
                rep.violation(&format!("deadlock:{}", src.name), &format!("no enabled actor: {}", short(w)), mk_replay(ch));
                bad = true;
            }
            for (e, ch) in &st.conform_errors {
                if e.starts_with("effect-variant:") {
                    // the model's premise (the effect of handle_success(X) is a function of X) does not hold for this
                    // source: the model is not used for it; recorded, not judged (DESIGN.md §2.2b)
                    let v = effect_variants.entry(src.name).or_default();
                    if v.len() < 4 && !v.contains(e) {
                        v.push(e.clone());
                    }
                    continue;
                }
                rep.violation(
                    &format!("model-nonconformance:{}:{}", src.name, short(e)),
                    &format!("an explored execution does not conform to the abstract scheduler model extracted from the reference run: {e}"),
                    mk_replay(ch),
                );
                bad = true;
            }
            if !st.protocol_errors.is_empty() {
                vcore::machinery_error(&format!("worker protocol drift (hooks no longer describe the worker closure): {:?}", st.protocol_errors.keys().next()));
            }
            if !st.divergences.is_empty() {
                vcore::machinery_error(&format!("replay divergence while following a prefix: {:?}", st.divergences.first()));
            }
            plan_stats = st.clone();
            if st.capped {
                all_exhaustive = false;
                break;
            }
            completed_d = Some(d);
            // accumulate only the deepest completed level per plan (lower levels are contained in it)
            if bad {
                break;
            }
        }
        totals.execs += plan_stats.execs;
        totals.pruned += plan_stats.pruned;
        totals.complete += plan_stats.complete;
        totals.states += plan_stats.states;
        totals.transitions += plan_stats.transitions;
        totals.window_execs += plan_stats.window_execs;
        totals.conformed += plan_stats.conformed;
        totals.window_loads += plan_stats.window_loads;
        totals.passthrough_loads += plan_stats.passthrough_loads;
        totals.yielding_loads += plan_stats.yielding_loads;
        totals.max_depth = totals.max_depth.max(plan_stats.max_depth);
        for (o, n) in &plan_stats.outcomes {
            *totals.outcomes.entry(format!("{}:{}", src.name, short(o))).or_default() += n;
        }
        if samples.len() < 6 {
            for (nz, steps, o) in plan_stats.samples.iter().take(2) {
                samples.push(json!({"source": src.name, "k": plan.k, "main_last": plan.main_last,
                    "non_default_choices": nz, "steps": steps, "outcome": short(o)}));
            }
        }
        per_plan.push(json!({
            "source": src.name, "options": src.opts.name(), "emit_ir": src.emit_ir, "k": plan.k, "base_order": if plan.main_last { "main-last" } else { "main-first" },
            "d_requested": plan.dmax, "d_completed": completed_d, "capped": plan_stats.capped,
            "executions": plan_stats.execs, "abandoned_at_visited_state": plan_stats.pruned, "complete": plan_stats.complete,
            "states": plan_stats.states, "transitions": plan_stats.transitions, "max_depth": plan_stats.max_depth,
            "tasks": plan_stats.tasks_max, "default_schedule_steps": plan_stats.default_schedule_steps,
            "yielding_loads": plan_stats.yielding_loads, "passthrough_loads": plan_stats.passthrough_loads,
            "executions_with_window": plan_stats.window_execs, "distinct_launch_orders": plan_stats.launch_orders.len(),
            "distinct_outcomes": plan_stats.outcomes.len(),
        }));
        eprintln!("[C02] {} k={} main_last={} d<={:?}: execs {} states {} transitions {} window_execs {} ({:.1}s)",
            src.name, plan.k, plan.main_last, completed_d, plan_stats.execs, plan_stats.states, plan_stats.transitions, plan_stats.window_execs, t0.elapsed().as_secs_f64());
    }
    for (name, key, what, replay) in pending_model_violations {
        if !effect_variants.contains_key(name) {
            rep.violation(&key, &what, replay);
        }
    }
    rep.set("model_not_used_for", json!(effect_variants));
    rep.set("states", totals.states + model_states);
    rep.set("transitions", totals.transitions + model_transitions);
    rep.set("implementation_exploration", json!({"states": totals.states, "transitions": totals.transitions, "executions": totals.execs,
        "executions_replayed_against_the_model": totals.conformed}));
    rep.set("abstract_model", json!({"sources": model_reports, "states": model_states, "transitions": model_transitions, "exhaustive": all_exhaustive_model,
        "what": "per source: scheduler model extracted from a recorded execution (jobs, counters, accesses at insertion, effect of every handle_success, conflict order of the reference run), every interleaving of Scan / Finish / Handle explored breadth-first; every execution of the implementation exploration is replayed against it"}));
    rep.set("model_traces_replayed_on_the_implementation", json!({"traces": guided_total, "followed_to_the_end": guided_followed,
        "not_realizable": guided_unrealizable, "guide_steps_followed": guided_steps, "per_source": guided_reports, "sample": guided_sample,
        "what": "a set of model traces taking every distinct transition label of the dynamic-set exploration (longest first, capped per source) is turned into a guide (Scan / Finish / Batch steps) that the controlled scheduler follows on the real Workload::exec; each such execution is recorded, replayed against the model snapshot by snapshot, and must end in the font of the default schedule"}));
    rep.set("traces_validated_against_impl", totals.execs + guided_followed);
    rep.set("evaluations", totals.execs);
    rep.set("executions_complete", totals.complete);
    rep.set("executions_abandoned_at_visited_state", totals.pruned);
    rep.set("executions_with_window", totals.window_execs);
    rep.set("window_note", "window = main evaluated a counter while some task had already decremented it but its completion had not been received; 0 would mean the dynamic-dependency windows were not exercised at this bound");
    rep.set("distinct_outcomes", json!(totals.outcomes));
    rep.set("plans", per_plan);
    rep.set("samples", samples);
    rep.set("exhaustive", all_exhaustive && all_exhaustive_model);
    rep.set("bound", "all schedules within d demotions of a strict-priority scheduler (two base orders), per plan; executions run to completion or are abandoned at a state already expanded with at least the same remaining budget");
    rep.assume("sequentially consistent exploration (counters are AcqRel/Acquire); rayon's work stealing replaced by a k-slot pool model; no preemption inside Work::exec (happens-before is judged on launch/finish edges)");
    rep.assume("every explored trace is an execution of the real Workload::exec under the controlled scheduler (no separate model), so traces_validated_against_impl = executions");
    rep.assume("state merging is sound while monitor 2 holds: context values are a function of the set of finished jobs when no conflicting accesses are unordered");
    rep.finish()
}
