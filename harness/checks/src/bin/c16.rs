//! C16 — conditional substitutions (feature variations) apply exactly what the rules specify.
//!
//! This file currently implements part (i) of the design: bounded-exhaustive enumeration of rule
//! lists given directly to `fontir::feature_variations::overlay_feature_variations`, judged at
//! every point of an offset grid by an oracle written here (plain "which rules contain the point").
//! `part_font` (designspace `<rules>` / bracket layers -> GSUB FeatureVariations) is added later.
use fontdrasil::{coords::NormalizedCoord, types::GlyphName};
use fontir::feature_variations::{NBox, Region, overlay_feature_variations};
use serde_json::{Value, json};
use std::{
    collections::BTreeMap,
    panic::{AssertUnwindSafe, catch_unwind},
    path::Path,
};
use vcore::{Reporter, Tier};
use write_fonts::types::Tag;

const ENDS: [f64; 5] = [-1.0, -0.5, 0.0, 0.5, 1.0];
/// Strictly inside or outside every interval over ENDS.
const GRID: [f64; 8] = [-0.875, -0.625, -0.375, -0.125, 0.125, 0.375, 0.625, 0.875];
const GLYPHS: [&str; 4] = ["a", "b", "c", "d"];
/// None: the axis is absent from the box (= whole axis).
type Iv = Option<(f64, f64)>;
/// A substitution map over GLYPHS: input glyph index -> output glyph index.
type MapArr = [Option<u8>; 4];

/// The map alphabet: same input/different output (0-1, 2-4, 3-1, 3-4), disjoint inputs (0-2),
/// a map that is the union of two others (3 = 0 ∪ 2), identical maps (any repeated index).
const MAPS: [MapArr; 5] = [
    [Some(1), None, None, None],    // a->b
    [Some(2), None, None, None],    // a->c
    [None, None, Some(3), None],    // c->d
    [Some(1), None, Some(3), None], // a->b, c->d
    [None, None, Some(0), None],    // c->a
];

fn tags(n: usize) -> Vec<Tag> {
    [Tag::new(b"aaaa"), Tag::new(b"bbbb")][..n].to_vec()
}

fn map_of(m: &MapArr) -> BTreeMap<GlyphName, GlyphName> {
    m.iter()
        .enumerate()
        .filter_map(|(g, o)| o.map(|o| (GlyphName::new(GLYPHS[g]), GlyphName::new(GLYPHS[o as usize]))))
        .collect()
}

fn map_json(m: &MapArr) -> Value {
    Value::Object(
        m.iter()
            .enumerate()
            .filter_map(|(g, o)| o.map(|o| (GLYPHS[g].to_string(), json!(GLYPHS[o as usize]))))
            .collect(),
    )
}

fn glyph_idx(g: &str) -> Option<u8> {
    GLYPHS.iter().position(|x| *x == g).map(|i| i as u8)
}

/// Build the real box; ends at -1 / +1 are passed as open ends (None), which `NBox::insert`
/// documents as equivalent (checked separately in `check_open_ends`).
fn nbox(tags: &[Tag], ivs: &[Iv], open_ends: bool) -> NBox {
    let mut nb = NBox::default();
    for (t, iv) in tags.iter().zip(ivs) {
        if let Some((lo, hi)) = iv {
            let lo_c = (!(open_ends && *lo == -1.0)).then(|| NormalizedCoord::new(*lo));
            let hi_c = (!(open_ends && *hi == 1.0)).then(|| NormalizedCoord::new(*hi));
            nb.insert(*t, lo_c, hi_c);
        }
    }
    nb
}

fn iv_mask8(lo: f64, hi: f64) -> u8 {
    let mut m = 0u8;
    for (i, g) in GRID.iter().enumerate() {
        if lo < *g && *g < hi {
            m |= 1 << i;
        }
    }
    m
}

/// Bit set of grid points (index ix [*8 + iy]) inside the box given per-axis 8-bit masks.
fn box_mask(n: usize, per_axis: &[u8]) -> u64 {
    if n == 1 {
        return per_axis[0] as u64;
    }
    let mut m = 0u64;
    for ix in 0..8 {
        if per_axis[0] & (1 << ix) != 0 {
            m |= (per_axis[1] as u64) << (ix * 8);
        }
    }
    m
}

fn own_mask(n: usize, ivs: &[Iv]) -> u64 {
    let per: Vec<u8> = ivs
        .iter()
        .map(|iv| iv.map(|(lo, hi)| iv_mask8(lo, hi)).unwrap_or(0xff))
        .collect();
    box_mask(n, &per)
}

fn point(n: usize, p: u32) -> Vec<f64> {
    if n == 1 {
        vec![GRID[p as usize]]
    } else {
        vec![GRID[(p / 8) as usize], GRID[(p % 8) as usize]]
    }
}

/// One rule as given to the function under test, with the oracle's view of it.
#[derive(Clone)]
struct Rule<'a> {
    ivs: &'a [Vec<Iv>],
    boxes: &'a [NBox],
    mask: u64,
    map: MapArr,
}

#[derive(Default, Clone)]
struct Counts {
    lists: u64,
    points: u64,
    nontrivial: u64,
    conflict_lists: u64,
    out_boxes: u64,
    max_out_boxes: u64,
    multi_map_boxes: u64,
    content_sorted_precedence_lists: u64,
    panics: u64,
    /// precedence failures by what the list contains: [neither, two rules with identical maps,
    /// two rules with identical regions, both]
    precedence_by_shape: [u64; 4],
}

impl Counts {
    fn add(&mut self, o: &Counts) {
        self.lists += o.lists;
        self.points += o.points;
        self.nontrivial += o.nontrivial;
        self.conflict_lists += o.conflict_lists;
        self.out_boxes += o.out_boxes;
        self.max_out_boxes = self.max_out_boxes.max(o.max_out_boxes);
        self.multi_map_boxes += o.multi_map_boxes;
        self.content_sorted_precedence_lists += o.content_sorted_precedence_lists;
        self.panics += o.panics;
        for i in 0..4 {
            self.precedence_by_shape[i] += o.precedence_by_shape[i];
        }
    }
}

type Size = (usize, usize, usize, usize, u64);

/// One violation class: number of failing rule lists and the smallest failing case.
#[derive(Default)]
struct Classes(BTreeMap<&'static str, (u64, Size, String, Value)>);

impl Classes {
    fn add(&mut self, key: &'static str, size: Size, mk: impl FnOnce() -> (String, Value)) {
        match self.0.get_mut(key) {
            Some(e) => {
                e.0 += 1;
                if size < e.1 {
                    let (w, r) = mk();
                    *e = (e.0, size, w, r);
                }
            }
            None => {
                let (w, r) = mk();
                self.0.insert(key, (1, size, w, r));
            }
        }
    }
    fn merge(&mut self, o: Classes) {
        for (k, (n, size, w, r)) in o.0 {
            match self.0.get_mut(k) {
                Some(e) => {
                    e.0 += n;
                    if size < e.1 {
                        *e = (e.0, size, w, r);
                    }
                }
                None => {
                    self.0.insert(k, (n, size, w, r));
                }
            }
        }
    }
}

fn case_json(n: usize, rules: &[&Rule], p: Option<u32>) -> Value {
    json!({
        "axes": n,
        "rules": rules.iter().map(|r| json!({
            "boxes": r.ivs.iter().map(|b| b.iter().map(|iv| match iv {
                Some((lo, hi)) => json!([lo, hi]),
                None => Value::Null,
            }).collect::<Vec<_>>()).collect::<Vec<_>>(),
            "subs": map_json(&r.map),
        })).collect::<Vec<_>>(),
        "point": p.map(|p| point(n, p)),
    })
}

fn describe(n: usize, rules: &[&Rule]) -> String {
    rules
        .iter()
        .enumerate()
        .map(|(i, r)| {
            let boxes: Vec<String> = r
                .ivs
                .iter()
                .map(|b| {
                    let parts: Vec<String> = b
                        .iter()
                        .enumerate()
                        .take(n)
                        .map(|(a, iv)| match iv {
                            Some((lo, hi)) => format!("{}:[{lo},{hi}]", ["x", "y"][a]),
                            None => format!("{}:*", ["x", "y"][a]),
                        })
                        .collect();
                    format!("{{{}}}", parts.join(" "))
                })
                .collect();
            format!("rule{} {} => {}", i + 1, boxes.join(" | "), map_json(&r.map))
        })
        .collect::<Vec<_>>()
        .join("; ")
}

/// The verdict for one rule list. Returns the violation classes it falls into (at most one
/// general class and/or the precedence class), with a witness point and a message.
struct Verdict {
    general: Option<(&'static str, u32, String)>,
    precedence: Option<(u32, &'static str, String)>,
}

/// Which preflight merge of `overlay_feature_variations`, re-enacted here on the oracle's own
/// data (point sets and map arrays), first puts another rule's output for glyph `g` ahead of the
/// winner at point `p`: merging rules with identical maps into the slot of the first one, or
/// merging rules with identical regions into the slot of the last one.
fn precedence_mechanism(rules: &[&Rule], p: u32, g: usize, winner: u8) -> &'static str {
    let bit = 1u64 << p;
    type Key = Vec<Vec<Option<(u64, u64)>>>;
    let boxes_of = |r: &Rule| -> Key {
        r.ivs
            .iter()
            .map(|b| {
                b.iter()
                    .map(|iv| iv.filter(|x| *x != (-1.0, 1.0)).map(|(lo, hi)| (lo.to_bits(), hi.to_bits())))
                    .collect()
            })
            .collect()
    };
    let first_for = |list: &[(Key, u64, MapArr)]| -> Option<u8> {
        list.iter().filter(|e| e.1 & bit != 0).find_map(|e| e.2[g])
    };
    // step 1 (merge_same_sub_rules): identical maps share the slot of the first occurrence
    let mut m1: Vec<(Key, u64, MapArr)> = vec![];
    for r in rules {
        match m1.iter_mut().find(|e| e.2 == r.map) {
            Some(e) => {
                e.0.extend(boxes_of(r));
                e.1 |= r.mask;
            }
            None => m1.push((boxes_of(r), r.mask, r.map)),
        }
    }
    if first_for(&m1) != Some(winner) {
        return "same-input-precedence:merge-same-sub";
    }
    // step 2 (merge_same_region_rules): walk backwards, identical (sorted) regions share one slot,
    // earlier rules overwrite later ones inside it; then reverse
    let mut m2: Vec<(Key, u64, MapArr)> = vec![];
    for (mut key, mask, map) in m1.into_iter().rev() {
        key.sort();
        match m2.iter_mut().find(|e| e.0 == key) {
            Some(e) => {
                for (slot, v) in e.2.iter_mut().zip(map) {
                    if v.is_some() {
                        *slot = v;
                    }
                }
            }
            None => m2.push((key, mask, map)),
        }
    }
    m2.reverse();
    if first_for(&m2) != Some(winner) {
        return "same-input-precedence:merge-same-region";
    }
    "same-input-precedence:other"
}

fn check_case(n: usize, tg: &[Tag], rules: &[&Rule], cnt: &mut Counts) -> Verdict {
    let k = rules.len();
    let all: u64 = if n == 1 { 0xff } else { u64::MAX };
    let npoints = if n == 1 { 8 } else { 64 };
    cnt.lists += 1;
    cnt.points += npoints;
    let mut verdict = Verdict {
        general: None,
        precedence: None,
    };

    let input: Vec<(Region, BTreeMap<GlyphName, GlyphName>)> = rules
        .iter()
        .map(|r| (Region::from(r.boxes.to_vec()), map_of(&r.map)))
        .collect();
    let out = match catch_unwind(AssertUnwindSafe(|| overlay_feature_variations(input))) {
        Ok(o) => o,
        Err(p) => {
            cnt.panics += 1;
            let msg = p
                .downcast_ref::<String>()
                .cloned()
                .or(p.downcast_ref::<&str>().map(|s| s.to_string()))
                .unwrap_or_default();
            verdict.general = Some(("overlay-panic", 0, format!("overlay_feature_variations panics: {msg}")));
            return verdict;
        }
    };
    cnt.out_boxes += out.len() as u64;
    cnt.max_out_boxes = cnt.max_out_boxes.max(out.len() as u64);

    // which rules contain each point: masks per subset of rules
    let nsig = 1usize << k;
    let mut smask = [0u64; 8];
    for (s, m) in smask.iter_mut().enumerate().take(nsig) {
        let mut v = all;
        for (j, r) in rules.iter().enumerate() {
            v &= if s & (1 << j) != 0 { r.mask } else { !r.mask };
        }
        *m = v;
    }
    if (0..nsig).any(|s| s.count_ones() >= 2 && smask[s] != 0) {
        cnt.nontrivial += 1;
    }

    // expectation per subset: for each input glyph the outputs of the containing rules, in rule order
    // (set of outputs as bits, first output) per input glyph
    let expect = |s: usize| -> [(u8, u8); 4] {
        let mut e = [(0u8, 0u8); 4];
        for (j, r) in rules.iter().enumerate() {
            if s & (1 << j) != 0 {
                for g in 0..4 {
                    if let Some(o) = r.map[g] {
                        if e[g].0 == 0 {
                            e[g].1 = o;
                        }
                        e[g].0 |= 1 << o;
                    }
                }
            }
        }
        e
    };
    let show = |set: u8, first: u8| -> Vec<&str> {
        let mut v = vec![];
        if set != 0 {
            v.push(GLYPHS[first as usize]);
        }
        v.extend((0..4u8).filter(|x| set & (1 << x) != 0 && *x != first).map(|x| GLYPHS[x as usize]));
        v
    };
    let mut conflict_seen = false;
    let mut sorted_mismatch = false;

    let mut covered = 0u64;
    for (nb, list) in &out {
        // the output box as a point set
        let mut per = [0xffu8; 2];
        let mut foreign = false;
        for (t, (lo, hi)) in nb.iter() {
            match tg.iter().position(|x| *x == t) {
                Some(a) => {
                    let mut m = 0u8;
                    for (i, g) in GRID.iter().enumerate() {
                        if lo.to_f64() <= *g && *g <= hi.to_f64() {
                            m |= 1 << i;
                        }
                    }
                    per[a] = m;
                }
                None => foreign = true,
            }
        }
        if foreign && verdict.general.is_none() {
            verdict.general = Some(("overlay-unknown-axis", 0, format!("output box {nb:?} names an axis no rule uses")));
        }
        let omask = box_mask(n, &per[..n]);
        let mine = omask & !covered & all;
        covered |= omask;
        if list.len() > 1 {
            cnt.multi_map_boxes += 1;
        }
        if mine == 0 {
            continue;
        }
        // what this box substitutes: per input glyph the outputs in list order
        let mut got = [(0u8, 0u8); 4];
        let mut unknown = None;
        for m in list {
            for (gi, go) in m {
                match (glyph_idx(gi.as_str()), glyph_idx(go.as_str())) {
                    (Some(g), Some(o)) => {
                        let e = &mut got[g as usize];
                        if e.0 == 0 {
                            e.1 = o;
                        }
                        e.0 |= 1 << o;
                    }
                    _ => unknown = Some(format!("{gi}->{go}")),
                }
            }
        }
        // the same under the back end's lookup order (maps sorted by content), evidence only
        let first_sorted = |g: usize| -> Option<u8> {
            let mut sorted_list: Vec<&BTreeMap<GlyphName, GlyphName>> = list.iter().collect();
            sorted_list.sort();
            sorted_list
                .iter()
                .find_map(|m| m.get(GLYPHS[g]).and_then(|o| glyph_idx(o.as_str())))
        };
        for s in 0..nsig {
            let pts = mine & smask[s];
            if pts == 0 {
                continue;
            }
            let p = pts.trailing_zeros();
            if let Some(u) = &unknown {
                if verdict.general.is_none() {
                    verdict.general = Some(("overlay-unknown-glyph", p, format!("output contains {u}, which no rule has")));
                }
                continue;
            }
            if s == 0 {
                if verdict.general.is_none() {
                    verdict.general = Some((
                        "overlay-box-without-rule",
                        p,
                        format!("no rule contains {:?} but output box {nb:?} (substitutions {list:?}) does", point(n, p)),
                    ));
                }
                continue;
            }
            let exp = expect(s);
            for g in 0..4 {
                let (e, o) = (exp[g], got[g]);
                if e.0 == 0 && o.0 == 0 {
                    continue;
                }
                let conflict = e.0.count_ones() > 1;
                let missing = !conflict && e.0 & !o.0 != 0 || conflict && o.0 == 0;
                let extra = o.0 & !e.0 != 0;
                if (missing || extra) && verdict.general.is_none() {
                    verdict.general = Some((
                        if missing { "overlay-missing-substitution" } else { "overlay-extra-substitution" },
                        p,
                        format!(
                            "at {:?} the rules containing the point ({}) substitute {} -> {:?}, the first output box containing it ({nb:?}) has {} -> {:?}",
                            point(n, p),
                            (0..k).filter(|j| s & (1 << j) != 0).map(|j| format!("rule{}", j + 1)).collect::<Vec<_>>().join(","),
                            GLYPHS[g], show(e.0, e.1), GLYPHS[g], show(o.0, o.1)
                        ),
                    ));
                }
                if conflict {
                    conflict_seen = true;
                    if !missing && !extra && o.1 != e.1 && verdict.precedence.is_none() {
                        verdict.precedence = Some((
                            p,
                            precedence_mechanism(rules, p, g, e.1),
                            format!(
                                "at {:?} rules {} all contain the point and substitute {}; the earliest gives {}, but the first output box containing the point ({nb:?}) lists {list:?}, whose first map for {} gives {}",
                                point(n, p),
                                (0..k).filter(|j| s & (1 << j) != 0).map(|j| format!("rule{}", j + 1)).collect::<Vec<_>>().join(","),
                                GLYPHS[g], GLYPHS[e.1 as usize], GLYPHS[g], GLYPHS[o.1 as usize]
                            ),
                        ));
                    }
                    if first_sorted(g) != Some(e.1) {
                        sorted_mismatch = true;
                    }
                }
            }
        }
    }
    let uncovered = all & !covered;
    for s in 1..nsig {
        let pts = uncovered & smask[s];
        if pts != 0 && verdict.general.is_none() {
            let p = pts.trailing_zeros();
            verdict.general = Some((
                "overlay-uncovered-point",
                p,
                format!("{:?} lies in a rule's region but in no output box; output {out:?}", point(n, p)),
            ));
        }
    }
    if conflict_seen {
        cnt.conflict_lists += 1;
    }
    if sorted_mismatch {
        cnt.content_sorted_precedence_lists += 1;
    }
    verdict
}

fn record(n: usize, rules: &[&Rule], seq: u64, v: Verdict, cls: &mut Classes) {
    let size: Size = (
        n,
        rules.len(),
        rules.iter().map(|r| r.ivs.len()).sum(),
        rules.iter().flat_map(|r| r.ivs.iter()).flat_map(|b| b.iter()).filter(|iv| iv.is_some()).count()
            + rules.iter().map(|r| r.map.iter().flatten().count()).sum::<usize>(),
        seq,
    );
    if let Some((key, p, msg)) = v.general {
        cls.add(key, size, || (format!("{}: {msg}", describe(n, rules)), case_json(n, rules, Some(p))));
    }
    if let Some((p, key, msg)) = v.precedence {
        cls.add(key, size, || {
            (format!("{}: {msg}", describe(n, rules)), case_json(n, rules, Some(p)))
        });
    }
}

// ------------------------------------------------------------------ alphabets

struct Space {
    n: usize,
    tags: Vec<Tag>,
    /// rule shapes: 1 or 2 boxes; shapes[..n_single] are the single-box ones
    shapes: Vec<(Vec<Vec<Iv>>, Vec<NBox>, u64)>,
    n_single: usize,
}

fn space(n: usize) -> Space {
    let tg = tags(n);
    let mut ivs: Vec<Iv> = vec![None];
    for (i, a) in ENDS.iter().enumerate() {
        for b in &ENDS[i + 1..] {
            ivs.push(Some((*a, *b)));
        }
    }
    let boxes: Vec<Vec<Iv>> = if n == 1 {
        ivs.iter().map(|x| vec![*x]).collect()
    } else {
        ivs.iter().flat_map(|x| ivs.iter().map(move |y| vec![*x, *y])).collect()
    };
    let mut shapes = vec![];
    for b in &boxes {
        shapes.push((vec![b.clone()], vec![nbox(&tg, b, true)], own_mask(n, b)));
    }
    let n_single = shapes.len();
    for i in 0..boxes.len() {
        for j in i + 1..boxes.len() {
            shapes.push((
                vec![boxes[i].clone(), boxes[j].clone()],
                vec![nbox(&tg, &boxes[i], true), nbox(&tg, &boxes[j], true)],
                own_mask(n, &boxes[i]) | own_mask(n, &boxes[j]),
            ));
        }
    }
    Space {
        n,
        tags: tg,
        shapes,
        n_single,
    }
}

/// Open-ended construction equals the explicit one for every interval touching -1 / +1.
fn check_open_ends(cls: &mut Classes) -> u64 {
    let tg = tags(2);
    let mut n = 0;
    for (i, a) in ENDS.iter().enumerate() {
        for b in &ENDS[i + 1..] {
            if *a == -1.0 || *b == 1.0 {
                n += 1;
                let ivs = vec![Some((*a, *b)), None];
                let (x, y) = (nbox(&tg, &ivs, true), nbox(&tg, &ivs, false));
                if x != y {
                    cls.add("open-ended-box-differs", (1, 0, 1, 1, n), || {
                        (
                            format!("NBox::insert with an open end gives {x:?}, with the explicit end {y:?}"),
                            json!({"open_end_interval": [a, b]}),
                        )
                    });
                }
            }
        }
    }
    n
}

#[derive(Clone, Copy, PartialEq, Debug)]
enum Pos {
    Single,
    Any,
}

struct Level {
    name: &'static str,
    axes: usize,
    pos: Vec<Pos>,
    maps: Vec<Vec<usize>>,
}

fn all_map_tuples(k: usize) -> Vec<Vec<usize>> {
    let mut v = vec![vec![]];
    for _ in 0..k {
        v = v
            .into_iter()
            .flat_map(|t: Vec<usize>| {
                (0..MAPS.len()).map(move |m| {
                    let mut t = t.clone();
                    t.push(m);
                    t
                })
            })
            .collect();
    }
    v
}

/// Ordered pairs covering every relation between two maps of the alphabet.
fn curated_pairs() -> Vec<Vec<usize>> {
    [[0, 0], [0, 2], [0, 1], [3, 1], [0, 3], [1, 0], [3, 0], [1, 3], [2, 4], [3, 4]]
        .iter()
        .map(|p| p.to_vec())
        .collect()
}

/// Ordered triples: identical first/third map around a conflicting or unrelated second one,
/// all-different, all-conflicting, subset/superset mixes.
fn curated_triples() -> Vec<Vec<usize>> {
    [
        [0, 2, 4], [0, 1, 0], [1, 0, 3], [0, 1, 3], [2, 4, 3], [0, 2, 0], [3, 1, 0], [0, 0, 1],
    ]
    .iter()
    .map(|p| p.to_vec())
    .collect()
}

fn levels(tier: Tier) -> Vec<Level> {
    use Pos::*;
    let mut v = vec![
        Level { name: "1 axis, 1 rule", axes: 1, pos: vec![Any], maps: all_map_tuples(1) },
        Level { name: "1 axis, 2 rules", axes: 1, pos: vec![Any, Any], maps: all_map_tuples(2) },
        Level { name: "2 axes, 1 rule", axes: 2, pos: vec![Any], maps: all_map_tuples(1) },
        Level { name: "2 axes, 2 one-box rules", axes: 2, pos: vec![Single, Single], maps: all_map_tuples(2) },
    ];
    match tier {
        Tier::Quick => {
            // the first curated tuples only: ~1.4*10^7 lists, about 80 core-seconds
            v.push(Level { name: "1 axis, 3 rules", axes: 1, pos: vec![Any, Any, Any], maps: curated_triples()[..4].to_vec() });
            v.push(Level { name: "2 axes, two-box rule then one-box rule", axes: 2, pos: vec![Any, Single], maps: curated_pairs()[..3].to_vec() });
            v.push(Level { name: "2 axes, one-box rule then two-box rule", axes: 2, pos: vec![Single, Any], maps: curated_pairs()[..3].to_vec() });
            v.push(Level { name: "2 axes, 3 one-box rules", axes: 2, pos: vec![Single, Single, Single], maps: curated_triples()[..4].to_vec() });
        }
        Tier::Thorough => {
            v.push(Level { name: "1 axis, 3 rules", axes: 1, pos: vec![Any, Any, Any], maps: all_map_tuples(3) });
            v.push(Level { name: "2 axes, 2 rules of 1-2 boxes", axes: 2, pos: vec![Any, Any], maps: curated_pairs() });
            v.push(Level { name: "2 axes, 3 one-box rules", axes: 2, pos: vec![Single, Single, Single], maps: all_map_tuples(3) });
            v.push(Level { name: "2 axes, 3 rules, first of 1-2 boxes", axes: 2, pos: vec![Any, Single, Single], maps: curated_triples()[..4].to_vec() });
            v.push(Level { name: "2 axes, 3 rules, last of 1-2 boxes", axes: 2, pos: vec![Single, Single, Any], maps: curated_triples()[..4].to_vec() });
        }
    }
    v
}

fn run_level(sp: &Space, lv: &Level, cls: &mut Classes) -> (Counts, Vec<Value>, BTreeMap<&'static str, u64>) {
    let k = lv.pos.len();
    let lim: Vec<usize> = lv
        .pos
        .iter()
        .map(|p| if *p == Pos::Single { sp.n_single } else { sp.shapes.len() })
        .collect();
    // tasks: the first rule's shape (and for long levels also a slice of the second's)
    let split2 = if k >= 2 && lim[0] < 256 { 4 } else { 1 };
    let ntasks = lim[0] * split2;
    let results = vcore::par_for(ntasks, vcore::ncores(), |t| {
        let (r0, part) = (t / split2, t % split2);
        let mut cnt = Counts::default();
        let mut cls = Classes::default();
        let mut samples = vec![];
        let mut idx = vec![0usize; k];
        idx[0] = r0;
        let rest: u64 = lim[1..].iter().map(|x| *x as u64).product::<u64>() * lv.maps.len() as u64;
        let mut seq = r0 as u64 * rest;
        'outer: loop {
            if k < 2 || idx[1] % split2 == part {
                for mt in &lv.maps {
                    let rules: Vec<Rule> = idx
                        .iter()
                        .zip(mt)
                        .map(|(ri, mi)| {
                            let s = &sp.shapes[*ri];
                            Rule { ivs: &s.0, boxes: &s.1, mask: s.2, map: MAPS[*mi] }
                        })
                        .collect();
                    let refs: Vec<&Rule> = rules.iter().collect();
                    let before = cnt.nontrivial;
                    let v = check_case(sp.n, &sp.tags, &refs, &mut cnt);
                    if v.precedence.is_some() {
                        // a region as the function normalises it: whole-axis intervals dropped, boxes sorted
                        let norm = |r: &Rule| -> Vec<String> {
                            let mut b: Vec<String> = r
                                .ivs
                                .iter()
                                .map(|b| format!("{:?}", b.iter().map(|iv| iv.filter(|x| *x != (-1.0, 1.0))).collect::<Vec<_>>()))
                                .collect();
                            b.sort();
                            b
                        };
                        let mut same_map = false;
                        let mut same_region = false;
                        for i in 0..k {
                            for j in i + 1..k {
                                same_map |= refs[i].map == refs[j].map;
                                same_region |= norm(refs[i]) == norm(refs[j]);
                            }
                        }
                        cnt.precedence_by_shape[same_map as usize + 2 * same_region as usize] += 1;
                    }
                    if v.general.is_some() || v.precedence.is_some() {
                        record(sp.n, &refs, seq, v, &mut cls);
                    } else if samples.is_empty() && cnt.nontrivial > before && seq % 7 == 3 {
                        samples.push(json!({"level": lv.name, "input": describe(sp.n, &refs), "verdict": "held at every grid point"}));
                    }
                    seq += 1;
                }
            } else {
                seq += lv.maps.len() as u64;
            }
            // next index tuple with idx[0] fixed
            let mut j = k;
            loop {
                if j == 1 {
                    break 'outer;
                }
                j -= 1;
                idx[j] += 1;
                if idx[j] < lim[j] {
                    break;
                }
                idx[j] = 0;
            }
        }
        (cnt, cls, samples)
    });
    let mut total = Counts::default();
    let mut samples = vec![];
    let n = results.len();
    let mut failing: BTreeMap<&'static str, u64> = BTreeMap::new();
    for (i, (c, k, s)) in results.into_iter().enumerate() {
        total.add(&c);
        for (key, v) in &k.0 {
            *failing.entry(key).or_default() += v.0;
        }
        cls.merge(k);
        if (i == 0 || i == n / 2 || i == n - 1) && samples.len() < 2 {
            samples.extend(s);
        }
    }
    (total, samples, failing)
}

struct Stats {
    evaluations: u64,
    nontrivial: u64,
}

fn part_pure(rep: &mut Reporter, tier: Tier) -> Stats {
    let mut cls = Classes::default();
    let open_checked = check_open_ends(&mut cls);
    let spaces = [space(1), space(2)];
    let mut total = Counts::default();
    let mut level_notes = vec![];
    let mut samples = vec![];
    for lv in levels(tier) {
        let t = std::time::Instant::now();
        let sp = &spaces[lv.axes - 1];
        let (c, s, failing) = run_level(sp, &lv, &mut cls);
        eprintln!("[C16] level '{}': {} rule lists in {:.1}s", lv.name, c.lists, t.elapsed().as_secs_f64());
        level_notes.push(json!({
            "level": lv.name, "axes": lv.axes,
            "rule_shapes_per_position": lv.pos.iter().map(|p| if *p == Pos::Single { sp.n_single } else { sp.shapes.len() }).collect::<Vec<_>>(),
            "map_tuples": lv.maps.len(),
            "rule_lists": c.lists, "point_evaluations": c.points,
            "lists_with_overlapping_rules": c.nontrivial,
            "lists_with_same_input_conflict_at_some_point": c.conflict_lists,
            "failing_rule_lists_by_class": failing,
            "seconds": (t.elapsed().as_secs_f64() * 10.0).round() / 10.0,
        }));
        if samples.len() < 6 {
            samples.extend(s.into_iter().take(1));
        }
        total.add(&c);
    }
    let failing: BTreeMap<&str, u64> = cls.0.iter().map(|(k, v)| (*k, v.0)).collect();
    for (key, (n, _, what, replay)) in cls.0 {
        rep.violation(key, &format!("{what} [{n} rule list(s) in this class]"), replay);
    }
    rep.set("levels", level_notes);
    rep.set("rule_lists", total.lists);
    rep.set("failing_rule_lists_by_class", json!(failing));
    rep.set("lists_with_same_input_conflict_at_some_point", total.conflict_lists);
    rep.set("output_boxes", total.out_boxes);
    rep.set("max_output_boxes_per_list", total.max_out_boxes);
    rep.set("output_boxes_with_several_maps", total.multi_map_boxes);
    rep.set("panics", total.panics);
    rep.set("same_input_precedence_failures_by_list_shape", json!({
        "no_two_rules_share_map_or_region": total.precedence_by_shape[0],
        "two_rules_with_identical_maps": total.precedence_by_shape[1],
        "two_rules_with_identical_regions": total.precedence_by_shape[2],
        "both": total.precedence_by_shape[3],
    }));
    rep.set("open_ended_intervals_checked", open_checked);
    rep.set(
        "not_asserted_lists_where_content_sorted_lookup_order_would_break_precedence",
        total.content_sorted_precedence_lists,
    );
    rep.set("map_alphabet", MAPS.iter().map(map_json).collect::<Vec<_>>());
    rep.set("samples", samples);
    rep.assume("part (i) only: interval ends over {-1,-0.5,0,0.5,1}, at most 2 axes, at most 3 rules of at most 2 boxes, 5 substitution maps over {a,b,c,d}; two-box rules are unordered pairs of distinct boxes; long levels use the curated map tuples listed in the source instead of all tuples");
    rep.assume("points on box edges are not evaluated (touching boxes are legitimately disjoint): the grid is offset by 0.125 from every interval end");
    rep.assume("same-input precedence is judged on the order of the maps in the list returned for a box (the lookups of a condition set are applied in that order unless the back end reorders them); the count of lists for which sorting maps by content, as fontbe's make_substitution_lookups does, would pick another winner is evidence only here and is asserted by the font-level part");
    rep.assume("chaining (an output glyph that is another rule's input) is not given a meaning: only sets of (input, output) pairs are compared");
    Stats {
        evaluations: total.points,
        nontrivial: total.nontrivial,
    }
}


// ================================================================== part (ii): end to end
//
// designspace <rules> -> real compile -> GSUB FeatureVariations evaluated by otlayout at the
// offset grid (mapped to user space, normalized by otvar through fvar/avar) -> compared with
// designspaceLib `processRules` semantics computed from the rule list itself.

const FGLYPHS: [&str; 6] = ["a", "b", "c", "d", "zed", "bee"];
/// glyphs whose fate is observed
const FINPUTS: [&str; 4] = ["a", "b", "c", "d"];
/// Font-level substitution maps: T1 material (0-2, 0-3 share pairs), T2 material (0-1, 3-1),
/// T3 material (4 then 2: a->b->bee; 5 then 0: c->a->zed).
const FMAPS: [&[(&str, &str)]; 6] = [
    &[("a", "zed")],
    &[("a", "bee")],
    &[("b", "bee")],
    &[("a", "zed"), ("b", "bee")],
    &[("a", "b")],
    &[("c", "a")],
];

#[derive(Clone, Copy, PartialEq, Debug)]
enum Flavour {
    /// design = user, 0..500..1000, every bound written out
    Plain,
    /// user 100..400..900 bent onto design 0..500..1000; bounds at the axis ends are omitted
    Mapped,
}

impl Flavour {
    fn name(self) -> &'static str {
        match self {
            Flavour::Plain => "plain",
            Flavour::Mapped => "mapped",
        }
    }
}

const AXIS_NAMES: [(&str, &str); 2] = [("wght", "Weight"), ("wdth", "Width")];
const MAPPED: [(f64, f64); 4] = [(100.0, 0.0), (400.0, 500.0), (650.0, 600.0), (900.0, 1000.0)];

fn font_design(n: usize, fl: Flavour) -> dgen::Design {
    use dgen::*;
    let axes: Vec<Axis> = (0..n)
        .map(|i| match fl {
            Flavour::Plain => Axis::new(AXIS_NAMES[i].0, AXIS_NAMES[i].1, 0.0, 500.0, 1000.0),
            Flavour::Mapped => {
                let mut a = Axis::new(AXIS_NAMES[i].0, AXIS_NAMES[i].1, 100.0, 400.0, 900.0);
                a.map = MAPPED.to_vec();
                a
            }
        })
        .collect();
    let mut locs = vec![vec![500.0; n]];
    for i in 0..n {
        for v in [0.0, 1000.0] {
            let mut l = vec![500.0; n];
            l[i] = v;
            locs.push(l);
        }
    }
    let nm = locs.len();
    let mut d = Design::skeleton("RulesC16", axes, locs);
    for (gi, name) in FGLYPHS.iter().enumerate() {
        let cps: Vec<u32> = if name.len() == 1 { vec![name.as_bytes()[0] as u32] } else { vec![] };
        let mut g = Glyph::new(name, &cps);
        for m in 0..nm {
            let w = 200.0 + 20.0 * gi as f64 + 15.0 * m as f64;
            g.layers.insert(
                m,
                Layer { advance: w + 100.0, contours: vec![shapes::rect(50.0, 0.0, 50.0 + w, 500.0 + 10.0 * gi as f64)], ..Default::default() },
            );
        }
        d.glyphs.push(g);
    }
    d
}

/// design coordinate of a normalized value on the axes above
fn design_of(nv: f64) -> f64 {
    500.0 + 500.0 * nv
}

/// own inverse of the MAPPED nodes (strictly increasing)
fn user_of_design(fl: Flavour, d: f64) -> f64 {
    match fl {
        Flavour::Plain => d,
        Flavour::Mapped => {
            for w in MAPPED.windows(2) {
                if d >= w[0].1 && d <= w[1].1 {
                    return w[0].0 + (d - w[0].1) * (w[1].0 - w[0].0) / (w[1].1 - w[0].1);
                }
            }
            f64::NAN
        }
    }
}

#[derive(Clone, Debug)]
struct FontCase {
    n: usize,
    flavour: Flavour,
    processing_last: bool,
    /// per rule: boxes (per axis interval) and index into FMAPS
    rules: Vec<(Vec<Vec<Iv>>, usize)>,
}

impl FontCase {
    fn json(&self, p: Option<u32>) -> Value {
        json!({
            "part": "font", "axes": self.n, "flavour": self.flavour.name(), "processing_last": self.processing_last,
            "rules": self.rules.iter().map(|(boxes, m)| json!({
                "boxes": boxes.iter().map(|b| b.iter().map(|iv| match iv {
                    Some((lo, hi)) => json!([lo, hi]),
                    None => Value::Null,
                }).collect::<Vec<_>>()).collect::<Vec<_>>(),
                "map": m,
                "subs": FMAPS[*m].iter().map(|(a, b)| json!([a, b])).collect::<Vec<_>>(),
            })).collect::<Vec<_>>(),
            "point": p.map(|p| point(self.n, p)),
        })
    }
    fn describe(&self) -> String {
        let rules: Vec<String> = self
            .rules
            .iter()
            .enumerate()
            .map(|(i, (boxes, m))| {
                let bs: Vec<String> = boxes
                    .iter()
                    .map(|b| {
                        let parts: Vec<String> = b
                            .iter()
                            .enumerate()
                            .map(|(a, iv)| match iv {
                                Some((lo, hi)) => format!("{}:[{},{}]", AXIS_NAMES[a].0, design_of(*lo), design_of(*hi)),
                                None => format!("{}:*", AXIS_NAMES[a].0),
                            })
                            .collect();
                        format!("{{{}}}", parts.join(" "))
                    })
                    .collect();
                let subs: Vec<String> = FMAPS[*m].iter().map(|(a, b)| format!("{a}->{b}")).collect();
                format!("rule{} {} => {}", i + 1, bs.join(" | "), subs.join(","))
            })
            .collect();
        format!(
            "{} axis/axes ({}{}; design coordinates): {}",
            self.n,
            self.flavour.name(),
            if self.processing_last { ", processing=last" } else { "" },
            rules.join("; ")
        )
    }
    fn dgen_rules(&self) -> Vec<dgen::Rule> {
        self.rules
            .iter()
            .enumerate()
            .map(|(i, (boxes, m))| dgen::Rule {
                name: format!("r{i}"),
                condition_sets: boxes
                    .iter()
                    .map(|b| {
                        b.iter()
                            .enumerate()
                            .filter_map(|(a, iv)| {
                                iv.map(|(lo, hi)| {
                                    // a condition needs at least one bound (designspaceLib rejects one without)
                                    let open = self.flavour == Flavour::Mapped;
                                    (
                                        AXIS_NAMES[a].1.to_string(),
                                        (!(open && lo == -1.0 && hi != 1.0)).then(|| design_of(lo)),
                                        (!(open && hi == 1.0)).then(|| design_of(hi)),
                                    )
                                })
                            })
                            .collect()
                    })
                    .collect(),
                subs: FMAPS[*m].iter().map(|(a, b)| (a.to_string(), b.to_string())).collect(),
            })
            .collect()
    }
    /// rules whose region contains grid point p, in order
    fn active(&self, p: u32) -> Vec<usize> {
        let bit = 1u64 << p;
        (0..self.rules.len())
            .filter(|i| self.rules[*i].0.iter().any(|b| own_mask(self.n, b) & bit != 0))
            .collect()
    }
}

#[derive(Clone, Copy, PartialEq, Debug)]
enum FTier {
    None,
    T1,
    T2,
    T3,
}

/// designspaceLib.processRules on the glyph list FINPUTS: every active rule, in order, renames the
/// running glyph names through its substitution dictionary. Also which tier the point falls into.
fn process_rules(case: &FontCase, active: &[usize]) -> (Vec<String>, FTier) {
    let mut names: Vec<String> = FINPUTS.iter().map(|s| s.to_string()).collect();
    for r in active {
        let subs = FMAPS[case.rules[*r].1];
        for nme in names.iter_mut() {
            if let Some((_, to)) = subs.iter().find(|(from, _)| from == nme) {
                *nme = to.to_string();
            }
        }
    }
    let mut chaining = false;
    let mut conflict = false;
    for (x, i) in active.iter().enumerate() {
        for j in &active[x + 1..] {
            let (a, b) = (FMAPS[case.rules[*i].1], FMAPS[case.rules[*j].1]);
            if a.iter().any(|(_, o)| b.iter().any(|(i2, _)| i2 == o)) || b.iter().any(|(_, o)| a.iter().any(|(i2, _)| i2 == o)) {
                chaining = true;
            }
            if a.iter().any(|(i1, o1)| b.iter().any(|(i2, o2)| i1 == i2 && o1 != o2)) {
                conflict = true;
            }
        }
    }
    let tier = if active.is_empty() {
        FTier::None
    } else if chaining {
        FTier::T3
    } else if conflict {
        FTier::T2
    } else {
        FTier::T1
    };
    (names, tier)
}

#[derive(Default, Clone)]
struct FCounts {
    fonts: u64,
    compile_failures: u64,
    points: u64,
    t_none: u64,
    t1: u64,
    t2: u64,
    t3: u64,
    t3_differs: u64,
    fonts_with_overlap: u64,
    fonts_with_t2: u64,
    fonts_with_featvars: u64,
    max_records: u64,
    glyph_changes_seen: u64,
}

impl FCounts {
    fn add(&mut self, o: &FCounts) {
        self.fonts += o.fonts;
        self.compile_failures += o.compile_failures;
        self.points += o.points;
        self.t_none += o.t_none;
        self.t1 += o.t1;
        self.t2 += o.t2;
        self.t3 += o.t3;
        self.t3_differs += o.t3_differs;
        self.fonts_with_overlap += o.fonts_with_overlap;
        self.fonts_with_t2 += o.fonts_with_t2;
        self.fonts_with_featvars += o.fonts_with_featvars;
        self.max_records = self.max_records.max(o.max_records);
        self.glyph_changes_seen += o.glyph_changes_seen;
    }
}

/// Judge one compiled font. Returns (class key, witness point, message) findings.
fn judge_font(case: &FontCase, font: &[u8], cnt: &mut FCounts) -> Vec<(String, Option<u32>, String)> {
    let mut bad = vec![];
    let vf = match otvar::VFont::new(font) {
        Ok(v) => v,
        Err(e) => return vec![("font-unreadable".into(), None, format!("otvar: {e}"))],
    };
    let lf = match otlayout::LFont::new(font) {
        Ok(v) => v,
        Err(e) => return vec![("font-unreadable".into(), None, format!("otlayout: {e}"))],
    };
    let gid = |n: &str| vf.gid_for_name(n);
    let names = vf.glyph_names();
    let Some(input_gids) = FINPUTS.iter().map(|n| gid(n)).collect::<Option<Vec<u16>>>() else {
        return vec![("font-unreadable".into(), None, format!("glyph names {names:?} lack one of {FINPUTS:?}"))];
    };
    let records = lf.feature_variation_record_count(otlayout::Table::Gsub) as u64;
    if records > 0 {
        cnt.fonts_with_featvars += 1;
    }
    cnt.max_records = cnt.max_records.max(records);
    let tag = if case.processing_last { "rclt" } else { "rvrn" };
    let npoints = if case.n == 1 { 8 } else { 64 };
    let mut overlap = false;
    let mut any_t2 = false;
    let mut seen: [Option<&'static str>; 4] = [None; 4];
    for p in 0..npoints {
        cnt.points += 1;
        let nv = point(case.n, p);
        let user: Vec<(String, f64)> = nv
            .iter()
            .enumerate()
            .map(|(a, v)| (AXIS_NAMES[a].0.to_string(), user_of_design(case.flavour, design_of(*v))))
            .collect();
        let coords = vf.normalize(&user);
        if coords.len() != case.n || coords.iter().zip(&nv).any(|(c, v)| (c - v).abs() > 0.01) {
            if seen[0].is_none() {
                seen[0] = Some("x");
                bad.push(("normalization-off".into(), Some(p), format!("user {user:?} normalizes to {coords:?}, the source puts it at {nv:?}")));
            }
            continue;
        }
        let active = case.active(p);
        if active.len() >= 2 {
            overlap = true;
        }
        let (want, tier) = process_rules(case, &active);
        let req = otlayout::ShapeRequest {
            script: "DFLT".into(),
            lang: "dflt".into(),
            features: otlayout::FeatureSel::Only(vec![tag.to_string()]),
            coords: coords.clone(),
            gsub: true,
            gpos: false,
            alternate_index: 0,
        };
        let res = lf.shape(&req, &input_gids);
        if !res.problems.is_empty() && seen[1].is_none() {
            seen[1] = Some("x");
            bad.push(("layout-problems".into(), Some(p), format!("otlayout reports {:?}", res.problems)));
        }
        let got: Vec<String> = res
            .gids()
            .iter()
            .map(|g| names.get(*g as usize).cloned().unwrap_or_else(|| format!("gid{g}")))
            .collect();
        if got.iter().zip(FINPUTS).any(|(g, i)| g != i) {
            cnt.glyph_changes_seen += 1;
        }
        match tier {
            FTier::None => cnt.t_none += 1,
            FTier::T1 => cnt.t1 += 1,
            FTier::T2 => {
                cnt.t2 += 1;
                any_t2 = true;
            }
            FTier::T3 => cnt.t3 += 1,
        }
        if got == want {
            continue;
        }
        let msg = format!(
            "at normalized {nv:?} (user {:?}) the active rules are {:?}; processRules turns {FINPUTS:?} into {want:?}, the font's {tag} feature into {got:?}",
            user.iter().map(|(_, v)| *v).collect::<Vec<_>>(),
            active.iter().map(|i| format!("rule{}", i + 1)).collect::<Vec<_>>()
        );
        match tier {
            FTier::None if seen[2].is_none() => {
                seen[2] = Some("x");
                bad.push(("featvar-substitution-without-rule".into(), Some(p), msg));
            }
            FTier::T1 if seen[2].is_none() => {
                seen[2] = Some("x");
                bad.push(("featvar-substitution-mismatch:T1".into(), Some(p), msg));
            }
            FTier::T2 if seen[3].is_none() => {
                seen[3] = Some("x");
                // an input glyph that is not contested must still be right
                let contested: Vec<bool> = FINPUTS
                    .iter()
                    .map(|g| {
                        let outs: std::collections::BTreeSet<&str> = active
                            .iter()
                            .flat_map(|r| FMAPS[case.rules[*r].1].iter())
                            .filter(|(i, _)| i == g)
                            .map(|(_, o)| *o)
                            .collect();
                        outs.len() > 1
                    })
                    .collect();
                let only_contested = (0..4).all(|i| contested[i] || got.get(i) == want.get(i));
                bad.push((
                    if only_contested { "same-input-precedence:font-level".to_string() } else { "featvar-substitution-mismatch:T2-uncontested-glyph".to_string() },
                    Some(p),
                    msg,
                ));
            }
            FTier::T3 => cnt.t3_differs += 1,
            _ => {}
        }
    }
    if overlap {
        cnt.fonts_with_overlap += 1;
    }
    if any_t2 {
        cnt.fonts_with_t2 += 1;
    }
    bad
}

/// One worker-local build directory: UFOs are written once, the designspace per case.
struct Rig {
    scratch: vcore::Scratch,
    design: dgen::Design,
    key: (usize, Flavour),
}

impl Rig {
    fn new(n: usize, fl: Flavour) -> Rig {
        let scratch = vcore::Scratch::new("c16");
        let design = font_design(n, fl);
        if let Err(e) = design.write_designspace(scratch.path()) {
            vcore::machinery_error(&format!("cannot write sources: {e}"));
        }
        Rig { scratch, design, key: (n, fl) }
    }
    fn compile(&mut self, case: &FontCase) -> Result<Vec<u8>, fcx::Failure> {
        self.design.rules = case.dgen_rules();
        self.design.rules_processing_last = case.processing_last;
        let path = self.scratch.join("design.designspace");
        if let Err(e) = std::fs::write(&path, self.design.designspace_xml()) {
            vcore::machinery_error(&format!("cannot write designspace: {e}"));
        }
        fcx::compile(&path, &fcx::Opts::default(), None)
    }
}

fn run_font_case(case: &FontCase, rig: &mut Rig, cnt: &mut FCounts) -> Vec<(String, Option<u32>, String)> {
    cnt.fonts += 1;
    match rig.compile(case) {
        Ok(font) => judge_font(case, &font, cnt),
        Err(f) => {
            cnt.compile_failures += 1;
            let (kind, msg) = match f {
                fcx::Failure::Error(e) => ("compile-error", e),
                fcx::Failure::Panic(e) => ("compile-panic", e),
            };
            vec![(kind.to_string(), None, format!("the compiler fails on valid rules: {msg}"))]
        }
    }
}

struct FLevel {
    name: &'static str,
    n: usize,
    flavour: Flavour,
    last: bool,
    /// per rule position: may the rule have two boxes?
    pos: Vec<Pos>,
    coarse: bool,
    maps: Vec<Vec<usize>>,
}

fn tuples(k: usize, m: usize) -> Vec<Vec<usize>> {
    let mut v = vec![vec![]];
    for _ in 0..k {
        v = v
            .into_iter()
            .flat_map(|t: Vec<usize>| {
                (0..m).map(move |x| {
                    let mut t = t.clone();
                    t.push(x);
                    t
                })
            })
            .collect();
    }
    v
}

fn flevels(tier: Tier) -> Vec<FLevel> {
    use Flavour::*;
    use Pos::*;
    let pairs: Vec<Vec<usize>> = [[0, 0], [0, 2], [0, 1], [1, 0], [3, 1], [4, 2]].iter().map(|p| p.to_vec()).collect();
    let triples: Vec<Vec<usize>> = [[0, 1, 0], [0, 1, 2], [0, 2, 3], [1, 3, 0], [5, 0, 1], [0, 2, 5], [1, 0, 1], [3, 1, 2]].iter().map(|p| p.to_vec()).collect();
    let mut v = vec![
        FLevel { name: "1 axis, 1 rule of 1-2 boxes", n: 1, flavour: Plain, last: false, pos: vec![Any], coarse: false, maps: tuples(1, 6) },
        FLevel { name: "1 axis, 2 one-box rules", n: 1, flavour: Plain, last: false, pos: vec![Single, Single], coarse: false, maps: tuples(2, 6) },
        FLevel { name: "1 axis, processing=last, 2 one-box rules", n: 1, flavour: Plain, last: true, pos: vec![Single, Single], coarse: false, maps: pairs[..4].to_vec() },
        FLevel { name: "2 axes, coarse intervals, 1 rule", n: 2, flavour: Plain, last: false, pos: vec![Single], coarse: true, maps: tuples(1, 6) },
        // two condition sets in one rule, each free to leave out an axis the other one uses
        FLevel { name: "2 axes, coarse intervals, 1 rule of 2 boxes", n: 2, flavour: Plain, last: false, pos: vec![Any], coarse: true, maps: tuples(1, 6) },
    ];
    match tier {
        Tier::Quick => {
            v.push(FLevel { name: "1 axis with <map>, open bounds, rule of 1-2 boxes then one-box rule", n: 1, flavour: Mapped, last: false, pos: vec![Any, Single], coarse: false, maps: pairs.clone() });
            v.push(FLevel { name: "1 axis, 3 one-box rules", n: 1, flavour: Plain, last: false, pos: vec![Single, Single, Single], coarse: false, maps: triples[..4].to_vec() });
            v.push(FLevel { name: "2 axes, coarse intervals, 2 one-box rules", n: 2, flavour: Plain, last: false, pos: vec![Single, Single], coarse: true, maps: pairs.clone() });
        }
        Tier::Thorough => {
            v.push(FLevel { name: "1 axis, 2 rules of 1-2 boxes", n: 1, flavour: Plain, last: false, pos: vec![Any, Any], coarse: false, maps: tuples(2, 6) });
            v.push(FLevel { name: "1 axis with <map>, open bounds, 2 rules of 1-2 boxes", n: 1, flavour: Mapped, last: false, pos: vec![Any, Any], coarse: false, maps: pairs.clone() });
            v.push(FLevel { name: "1 axis, 3 one-box rules", n: 1, flavour: Plain, last: false, pos: vec![Single, Single, Single], coarse: false, maps: tuples(3, 6) });
            v.push(FLevel { name: "1 axis, 3 rules, first of 1-2 boxes", n: 1, flavour: Plain, last: false, pos: vec![Any, Single, Single], coarse: false, maps: triples.clone() });
            v.push(FLevel { name: "2 axes, 1 one-box rule", n: 2, flavour: Plain, last: false, pos: vec![Single], coarse: false, maps: tuples(1, 6) });
            v.push(FLevel { name: "2 axes, 2 one-box rules", n: 2, flavour: Plain, last: false, pos: vec![Single, Single], coarse: false, maps: pairs.clone() });
            v.push(FLevel { name: "2 axes with <map>, coarse intervals, 2 one-box rules", n: 2, flavour: Mapped, last: false, pos: vec![Single, Single], coarse: true, maps: pairs.clone() });
            v.push(FLevel { name: "2 axes, coarse intervals, rule of 1-2 boxes then one-box rule", n: 2, flavour: Plain, last: false, pos: vec![Any, Single], coarse: true, maps: pairs.clone() });
        }
    }
    v
}

/// rule shapes (lists of boxes) of a level: one-box shapes first
fn font_shapes(n: usize, coarse: bool) -> (Vec<Vec<Vec<Iv>>>, usize) {
    let ends: Vec<f64> = if coarse { vec![-1.0, 0.0, 1.0] } else { ENDS.to_vec() };
    let mut ivs: Vec<Iv> = vec![None];
    for (i, a) in ends.iter().enumerate() {
        for b in &ends[i + 1..] {
            ivs.push(Some((*a, *b)));
        }
    }
    let boxes: Vec<Vec<Iv>> = if n == 1 {
        ivs.iter().map(|x| vec![*x]).collect()
    } else {
        ivs.iter().flat_map(|x| ivs.iter().map(move |y| vec![*x, *y])).collect()
    };
    let mut shapes: Vec<Vec<Vec<Iv>>> = boxes.iter().map(|b| vec![b.clone()]).collect();
    let n_single = shapes.len();
    for i in 0..boxes.len() {
        for j in i + 1..boxes.len() {
            shapes.push(vec![boxes[i].clone(), boxes[j].clone()]);
        }
    }
    (shapes, n_single)
}

fn level_cases(lv: &FLevel) -> Vec<FontCase> {
    let (shapes, n_single) = font_shapes(lv.n, lv.coarse);
    let lim: Vec<usize> = lv.pos.iter().map(|p| if *p == Pos::Single { n_single } else { shapes.len() }).collect();
    let mut out = vec![];
    let mut idx = vec![0usize; lv.pos.len()];
    'outer: loop {
        for mt in &lv.maps {
            out.push(FontCase {
                n: lv.n,
                flavour: lv.flavour,
                processing_last: lv.last,
                rules: idx.iter().zip(mt).map(|(s, m)| (shapes[*s].clone(), *m)).collect(),
            });
        }
        let mut j = idx.len();
        loop {
            if j == 0 {
                break 'outer;
            }
            j -= 1;
            idx[j] += 1;
            if idx[j] < lim[j] {
                break;
            }
            idx[j] = 0;
        }
    }
    out
}

type FSize = (usize, usize, usize, u64);

#[derive(Default)]
struct FClasses(BTreeMap<String, (u64, FSize, String, Value)>);

impl FClasses {
    fn add(&mut self, key: String, size: FSize, what: String, replay: Value) {
        match self.0.get_mut(&key) {
            Some(e) => {
                e.0 += 1;
                if size < e.1 {
                    *e = (e.0, size, what, replay);
                }
            }
            None => {
                self.0.insert(key, (1, size, what, replay));
            }
        }
    }
    fn merge(&mut self, o: FClasses) {
        for (k, (n, size, w, r)) in o.0 {
            match self.0.get_mut(&k) {
                Some(e) => {
                    e.0 += n;
                    if size < e.1 {
                        *e = (e.0, size, w, r);
                    }
                }
                None => {
                    self.0.insert(k, (n, size, w, r));
                }
            }
        }
    }
}

fn part_font(rep: &mut Reporter, tier: Tier) -> Stats {
    let mut total = FCounts::default();
    let mut cls = FClasses::default();
    let mut notes = vec![];
    let mut samples: Vec<Value> = vec![];
    let mut seq_base = 0u64;
    for lv in flevels(tier) {
        let t = std::time::Instant::now();
        let cases = level_cases(&lv);
        let chunk = 64usize;
        let ntasks = cases.len().div_ceil(chunk);
        let results = vcore::par_for(ntasks, vcore::ncores(), |ti| {
            let mut rig = Rig::new(lv.n, lv.flavour);
            debug_assert!(rig.key == (lv.n, lv.flavour));
            let mut cnt = FCounts::default();
            let mut cls = FClasses::default();
            let mut sample = None;
            for (ci, case) in cases[ti * chunk..((ti + 1) * chunk).min(cases.len())].iter().enumerate() {
                let seq = seq_base + (ti * chunk + ci) as u64;
                let t2_before = cnt.fonts_with_t2;
                let found = run_font_case(case, &mut rig, &mut cnt);
                if found.is_empty() && sample.is_none() && cnt.fonts_with_t2 == t2_before && case.rules.len() > 1 && ci == 7 {
                    sample = Some(json!({"level": lv.name, "source_rules": case.describe(), "verdict": "font agrees with processRules at every grid point"}));
                }
                let size: FSize = (case.n, case.rules.len(), case.rules.iter().map(|r| r.0.len() + FMAPS[r.1].len()).sum(), seq);
                for (key, p, msg) in found {
                    cls.add(key, size, format!("{}: {msg}", case.describe()), case.json(p));
                }
            }
            (cnt, cls, sample)
        });
        seq_base += cases.len() as u64;
        let mut c = FCounts::default();
        let mut failing: BTreeMap<String, u64> = BTreeMap::new();
        let nres = results.len();
        for (i, (cn, k, s)) in results.into_iter().enumerate() {
            c.add(&cn);
            for (key, v) in &k.0 {
                *failing.entry(key.clone()).or_default() += v.0;
            }
            cls.merge(k);
            if i == nres / 2 || (samples.len() < 2 && i == 0) {
                samples.extend(s);
            }
        }
        eprintln!("[C16] font level '{}': {} fonts in {:.1}s", lv.name, c.fonts, t.elapsed().as_secs_f64());
        notes.push(json!({
            "level": lv.name, "fonts": c.fonts, "points": c.points,
            "points_no_rule": c.t_none, "points_T1": c.t1, "points_T2": c.t2, "points_T3_not_asserted": c.t3,
            "T3_points_where_font_differs_from_processRules": c.t3_differs,
            "fonts_with_overlapping_rules": c.fonts_with_overlap,
            "failing_fonts_by_class": failing,
            "seconds": (t.elapsed().as_secs_f64() * 10.0).round() / 10.0,
        }));
        total.add(&c);
    }
    let failing: BTreeMap<String, u64> = cls.0.iter().map(|(k, v)| (k.clone(), v.0)).collect();
    for (key, (n, _, what, replay)) in cls.0 {
        rep.violation(&key, &format!("{what} [{n} font(s) in this class]"), replay);
    }
    rep.set("font_levels", notes);
    rep.set("fonts_compiled", total.fonts);
    rep.set("font_compile_failures", total.compile_failures);
    rep.set("font_points_evaluated", total.points);
    rep.set("font_points_by_tier", json!({"no_rule": total.t_none, "T1": total.t1, "T2": total.t2, "T3_not_asserted": total.t3}));
    rep.set("font_T3_points_where_font_differs_from_processRules", total.t3_differs);
    rep.set("fonts_with_overlapping_rules", total.fonts_with_overlap);
    rep.set("fonts_with_same_input_conflict", total.fonts_with_t2);
    rep.set("fonts_with_feature_variations", total.fonts_with_featvars);
    rep.set("max_feature_variation_records", total.max_records);
    rep.set("font_points_where_some_glyph_was_substituted", total.glyph_changes_seen);
    rep.set("failing_fonts_by_class", json!(failing));
    rep.set("font_samples", samples);
    rep.assume("part (ii): 1-2 axes (0..500..1000 in design coordinates; 'mapped' flavour: user 100..400..900 bent onto it by a <map>), 5 on-axis masters at most, glyphs a b c d zed bee, conditions written in design coordinates; 6 substitution maps; the reference is processRules on [a,b,c,d]; T3 points (an active rule's output is another active rule's input) are evaluated but not asserted");
    rep.assume("part (ii) judges the glyph ids produced by applying only the rvrn (rclt for processing=last) feature of DFLT/dflt at the normalized coordinates obtained from the font's own fvar/avar for the user-space image of each grid point");
    Stats {
        evaluations: total.points,
        nontrivial: total.fonts_with_overlap,
    }
}

fn replay_font(r: &Value) -> ! {
    let bad = |m: &str| -> ! { vcore::machinery_error(&format!("replay: {m}")) };
    let n = r.get("axes").and_then(|x| x.as_u64()).unwrap_or_else(|| bad("axes")) as usize;
    if !(1..=2).contains(&n) {
        bad("axes must be 1 or 2");
    }
    let flavour = match r.get("flavour").and_then(|x| x.as_str()) {
        Some("mapped") => Flavour::Mapped,
        _ => Flavour::Plain,
    };
    let mut rules = vec![];
    for rj in r.get("rules").and_then(|x| x.as_array()).unwrap_or_else(|| bad("rules")) {
        let mut boxes: Vec<Vec<Iv>> = vec![];
        for b in rj.get("boxes").and_then(|x| x.as_array()).unwrap_or_else(|| bad("boxes")) {
            let b: Vec<Iv> = b
                .as_array()
                .unwrap_or_else(|| bad("box"))
                .iter()
                .map(|iv| iv.as_array().map(|a| (a[0].as_f64().unwrap_or(-1.0), a[1].as_f64().unwrap_or(1.0))))
                .collect();
            if b.len() != n {
                bad("box arity");
            }
            boxes.push(b);
        }
        let m = rj.get("map").and_then(|x| x.as_u64()).unwrap_or_else(|| bad("map")) as usize;
        if m >= FMAPS.len() {
            bad("map index");
        }
        rules.push((boxes, m));
    }
    let case = FontCase {
        n,
        flavour,
        processing_last: r.get("processing_last").and_then(|x| x.as_bool()).unwrap_or(false),
        rules,
    };
    println!("{}", case.describe());
    let mut rig = Rig::new(n, flavour);
    let mut cnt = FCounts::default();
    let found = run_font_case(&case, &mut rig, &mut cnt);
    for (k, p, m) in &found {
        println!("{k}: {m} (grid point {:?})", p.map(|p| point(n, p)));
    }
    drop(rig);
    let fails = !found.is_empty();
    println!("replay: the case {}", if fails { "still fails" } else { "no longer fails" });
    vcore::cleanup_scratch();
    std::process::exit(fails as i32)
}

fn replay(path: &Path) -> ! {
    let bad = |m: &str| -> ! { vcore::machinery_error(&format!("replay {path:?}: {m}")) };
    let text = std::fs::read_to_string(path).unwrap_or_else(|e| bad(&e.to_string()));
    let v: Value = serde_json::from_str(&text).unwrap_or_else(|e| bad(&e.to_string()));
    let want_key = v.get("key").and_then(|k| k.as_str()).map(|s| s.to_string());
    let r = v.get("replay").unwrap_or(&v);
    std::panic::set_hook(Box::new(|_| {}));
    if r.get("part").and_then(|x| x.as_str()) == Some("font") {
        replay_font(r);
    }
    if let Some(iv) = r.get("open_end_interval").and_then(|x| x.as_array()) {
        let ivs = vec![Some((iv[0].as_f64().unwrap_or(0.0), iv[1].as_f64().unwrap_or(0.0))), None];
        let fails = nbox(&tags(2), &ivs, true) != nbox(&tags(2), &ivs, false);
        std::process::exit(fails as i32)
    }
    let n = r.get("axes").and_then(|x| x.as_u64()).unwrap_or_else(|| bad("axes")) as usize;
    if !(1..=2).contains(&n) {
        bad("axes must be 1 or 2");
    }
    let tg = tags(n);
    let mut owned: Vec<(Vec<Vec<Iv>>, Vec<NBox>, MapArr)> = vec![];
    for rj in r.get("rules").and_then(|x| x.as_array()).unwrap_or_else(|| bad("rules")) {
        let mut ivs: Vec<Vec<Iv>> = vec![];
        for b in rj.get("boxes").and_then(|x| x.as_array()).unwrap_or_else(|| bad("boxes")) {
            let b: Vec<Iv> = b
                .as_array()
                .unwrap_or_else(|| bad("box"))
                .iter()
                .map(|iv| iv.as_array().map(|a| (a[0].as_f64().unwrap_or(-1.0), a[1].as_f64().unwrap_or(1.0))))
                .collect();
            if b.len() != n {
                bad("box arity");
            }
            ivs.push(b);
        }
        let mut map: MapArr = [None; 4];
        for (g, o) in rj.get("subs").and_then(|x| x.as_object()).unwrap_or_else(|| bad("subs")) {
            let (g, o) = (glyph_idx(g), o.as_str().and_then(glyph_idx));
            match (g, o) {
                (Some(g), Some(o)) => map[g as usize] = Some(o),
                _ => bad("glyphs must be among a,b,c,d"),
            }
        }
        let boxes: Vec<NBox> = ivs.iter().map(|b| nbox(&tg, b, true)).collect();
        owned.push((ivs, boxes, map));
    }
    if owned.is_empty() || owned.len() > 3 {
        bad("1-3 rules");
    }
    let rules: Vec<Rule> = owned
        .iter()
        .map(|(ivs, boxes, map)| Rule {
            ivs,
            boxes,
            mask: ivs.iter().map(|b| own_mask(n, b)).fold(0, |a, b| a | b),
            map: *map,
        })
        .collect();
    let refs: Vec<&Rule> = rules.iter().collect();
    let mut cnt = Counts::default();
    let vd = check_case(n, &tg, &refs, &mut cnt);
    println!("{}", describe(n, &refs));
    let mut keys = vec![];
    if let Some((k, _, m)) = &vd.general {
        println!("{k}: {m}");
        keys.push(k.to_string());
    }
    if let Some((_, k, m)) = &vd.precedence {
        println!("{k}: {m}");
        keys.push(k.to_string());
    }
    if let Some(k) = want_key {
        println!("recorded class: {k}; classes now: {keys:?}");
    }
    let fails = !keys.is_empty();
    println!("replay: the case {}", if fails { "still fails" } else { "no longer fails" });
    std::process::exit(fails as i32)
}

fn main() {
    // one build epoch for every in-process compile
    unsafe { std::env::set_var("SOURCE_DATE_EPOCH", "1700000000") };
    let args = vcore::parse_args();
    if let Some(p) = &args.replay {
        replay(p);
    }
    let mut rep = Reporter::new("C16", "exploration", &args);
    let hook = std::panic::take_hook();
    std::panic::set_hook(Box::new(|_| {}));
    let pure = part_pure(&mut rep, args.tier);
    let font = part_font(&mut rep, args.tier);
    std::panic::set_hook(hook);
    rep.set("evaluations", pure.evaluations + font.evaluations);
    rep.set("distinct_nontrivial", pure.nontrivial + font.nontrivial);
    rep.set("rule", "evaluations = grid points judged (every point of the offset grid for every rule list; points are judged in groups that share the set of containing rules and the first containing output box). distinct_nontrivial = distinct rule lists (distinct by construction of the enumeration) in which at least two rules contain a common grid point, i.e. substitutions really have to be combined; part (ii) adds the grid points judged on compiled fonts and the compiled fonts whose rules overlap at some grid point");
    rep.set("exhaustive", true);
    rep.set("parts_implemented", json!(["i: overlay_feature_variations", "ii: designspace rules -> GSUB FeatureVariations"]));
    rep.finish()
}
