//! C16 — conditional substitutions (feature variations) apply exactly what the rules specify.
//!
//! This file currently implements part (i) of the design: bounded-exhaustive enumeration of rule
//! lists given directly to `fontir::feature_variations::overlay_feature_variations`, judged at
//! every point of an offset grid by an oracle written here (plain "which rules contain the point").
//! `part_font` (designspace `<rules>` / bracket layers -> GSUB FeatureVariations) is added later.
use fontdrasil::{coords::NormalizedCoord, types::GlyphName};
use fontir::feature_variations::{NBox, Region, overlay_feature_variations};
use serde_json::{Value, json};
use std::{
    collections::BTreeMap,
    panic::{AssertUnwindSafe, catch_unwind},
    path::Path,
};
use vcore::{Reporter, Tier};
use write_fonts::types::Tag;

const ENDS: [f64; 5] = [-1.0, -0.5, 0.0, 0.5, 1.0];
/// Strictly inside or outside every interval over ENDS.
const GRID: [f64; 8] = [-0.875, -0.625, -0.375, -0.125, 0.125, 0.375, 0.625, 0.875];
const GLYPHS: [&str; 4] = ["a", "b", "c", "d"];
/// None: the axis is absent from the box (= whole axis).
type Iv = Option<(f64, f64)>;
/// A substitution map over GLYPHS: input glyph index -> output glyph index.
type MapArr = [Option<u8>; 4];

/// The map alphabet: same input/different output (0-1, 2-4, 3-1, 3-4), disjoint inputs (0-2),
/// a map that is the union of two others (3 = 0 ∪ 2), identical maps (any repeated index).
const MAPS: [MapArr; 5] = [
    [Some(1), None, None, None],    // a->b
    [Some(2), None, None, None],    // a->c
    [None, None, Some(3), None],    // c->d
    [Some(1), None, Some(3), None], // a->b, c->d
    [None, None, Some(0), None],    // c->a
];

fn tags(n: usize) -> Vec<Tag> {
    [Tag::new(b"aaaa"), Tag::new(b"bbbb")][..n].to_vec()
}

fn map_of(m: &MapArr) -> BTreeMap<GlyphName, GlyphName> {
    m.iter()
        .enumerate()
        .filter_map(|(g, o)| o.map(|o| (GlyphName::new(GLYPHS[g]), GlyphName::new(GLYPHS[o as usize]))))
        .collect()
}

fn map_json(m: &MapArr) -> Value {
    Value::Object(
        m.iter()
            .enumerate()
            .filter_map(|(g, o)| o.map(|o| (GLYPHS[g].to_string(), json!(GLYPHS[o as usize]))))
            .collect(),
    )
}

fn glyph_idx(g: &str) -> Option<u8> {
    GLYPHS.iter().position(|x| *x == g).map(|i| i as u8)
}

/// Build the real box; ends at -1 / +1 are passed as open ends (None), which `NBox::insert`
/// documents as equivalent (checked separately in `check_open_ends`).
fn nbox(tags: &[Tag], ivs: &[Iv], open_ends: bool) -> NBox {
    let mut nb = NBox::default();
    for (t, iv) in tags.iter().zip(ivs) {
        if let Some((lo, hi)) = iv {
            let lo_c = (!(open_ends && *lo == -1.0)).then(|| NormalizedCoord::new(*lo));
            let hi_c = (!(open_ends && *hi == 1.0)).then(|| NormalizedCoord::new(*hi));
            nb.insert(*t, lo_c, hi_c);
        }
    }
    nb
}

fn iv_mask8(lo: f64, hi: f64) -> u8 {
    let mut m = 0u8;
    for (i, g) in GRID.iter().enumerate() {
        if lo < *g && *g < hi {
            m |= 1 << i;
        }
    }
    m
}

/// Bit set of grid points (index ix [*8 + iy]) inside the box given per-axis 8-bit masks.
fn box_mask(n: usize, per_axis: &[u8]) -> u64 {
    if n == 1 {
        return per_axis[0] as u64;
    }
    let mut m = 0u64;
    for ix in 0..8 {
        if per_axis[0] & (1 << ix) != 0 {
            m |= (per_axis[1] as u64) << (ix * 8);
        }
    }
    m
}

fn own_mask(n: usize, ivs: &[Iv]) -> u64 {
    let per: Vec<u8> = ivs
        .iter()
        .map(|iv| iv.map(|(lo, hi)| iv_mask8(lo, hi)).unwrap_or(0xff))
        .collect();
    box_mask(n, &per)
}

fn point(n: usize, p: u32) -> Vec<f64> {
    if n == 1 {
        vec![GRID[p as usize]]
    } else {
        vec![GRID[(p / 8) as usize], GRID[(p % 8) as usize]]
    }
}

/// One rule as given to the function under test, with the oracle's view of it.
#[derive(Clone)]
struct Rule<'a> {
    ivs: &'a [Vec<Iv>],
    boxes: &'a [NBox],
    mask: u64,
    map: MapArr,
}

#[derive(Default, Clone)]
struct Counts {
    lists: u64,
    points: u64,
    nontrivial: u64,
    conflict_lists: u64,
    out_boxes: u64,
    max_out_boxes: u64,
    multi_map_boxes: u64,
    content_sorted_precedence_lists: u64,
    panics: u64,
    /// precedence failures by what the list contains: [neither, two rules with identical maps,
    /// two rules with identical regions, both]
    precedence_by_shape: [u64; 4],
}

impl Counts {
    fn add(&mut self, o: &Counts) {
        self.lists += o.lists;
        self.points += o.points;
        self.nontrivial += o.nontrivial;
        self.conflict_lists += o.conflict_lists;
        self.out_boxes += o.out_boxes;
        self.max_out_boxes = self.max_out_boxes.max(o.max_out_boxes);
        self.multi_map_boxes += o.multi_map_boxes;
        self.content_sorted_precedence_lists += o.content_sorted_precedence_lists;
        self.panics += o.panics;
        for i in 0..4 {
            self.precedence_by_shape[i] += o.precedence_by_shape[i];
        }
    }
}

type Size = (usize, usize, usize, usize, u64);

/// One violation class: number of failing rule lists and the smallest failing case.
#[derive(Default)]
struct Classes(BTreeMap<&'static str, (u64, Size, String, Value)>);

impl Classes {
    fn add(&mut self, key: &'static str, size: Size, mk: impl FnOnce() -> (String, Value)) {
        match self.0.get_mut(key) {
            Some(e) => {
                e.0 += 1;
                if size < e.1 {
                    let (w, r) = mk();
                    *e = (e.0, size, w, r);
                }
            }
            None => {
                let (w, r) = mk();
                self.0.insert(key, (1, size, w, r));
            }
        }
    }
    fn merge(&mut self, o: Classes) {
        for (k, (n, size, w, r)) in o.0 {
            match self.0.get_mut(k) {
                Some(e) => {
                    e.0 += n;
                    if size < e.1 {
                        *e = (e.0, size, w, r);
                    }
                }
                None => {
                    self.0.insert(k, (n, size, w, r));
                }
            }
        }
    }
}

fn case_json(n: usize, rules: &[&Rule], p: Option<u32>) -> Value {
    json!({
        "axes": n,
        "rules": rules.iter().map(|r| json!({
            "boxes": r.ivs.iter().map(|b| b.iter().map(|iv| match iv {
                Some((lo, hi)) => json!([lo, hi]),
                None => Value::Null,
            }).collect::<Vec<_>>()).collect::<Vec<_>>(),
            "subs": map_json(&r.map),
        })).collect::<Vec<_>>(),
        "point": p.map(|p| point(n, p)),
    })
}

fn describe(n: usize, rules: &[&Rule]) -> String {
    rules
        .iter()
        .enumerate()
        .map(|(i, r)| {
            let boxes: Vec<String> = r
                .ivs
                .iter()
                .map(|b| {
                    let parts: Vec<String> = b
                        .iter()
                        .enumerate()
                        .take(n)
                        .map(|(a, iv)| match iv {
                            Some((lo, hi)) => format!("{}:[{lo},{hi}]", ["x", "y"][a]),
                            None => format!("{}:*", ["x", "y"][a]),
                        })
                        .collect();
                    format!("{{{}}}", parts.join(" "))
                })
                .collect();
            format!("rule{} {} => {}", i + 1, boxes.join(" | "), map_json(&r.map))
        })
        .collect::<Vec<_>>()
        .join("; ")
}

/// The verdict for one rule list. Returns the violation classes it falls into (at most one
/// general class and/or the precedence class), with a witness point and a message.
struct Verdict {
    general: Option<(&'static str, u32, String)>,
    precedence: Option<(u32, String)>,
}

fn check_case(n: usize, tg: &[Tag], rules: &[&Rule], cnt: &mut Counts) -> Verdict {
    let k = rules.len();
    let all: u64 = if n == 1 { 0xff } else { u64::MAX };
    let npoints = if n == 1 { 8 } else { 64 };
    cnt.lists += 1;
    cnt.points += npoints;
    let mut verdict = Verdict {
        general: None,
        precedence: None,
    };

    let input: Vec<(Region, BTreeMap<GlyphName, GlyphName>)> = rules
        .iter()
        .map(|r| (Region::from(r.boxes.to_vec()), map_of(&r.map)))
        .collect();
    let out = match catch_unwind(AssertUnwindSafe(|| overlay_feature_variations(input))) {
        Ok(o) => o,
        Err(p) => {
            cnt.panics += 1;
            let msg = p
                .downcast_ref::<String>()
                .cloned()
                .or(p.downcast_ref::<&str>().map(|s| s.to_string()))
                .unwrap_or_default();
            verdict.general = Some(("overlay-panic", 0, format!("overlay_feature_variations panics: {msg}")));
            return verdict;
        }
    };
    cnt.out_boxes += out.len() as u64;
    cnt.max_out_boxes = cnt.max_out_boxes.max(out.len() as u64);

    // which rules contain each point: masks per subset of rules
    let nsig = 1usize << k;
    let mut smask = [0u64; 8];
    for (s, m) in smask.iter_mut().enumerate().take(nsig) {
        let mut v = all;
        for (j, r) in rules.iter().enumerate() {
            v &= if s & (1 << j) != 0 { r.mask } else { !r.mask };
        }
        *m = v;
    }
    if (0..nsig).any(|s| s.count_ones() >= 2 && smask[s] != 0) {
        cnt.nontrivial += 1;
    }

    // expectation per subset: for each input glyph the outputs of the containing rules, in rule order
    // (set of outputs as bits, first output) per input glyph
    let expect = |s: usize| -> [(u8, u8); 4] {
        let mut e = [(0u8, 0u8); 4];
        for (j, r) in rules.iter().enumerate() {
            if s & (1 << j) != 0 {
                for g in 0..4 {
                    if let Some(o) = r.map[g] {
                        if e[g].0 == 0 {
                            e[g].1 = o;
                        }
                        e[g].0 |= 1 << o;
                    }
                }
            }
        }
        e
    };
    let show = |set: u8, first: u8| -> Vec<&str> {
        let mut v = vec![];
        if set != 0 {
            v.push(GLYPHS[first as usize]);
        }
        v.extend((0..4u8).filter(|x| set & (1 << x) != 0 && *x != first).map(|x| GLYPHS[x as usize]));
        v
    };
    let mut conflict_seen = false;
    let mut sorted_mismatch = false;

    let mut covered = 0u64;
    for (nb, list) in &out {
        // the output box as a point set
        let mut per = [0xffu8; 2];
        let mut foreign = false;
        for (t, (lo, hi)) in nb.iter() {
            match tg.iter().position(|x| *x == t) {
                Some(a) => {
                    let mut m = 0u8;
                    for (i, g) in GRID.iter().enumerate() {
                        if lo.to_f64() <= *g && *g <= hi.to_f64() {
                            m |= 1 << i;
                        }
                    }
                    per[a] = m;
                }
                None => foreign = true,
            }
        }
        if foreign && verdict.general.is_none() {
            verdict.general = Some(("overlay-unknown-axis", 0, format!("output box {nb:?} names an axis no rule uses")));
        }
        let omask = box_mask(n, &per[..n]);
        let mine = omask & !covered & all;
        covered |= omask;
        if list.len() > 1 {
            cnt.multi_map_boxes += 1;
        }
        if mine == 0 {
            continue;
        }
        // what this box substitutes: per input glyph the outputs in list order
        let mut got = [(0u8, 0u8); 4];
        let mut unknown = None;
        for m in list {
            for (gi, go) in m {
                match (glyph_idx(gi.as_str()), glyph_idx(go.as_str())) {
                    (Some(g), Some(o)) => {
                        let e = &mut got[g as usize];
                        if e.0 == 0 {
                            e.1 = o;
                        }
                        e.0 |= 1 << o;
                    }
                    _ => unknown = Some(format!("{gi}->{go}")),
                }
            }
        }
        // the same under the back end's lookup order (maps sorted by content), evidence only
        let first_sorted = |g: usize| -> Option<u8> {
            let mut sorted_list: Vec<&BTreeMap<GlyphName, GlyphName>> = list.iter().collect();
            sorted_list.sort();
            sorted_list
                .iter()
                .find_map(|m| m.get(GLYPHS[g]).and_then(|o| glyph_idx(o.as_str())))
        };
        for s in 0..nsig {
            let pts = mine & smask[s];
            if pts == 0 {
                continue;
            }
            let p = pts.trailing_zeros();
            if let Some(u) = &unknown {
                if verdict.general.is_none() {
                    verdict.general = Some(("overlay-unknown-glyph", p, format!("output contains {u}, which no rule has")));
                }
                continue;
            }
            if s == 0 {
                if verdict.general.is_none() {
                    verdict.general = Some((
                        "overlay-box-without-rule",
                        p,
                        format!("no rule contains {:?} but output box {nb:?} (substitutions {list:?}) does", point(n, p)),
                    ));
                }
                continue;
            }
            let exp = expect(s);
            for g in 0..4 {
                let (e, o) = (exp[g], got[g]);
                if e.0 == 0 && o.0 == 0 {
                    continue;
                }
                let conflict = e.0.count_ones() > 1;
                let missing = !conflict && e.0 & !o.0 != 0 || conflict && o.0 == 0;
                let extra = o.0 & !e.0 != 0;
                if (missing || extra) && verdict.general.is_none() {
                    verdict.general = Some((
                        if missing { "overlay-missing-substitution" } else { "overlay-extra-substitution" },
                        p,
                        format!(
                            "at {:?} the rules containing the point ({}) substitute {} -> {:?}, the first output box containing it ({nb:?}) has {} -> {:?}",
                            point(n, p),
                            (0..k).filter(|j| s & (1 << j) != 0).map(|j| format!("rule{}", j + 1)).collect::<Vec<_>>().join(","),
                            GLYPHS[g], show(e.0, e.1), GLYPHS[g], show(o.0, o.1)
                        ),
                    ));
                }
                if conflict {
                    conflict_seen = true;
                    if !missing && !extra && o.1 != e.1 && verdict.precedence.is_none() {
                        verdict.precedence = Some((
                            p,
                            format!(
                                "at {:?} rules {} all contain the point and substitute {}; the earliest gives {}, but the first output box containing the point ({nb:?}) lists {list:?}, whose first map for {} gives {}",
                                point(n, p),
                                (0..k).filter(|j| s & (1 << j) != 0).map(|j| format!("rule{}", j + 1)).collect::<Vec<_>>().join(","),
                                GLYPHS[g], GLYPHS[e.1 as usize], GLYPHS[g], GLYPHS[o.1 as usize]
                            ),
                        ));
                    }
                    if first_sorted(g) != Some(e.1) {
                        sorted_mismatch = true;
                    }
                }
            }
        }
    }
    let uncovered = all & !covered;
    for s in 1..nsig {
        let pts = uncovered & smask[s];
        if pts != 0 && verdict.general.is_none() {
            let p = pts.trailing_zeros();
            verdict.general = Some((
                "overlay-uncovered-point",
                p,
                format!("{:?} lies in a rule's region but in no output box; output {out:?}", point(n, p)),
            ));
        }
    }
    if conflict_seen {
        cnt.conflict_lists += 1;
    }
    if sorted_mismatch {
        cnt.content_sorted_precedence_lists += 1;
    }
    verdict
}

fn record(n: usize, rules: &[&Rule], seq: u64, v: Verdict, cls: &mut Classes) {
    let size: Size = (
        n,
        rules.len(),
        rules.iter().map(|r| r.ivs.len()).sum(),
        rules.iter().flat_map(|r| r.ivs.iter()).flat_map(|b| b.iter()).filter(|iv| iv.is_some()).count()
            + rules.iter().map(|r| r.map.iter().flatten().count()).sum::<usize>(),
        seq,
    );
    if let Some((key, p, msg)) = v.general {
        cls.add(key, size, || (format!("{}: {msg}", describe(n, rules)), case_json(n, rules, Some(p))));
    }
    if let Some((p, msg)) = v.precedence {
        cls.add("same-input-precedence", size, || {
            (format!("{}: {msg}", describe(n, rules)), case_json(n, rules, Some(p)))
        });
    }
}

// ------------------------------------------------------------------ alphabets

struct Space {
    n: usize,
    tags: Vec<Tag>,
    /// rule shapes: 1 or 2 boxes; shapes[..n_single] are the single-box ones
    shapes: Vec<(Vec<Vec<Iv>>, Vec<NBox>, u64)>,
    n_single: usize,
}

fn space(n: usize) -> Space {
    let tg = tags(n);
    let mut ivs: Vec<Iv> = vec![None];
    for (i, a) in ENDS.iter().enumerate() {
        for b in &ENDS[i + 1..] {
            ivs.push(Some((*a, *b)));
        }
    }
    let boxes: Vec<Vec<Iv>> = if n == 1 {
        ivs.iter().map(|x| vec![*x]).collect()
    } else {
        ivs.iter().flat_map(|x| ivs.iter().map(move |y| vec![*x, *y])).collect()
    };
    let mut shapes = vec![];
    for b in &boxes {
        shapes.push((vec![b.clone()], vec![nbox(&tg, b, true)], own_mask(n, b)));
    }
    let n_single = shapes.len();
    for i in 0..boxes.len() {
        for j in i + 1..boxes.len() {
            shapes.push((
                vec![boxes[i].clone(), boxes[j].clone()],
                vec![nbox(&tg, &boxes[i], true), nbox(&tg, &boxes[j], true)],
                own_mask(n, &boxes[i]) | own_mask(n, &boxes[j]),
            ));
        }
    }
    Space {
        n,
        tags: tg,
        shapes,
        n_single,
    }
}

/// Open-ended construction equals the explicit one for every interval touching -1 / +1.
fn check_open_ends(cls: &mut Classes) -> u64 {
    let tg = tags(2);
    let mut n = 0;
    for (i, a) in ENDS.iter().enumerate() {
        for b in &ENDS[i + 1..] {
            if *a == -1.0 || *b == 1.0 {
                n += 1;
                let ivs = vec![Some((*a, *b)), None];
                let (x, y) = (nbox(&tg, &ivs, true), nbox(&tg, &ivs, false));
                if x != y {
                    cls.add("open-ended-box-differs", (1, 0, 1, 1, n), || {
                        (
                            format!("NBox::insert with an open end gives {x:?}, with the explicit end {y:?}"),
                            json!({"open_end_interval": [a, b]}),
                        )
                    });
                }
            }
        }
    }
    n
}

#[derive(Clone, Copy, PartialEq, Debug)]
enum Pos {
    Single,
    Any,
}

struct Level {
    name: &'static str,
    axes: usize,
    pos: Vec<Pos>,
    maps: Vec<Vec<usize>>,
}

fn all_map_tuples(k: usize) -> Vec<Vec<usize>> {
    let mut v = vec![vec![]];
    for _ in 0..k {
        v = v
            .into_iter()
            .flat_map(|t: Vec<usize>| {
                (0..MAPS.len()).map(move |m| {
                    let mut t = t.clone();
                    t.push(m);
                    t
                })
            })
            .collect();
    }
    v
}

/// Ordered pairs covering every relation between two maps of the alphabet.
fn curated_pairs() -> Vec<Vec<usize>> {
    [[0, 0], [0, 2], [0, 1], [3, 1], [0, 3], [1, 0], [3, 0], [1, 3], [2, 4], [3, 4]]
        .iter()
        .map(|p| p.to_vec())
        .collect()
}

/// Ordered triples: identical first/third map around a conflicting or unrelated second one,
/// all-different, all-conflicting, subset/superset mixes.
fn curated_triples() -> Vec<Vec<usize>> {
    [
        [0, 2, 4], [0, 1, 0], [1, 0, 3], [0, 1, 3], [2, 4, 3], [0, 2, 0], [3, 1, 0], [0, 0, 1],
    ]
    .iter()
    .map(|p| p.to_vec())
    .collect()
}

fn levels(tier: Tier) -> Vec<Level> {
    use Pos::*;
    let mut v = vec![
        Level { name: "1 axis, 1 rule", axes: 1, pos: vec![Any], maps: all_map_tuples(1) },
        Level { name: "1 axis, 2 rules", axes: 1, pos: vec![Any, Any], maps: all_map_tuples(2) },
        Level { name: "2 axes, 1 rule", axes: 2, pos: vec![Any], maps: all_map_tuples(1) },
        Level { name: "2 axes, 2 one-box rules", axes: 2, pos: vec![Single, Single], maps: all_map_tuples(2) },
    ];
    match tier {
        Tier::Quick => {
            // the first curated tuples only: ~1.4*10^7 lists, about 80 core-seconds
            v.push(Level { name: "1 axis, 3 rules", axes: 1, pos: vec![Any, Any, Any], maps: curated_triples()[..4].to_vec() });
            v.push(Level { name: "2 axes, two-box rule then one-box rule", axes: 2, pos: vec![Any, Single], maps: curated_pairs()[..3].to_vec() });
            v.push(Level { name: "2 axes, one-box rule then two-box rule", axes: 2, pos: vec![Single, Any], maps: curated_pairs()[..3].to_vec() });
            v.push(Level { name: "2 axes, 3 one-box rules", axes: 2, pos: vec![Single, Single, Single], maps: curated_triples()[..4].to_vec() });
        }
        Tier::Thorough => {
            v.push(Level { name: "1 axis, 3 rules", axes: 1, pos: vec![Any, Any, Any], maps: all_map_tuples(3) });
            v.push(Level { name: "2 axes, 2 rules of 1-2 boxes", axes: 2, pos: vec![Any, Any], maps: curated_pairs() });
            v.push(Level { name: "2 axes, 3 one-box rules", axes: 2, pos: vec![Single, Single, Single], maps: all_map_tuples(3) });
            v.push(Level { name: "2 axes, 3 rules, first of 1-2 boxes", axes: 2, pos: vec![Any, Single, Single], maps: curated_triples()[..4].to_vec() });
            v.push(Level { name: "2 axes, 3 rules, last of 1-2 boxes", axes: 2, pos: vec![Single, Single, Any], maps: curated_triples()[..4].to_vec() });
        }
    }
    v
}

fn run_level(sp: &Space, lv: &Level, cls: &mut Classes) -> (Counts, Vec<Value>, BTreeMap<&'static str, u64>) {
    let k = lv.pos.len();
    let lim: Vec<usize> = lv
        .pos
        .iter()
        .map(|p| if *p == Pos::Single { sp.n_single } else { sp.shapes.len() })
        .collect();
    // tasks: the first rule's shape (and for long levels also a slice of the second's)
    let split2 = if k >= 2 && lim[0] < 256 { 4 } else { 1 };
    let ntasks = lim[0] * split2;
    let results = vcore::par_for(ntasks, vcore::ncores(), |t| {
        let (r0, part) = (t / split2, t % split2);
        let mut cnt = Counts::default();
        let mut cls = Classes::default();
        let mut samples = vec![];
        let mut idx = vec![0usize; k];
        idx[0] = r0;
        let rest: u64 = lim[1..].iter().map(|x| *x as u64).product::<u64>() * lv.maps.len() as u64;
        let mut seq = r0 as u64 * rest;
        'outer: loop {
            if k < 2 || idx[1] % split2 == part {
                for mt in &lv.maps {
                    let rules: Vec<Rule> = idx
                        .iter()
                        .zip(mt)
                        .map(|(ri, mi)| {
                            let s = &sp.shapes[*ri];
                            Rule { ivs: &s.0, boxes: &s.1, mask: s.2, map: MAPS[*mi] }
                        })
                        .collect();
                    let refs: Vec<&Rule> = rules.iter().collect();
                    let before = cnt.nontrivial;
                    let v = check_case(sp.n, &sp.tags, &refs, &mut cnt);
                    if v.precedence.is_some() {
                        // a region as the function normalises it: whole-axis intervals dropped, boxes sorted
                        let norm = |r: &Rule| -> Vec<String> {
                            let mut b: Vec<String> = r
                                .ivs
                                .iter()
                                .map(|b| format!("{:?}", b.iter().map(|iv| iv.filter(|x| *x != (-1.0, 1.0))).collect::<Vec<_>>()))
                                .collect();
                            b.sort();
                            b
                        };
                        let mut same_map = false;
                        let mut same_region = false;
                        for i in 0..k {
                            for j in i + 1..k {
                                same_map |= refs[i].map == refs[j].map;
                                same_region |= norm(refs[i]) == norm(refs[j]);
                            }
                        }
                        cnt.precedence_by_shape[same_map as usize + 2 * same_region as usize] += 1;
                    }
                    if v.general.is_some() || v.precedence.is_some() {
                        record(sp.n, &refs, seq, v, &mut cls);
                    } else if samples.is_empty() && cnt.nontrivial > before && seq % 7 == 3 {
                        samples.push(json!({"level": lv.name, "input": describe(sp.n, &refs), "verdict": "held at every grid point"}));
                    }
                    seq += 1;
                }
            } else {
                seq += lv.maps.len() as u64;
            }
            // next index tuple with idx[0] fixed
            let mut j = k;
            loop {
                if j == 1 {
                    break 'outer;
                }
                j -= 1;
                idx[j] += 1;
                if idx[j] < lim[j] {
                    break;
                }
                idx[j] = 0;
            }
        }
        (cnt, cls, samples)
    });
    let mut total = Counts::default();
    let mut samples = vec![];
    let n = results.len();
    let mut failing: BTreeMap<&'static str, u64> = BTreeMap::new();
    for (i, (c, k, s)) in results.into_iter().enumerate() {
        total.add(&c);
        for (key, v) in &k.0 {
            *failing.entry(key).or_default() += v.0;
        }
        cls.merge(k);
        if (i == 0 || i == n / 2 || i == n - 1) && samples.len() < 2 {
            samples.extend(s);
        }
    }
    (total, samples, failing)
}

struct Stats {
    evaluations: u64,
    nontrivial: u64,
}

fn part_pure(rep: &mut Reporter, tier: Tier) -> Stats {
    let mut cls = Classes::default();
    let open_checked = check_open_ends(&mut cls);
    let spaces = [space(1), space(2)];
    let mut total = Counts::default();
    let mut level_notes = vec![];
    let mut samples = vec![];
    for lv in levels(tier) {
        let t = std::time::Instant::now();
        let sp = &spaces[lv.axes - 1];
        let (c, s, failing) = run_level(sp, &lv, &mut cls);
        eprintln!("[C16] level '{}': {} rule lists in {:.1}s", lv.name, c.lists, t.elapsed().as_secs_f64());
        level_notes.push(json!({
            "level": lv.name, "axes": lv.axes,
            "rule_shapes_per_position": lv.pos.iter().map(|p| if *p == Pos::Single { sp.n_single } else { sp.shapes.len() }).collect::<Vec<_>>(),
            "map_tuples": lv.maps.len(),
            "rule_lists": c.lists, "point_evaluations": c.points,
            "lists_with_overlapping_rules": c.nontrivial,
            "lists_with_same_input_conflict_at_some_point": c.conflict_lists,
            "failing_rule_lists_by_class": failing,
            "seconds": (t.elapsed().as_secs_f64() * 10.0).round() / 10.0,
        }));
        if samples.len() < 6 {
            samples.extend(s.into_iter().take(1));
        }
        total.add(&c);
    }
    let failing: BTreeMap<&str, u64> = cls.0.iter().map(|(k, v)| (*k, v.0)).collect();
    for (key, (n, _, what, replay)) in cls.0 {
        rep.violation(key, &format!("{what} [{n} rule list(s) in this class]"), replay);
    }
    rep.set("levels", level_notes);
    rep.set("rule_lists", total.lists);
    rep.set("failing_rule_lists_by_class", json!(failing));
    rep.set("lists_with_same_input_conflict_at_some_point", total.conflict_lists);
    rep.set("output_boxes", total.out_boxes);
    rep.set("max_output_boxes_per_list", total.max_out_boxes);
    rep.set("output_boxes_with_several_maps", total.multi_map_boxes);
    rep.set("panics", total.panics);
    rep.set("same_input_precedence_failures_by_list_shape", json!({
        "no_two_rules_share_map_or_region": total.precedence_by_shape[0],
        "two_rules_with_identical_maps": total.precedence_by_shape[1],
        "two_rules_with_identical_regions": total.precedence_by_shape[2],
        "both": total.precedence_by_shape[3],
    }));
    rep.set("open_ended_intervals_checked", open_checked);
    rep.set(
        "not_asserted_lists_where_content_sorted_lookup_order_would_break_precedence",
        total.content_sorted_precedence_lists,
    );
    rep.set("map_alphabet", MAPS.iter().map(map_json).collect::<Vec<_>>());
    rep.set("samples", samples);
    rep.assume("part (i) only: interval ends over {-1,-0.5,0,0.5,1}, at most 2 axes, at most 3 rules of at most 2 boxes, 5 substitution maps over {a,b,c,d}; two-box rules are unordered pairs of distinct boxes; long levels use the curated map tuples listed in the source instead of all tuples");
    rep.assume("points on box edges are not evaluated (touching boxes are legitimately disjoint): the grid is offset by 0.125 from every interval end");
    rep.assume("same-input precedence is judged on the order of the maps in the list returned for a box (the lookups of a condition set are applied in that order unless the back end reorders them); the count of lists for which sorting maps by content, as fontbe's make_substitution_lookups does, would pick another winner is evidence only here and is asserted by the font-level part");
    rep.assume("chaining (an output glyph that is another rule's input) is not given a meaning: only sets of (input, output) pairs are compared");
    Stats {
        evaluations: total.points,
        nontrivial: total.nontrivial,
    }
}

// fn part_font(rep: &mut Reporter, tier: Tier) -> Stats { ... }   // (ii): added later

fn replay(path: &Path) -> ! {
    let bad = |m: &str| -> ! { vcore::machinery_error(&format!("replay {path:?}: {m}")) };
    let text = std::fs::read_to_string(path).unwrap_or_else(|e| bad(&e.to_string()));
    let v: Value = serde_json::from_str(&text).unwrap_or_else(|e| bad(&e.to_string()));
    let want_key = v.get("key").and_then(|k| k.as_str()).map(|s| s.to_string());
    let r = v.get("replay").unwrap_or(&v);
    std::panic::set_hook(Box::new(|_| {}));
    if let Some(iv) = r.get("open_end_interval").and_then(|x| x.as_array()) {
        let ivs = vec![Some((iv[0].as_f64().unwrap_or(0.0), iv[1].as_f64().unwrap_or(0.0))), None];
        let fails = nbox(&tags(2), &ivs, true) != nbox(&tags(2), &ivs, false);
        std::process::exit(fails as i32)
    }
    let n = r.get("axes").and_then(|x| x.as_u64()).unwrap_or_else(|| bad("axes")) as usize;
    if !(1..=2).contains(&n) {
        bad("axes must be 1 or 2");
    }
    let tg = tags(n);
    let mut owned: Vec<(Vec<Vec<Iv>>, Vec<NBox>, MapArr)> = vec![];
    for rj in r.get("rules").and_then(|x| x.as_array()).unwrap_or_else(|| bad("rules")) {
        let mut ivs: Vec<Vec<Iv>> = vec![];
        for b in rj.get("boxes").and_then(|x| x.as_array()).unwrap_or_else(|| bad("boxes")) {
            let b: Vec<Iv> = b
                .as_array()
                .unwrap_or_else(|| bad("box"))
                .iter()
                .map(|iv| iv.as_array().map(|a| (a[0].as_f64().unwrap_or(-1.0), a[1].as_f64().unwrap_or(1.0))))
                .collect();
            if b.len() != n {
                bad("box arity");
            }
            ivs.push(b);
        }
        let mut map: MapArr = [None; 4];
        for (g, o) in rj.get("subs").and_then(|x| x.as_object()).unwrap_or_else(|| bad("subs")) {
            let (g, o) = (glyph_idx(g), o.as_str().and_then(glyph_idx));
            match (g, o) {
                (Some(g), Some(o)) => map[g as usize] = Some(o),
                _ => bad("glyphs must be among a,b,c,d"),
            }
        }
        let boxes: Vec<NBox> = ivs.iter().map(|b| nbox(&tg, b, true)).collect();
        owned.push((ivs, boxes, map));
    }
    if owned.is_empty() || owned.len() > 3 {
        bad("1-3 rules");
    }
    let rules: Vec<Rule> = owned
        .iter()
        .map(|(ivs, boxes, map)| Rule {
            ivs,
            boxes,
            mask: ivs.iter().map(|b| own_mask(n, b)).fold(0, |a, b| a | b),
            map: *map,
        })
        .collect();
    let refs: Vec<&Rule> = rules.iter().collect();
    let mut cnt = Counts::default();
    let vd = check_case(n, &tg, &refs, &mut cnt);
    println!("{}", describe(n, &refs));
    let mut keys = vec![];
    if let Some((k, _, m)) = &vd.general {
        println!("{k}: {m}");
        keys.push(k.to_string());
    }
    if let Some((_, m)) = &vd.precedence {
        println!("same-input-precedence: {m}");
        keys.push("same-input-precedence".to_string());
    }
    if let Some(k) = want_key {
        println!("recorded class: {k}; classes now: {keys:?}");
    }
    let fails = !keys.is_empty();
    println!("replay: the case {}", if fails { "still fails" } else { "no longer fails" });
    std::process::exit(fails as i32)
}

fn main() {
    let args = vcore::parse_args();
    if let Some(p) = &args.replay {
        replay(p);
    }
    let mut rep = Reporter::new("C16", "exploration", &args);
    let hook = std::panic::take_hook();
    std::panic::set_hook(Box::new(|_| {}));
    let pure = part_pure(&mut rep, args.tier);
    std::panic::set_hook(hook);
    // let font = part_font(&mut rep, args.tier);
    rep.set("evaluations", pure.evaluations);
    rep.set("distinct_nontrivial", pure.nontrivial);
    rep.set("rule", "evaluations = grid points judged (every point of the offset grid for every rule list; points are judged in groups that share the set of containing rules and the first containing output box). distinct_nontrivial = distinct rule lists (distinct by construction of the enumeration) in which at least two rules contain a common grid point, i.e. substitutions really have to be combined");
    rep.set("exhaustive", true);
    rep.set("parts_implemented", json!(["i: overlay_feature_variations"]));
    rep.finish()
}
