//! C20 — same design, same font through every entry point and container.
//!
//! Enumerated space (complete for the stated lists; no sampling):
//!  1. ROUTES. For every `.glyphs` fixture under /repo/resources/testdata (all are < 200 KB), every
//!     `.glyphs`/`.glyphspackage` pair there, and every generated design written by the dgen Glyphs
//!     writer (Glyphs 3 file, Glyphs 3 package, Glyphs 2 file): the font bytes of
//!        cli-file  product binary `fontc X.glyphs -o out.ttf`
//!        lib-path  `generate_font(Input::new(path).create_source(), Options::default())`
//!        lib-mem   `generate_font(Input::from_glyphs(text).create_source(), ..)`
//!        cli-pkg / lib-pkg   the same two on the `.glyphspackage`
//!     must be equal (an error on every route is agreement too).
//!  2. REFORMATTING. Every source text is parsed by an OpenStep property-list parser written here
//!     (token text of scalars preserved) and re-printed with each formatting atom alone and every
//!     compatible pair of atoms: {indent, oneline, crlf, crlf-all, keyrev, quote-max, quote-min,
//!     trailing-ws, inline-spaces} (+ the canonical re-print, + a `/* comment */` probe that is counted only).
//!     The in-memory compile of the variant must equal the in-memory compile of the original.
//!  3. UFO. For every design of a small product alphabet (glyph sets x kerning x features x lib keys):
//!     lone `font.ufo` vs a designspace that lists only that UFO: (i) designs without
//!     `public.skipExportGlyphs` (the one `public.*` key that fontc reads from the designspace lib and
//!     copies from the UFO lib only for a lone UFO, ufo2fontir/src/source.rs `skip_public_keys`);
//!     (ii) designs with the key present in the UFO lib *and* the designspace lib; (iii, counted only)
//!     the key in the UFO lib alone — the documented exemption.
//!
//! Oracle: byte equality of the whole font; on a difference the tables that differ are listed.
//! A difference is attributed to the route only if both routes are individually repeatable
//! (re-run 3x); otherwise it is C01's business and only counted here.
//!
//! `c20 validate-writer` prints the UFO-front-end vs Glyphs-front-end comparison of the generated
//! designs (validation of the dgen Glyphs writer; not a verdict).

use dgen::*;
use fontc::{Input, Options};
use serde_json::{Value, json};
use std::{
    collections::{BTreeMap, BTreeSet},
    panic::{AssertUnwindSafe, catch_unwind},
    path::{Path, PathBuf},
    sync::Mutex,
};
use vcore::{Reporter, Scratch, Tier};

// ------------------------------------------------------------------------------------------------
// compile routes

#[derive(Debug, Clone, PartialEq)]
enum Out {
    Font(Vec<u8>),
    Fail(String),
}

impl Out {
    fn brief(&self) -> String {
        match self {
            Out::Font(b) => format!("font {} bytes #{:016x}", b.len(), vcore::hash64(b)),
            Out::Fail(m) => format!("FAIL {}", m.chars().take(160).collect::<String>()),
        }
    }
}

fn lib_compile(input: Input) -> Out {
    let r = catch_unwind(AssertUnwindSafe(|| {
        let source = input.create_source().map_err(|e| e.to_string())?;
        fontc::generate_font(source, Options::default()).map_err(|e| e.to_string())
    }));
    match r {
        Ok(Ok(b)) => Out::Font(b),
        Ok(Err(e)) => Out::Fail(e),
        Err(p) => Out::Fail(format!("panic: {}", fcx::panic_message(p))),
    }
}

fn lib_path(p: &Path) -> Out {
    match Input::new(p) {
        Ok(i) => lib_compile(i),
        Err(e) => Out::Fail(e.to_string()),
    }
}

fn lib_mem(text: &str) -> Out {
    lib_compile(Input::from_glyphs(text.to_string()))
}

static DEFAULT_POOL: std::sync::atomic::AtomicBool = std::sync::atomic::AtomicBool::new(false);

fn cli(p: &Path) -> Out {
    let sc = Scratch::new("c20cli");
    let out = sc.join("out.ttf");
    let mut cmd = vcore::fontc_cmd(&vcore::fontc_bin(), None);
    // 16 of these run side by side: keep each one's pool small (the pool size does not change what is
    // compiled; C01 owns thread-count independence)
    if !DEFAULT_POOL.load(std::sync::atomic::Ordering::Relaxed) {
        cmd.env("RAYON_NUM_THREADS", "2");
    }
    cmd.current_dir(sc.path()).arg(p).arg("-o").arg(&out);
    let r = vcore::run_proc(&mut cmd, 120_000, None);
    if r.code == Some(0) {
        match std::fs::read(&out) {
            Ok(b) => Out::Font(b),
            Err(e) => Out::Fail(format!("exit 0 but no output: {e}")),
        }
    } else {
        Out::Fail(format!("{}: {}", r.summary(), r.stderr.lines().last().unwrap_or("")))
    }
}

// ------------------------------------------------------------------------------------------------
// sfnt table-level comparison

fn tables(b: &[u8]) -> BTreeMap<String, &[u8]> {
    let mut m = BTreeMap::new();
    if b.len() < 12 {
        return m;
    }
    let n = u16::from_be_bytes([b[4], b[5]]) as usize;
    for i in 0..n {
        let Some(r) = b.get(12 + 16 * i..28 + 16 * i) else { break };
        let tag = String::from_utf8_lossy(&r[0..4]).to_string();
        let off = u32::from_be_bytes([r[8], r[9], r[10], r[11]]) as usize;
        let len = u32::from_be_bytes([r[12], r[13], r[14], r[15]]) as usize;
        if let Some(s) = b.get(off..off + len) {
            m.insert(tag, s);
        }
    }
    m
}

/// (short list of differing tags for the key, detail with lengths)
fn table_diff(a: &[u8], b: &[u8]) -> (String, String) {
    let (ta, tb) = (tables(a), tables(b));
    let tags: BTreeSet<&String> = ta.keys().chain(tb.keys()).collect();
    let mut short = vec![];
    let mut long = vec![];
    for t in tags {
        match (ta.get(t), tb.get(t)) {
            (Some(x), Some(y)) if x == y => {}
            (Some(x), Some(y)) => {
                // head differs only by checkSumAdjustment when another table differs: not worth naming
                if t == "head" && x.len() == y.len() && x.len() >= 12 && x[..8] == y[..8] && x[12..] == y[12..] {
                    continue;
                }
                short.push(t.trim().to_string());
                long.push(format!("{}({}/{})", t.trim(), x.len(), y.len()));
            }
            (Some(x), None) => {
                short.push(format!("-{}", t.trim()));
                long.push(format!("{}({}/absent)", t.trim(), x.len()));
            }
            (None, Some(y)) => {
                short.push(format!("+{}", t.trim()));
                long.push(format!("{}(absent/{})", t.trim(), y.len()));
            }
            (None, None) => {}
        }
    }
    if short.is_empty() {
        short.push("layout-only".into());
        long.push(format!("same tables, different file layout ({} / {} bytes)", a.len(), b.len()));
    }
    (short.join("+"), long.join(" "))
}

/// Replace the version stamp of the CLI build by the library build's, when they differ and have
/// the same length (UTF-16BE in `name`), and fix nothing else; returns None if not possible.
fn blank_stamp(font: &[u8], from: &str, to: &str) -> Option<Vec<u8>> {
    if from.len() != to.len() {
        return None;
    }
    let enc = |s: &str| -> Vec<u8> { s.encode_utf16().flat_map(|u| u.to_be_bytes()).collect() };
    let (f, t) = (enc(from), enc(to));
    let mut out = font.to_vec();
    let mut i = 0;
    while i + f.len() <= out.len() {
        if out[i..i + f.len()] == f[..] {
            out[i..i + f.len()].copy_from_slice(&t);
            i += f.len();
        } else {
            i += 1;
        }
    }
    Some(out)
}

// ------------------------------------------------------------------------------------------------
// a small OpenStep (ASCII) property-list parser / printer that keeps scalar token text

#[derive(Debug, Clone, PartialEq)]
enum Tok {
    /// unquoted token text
    Bare(String),
    /// the text between the quotes, escapes untouched
    Quoted(String),
    /// `<...>` data, verbatim including the brackets
    Data(String),
}

#[derive(Debug, Clone, PartialEq)]
enum Node {
    Scalar(Tok),
    Array { items: Vec<Node>, inline: bool },
    Dict(Vec<(Tok, Node)>),
}

struct P<'a> {
    s: &'a [u8],
    i: usize,
}

impl<'a> P<'a> {
    fn ws(&mut self) {
        while self.i < self.s.len() && matches!(self.s[self.i], b' ' | b'\t' | b'\r' | b'\n') {
            self.i += 1;
        }
    }
    fn peek(&mut self) -> Option<u8> {
        self.ws();
        self.s.get(self.i).copied()
    }
    fn eat(&mut self, c: u8) -> Result<(), String> {
        if self.peek() == Some(c) {
            self.i += 1;
            Ok(())
        } else {
            Err(format!("expected '{}' at byte {}", c as char, self.i))
        }
    }
    fn scalar(&mut self) -> Result<Tok, String> {
        match self.peek() {
            Some(b'"') => {
                let start = self.i + 1;
                let mut j = start;
                while j < self.s.len() {
                    match self.s[j] {
                        b'\\' => j += 2,
                        b'"' => {
                            let t = String::from_utf8_lossy(&self.s[start..j]).to_string();
                            self.i = j + 1;
                            return Ok(Tok::Quoted(t));
                        }
                        _ => j += 1,
                    }
                }
                Err("unterminated string".into())
            }
            Some(b'<') => {
                let start = self.i;
                let end = self.s[start..].iter().position(|c| *c == b'>').ok_or("unterminated data")?;
                self.i = start + end + 1;
                Ok(Tok::Data(String::from_utf8_lossy(&self.s[start..self.i]).to_string()))
            }
            Some(_) => {
                let start = self.i;
                while self.i < self.s.len()
                    && !matches!(
                        self.s[self.i],
                        b' ' | b'\t' | b'\r' | b'\n' | b'{' | b'}' | b'(' | b')' | b'=' | b';' | b',' | b'"' | b'<' | b'>'
                    )
                {
                    self.i += 1;
                }
                if self.i == start {
                    return Err(format!("unexpected '{}' at byte {}", self.s[start] as char, start));
                }
                Ok(Tok::Bare(String::from_utf8_lossy(&self.s[start..self.i]).to_string()))
            }
            None => Err("unexpected end".into()),
        }
    }
    fn value(&mut self) -> Result<Node, String> {
        match self.peek() {
            Some(b'{') => {
                self.i += 1;
                let mut d = vec![];
                loop {
                    if self.peek() == Some(b'}') {
                        self.i += 1;
                        return Ok(Node::Dict(d));
                    }
                    let k = self.scalar()?;
                    self.eat(b'=')?;
                    let v = self.value()?;
                    self.eat(b';')?;
                    d.push((k, v));
                }
            }
            Some(b'(') => {
                let open = self.i;
                self.i += 1;
                let mut items = vec![];
                loop {
                    if self.peek() == Some(b')') {
                        self.i += 1;
                        break;
                    }
                    items.push(self.value()?);
                    match self.peek() {
                        Some(b',') => self.i += 1,
                        Some(b')') => {}
                        _ => return Err(format!("expected ',' or ')' at byte {}", self.i)),
                    }
                }
                let inline = !self.s[open..self.i].contains(&b'\n');
                Ok(Node::Array { items, inline })
            }
            _ => Ok(Node::Scalar(self.scalar()?)),
        }
    }
}

fn parse_plist(text: &str) -> Result<Node, String> {
    let mut p = P { s: text.as_bytes(), i: 0 };
    let v = p.value()?;
    p.ws();
    if p.i != p.s.len() {
        return Err(format!("trailing content at byte {}", p.i));
    }
    Ok(v)
}

#[derive(Debug, Clone, Copy, PartialEq, Eq, PartialOrd, Ord, Hash)]
enum Atom {
    Indent,
    Oneline,
    Crlf,
    CrlfAll,
    KeyRev,
    QuoteMax,
    QuoteMin,
    Trailing,
    InlineSpaces,
}

const ATOMS: [Atom; 9] = [
    Atom::Indent,
    Atom::Oneline,
    Atom::Crlf,
    Atom::CrlfAll,
    Atom::KeyRev,
    Atom::QuoteMax,
    Atom::QuoteMin,
    Atom::Trailing,
    Atom::InlineSpaces,
];

impl Atom {
    fn name(self) -> &'static str {
        match self {
            Atom::Indent => "indent",
            Atom::Oneline => "oneline",
            Atom::Crlf => "crlf",
            Atom::CrlfAll => "crlf-all",
            Atom::KeyRev => "keyrev",
            Atom::QuoteMax => "quote-max",
            Atom::QuoteMin => "quote-min",
            Atom::Trailing => "trailing-ws",
            Atom::InlineSpaces => "inline-spaces",
        }
    }
    fn from_name(s: &str) -> Option<Atom> {
        ATOMS.iter().copied().find(|a| a.name() == s)
    }
    /// atoms of the same dimension exclude each other; `oneline` leaves no structural line ends for
    /// `crlf` / `trailing-ws` to act on
    fn compatible(self, o: Atom) -> bool {
        use Atom::*;
        let dim = |a: Atom| match a {
            Indent | Oneline => 0,
            Crlf | CrlfAll => 1,
            KeyRev => 2,
            QuoteMax | QuoteMin => 3,
            Trailing => 4,
            InlineSpaces => 5,
        };
        if dim(self) == dim(o) {
            return false;
        }
        let pair = |a, b| (self == a && o == b) || (self == b && o == a);
        !(pair(Oneline, Crlf) || pair(Oneline, Trailing))
    }
    /// Is a *rejection* of this variant by the reader a violation? Whitespace (space, tab, CR, LF
    /// between tokens is what the reader's `skip_ws` documents) and key order: yes. Quoting
    /// changes, the one-line layout and blanks inside one-line lists (which defeat the line-based
    /// `unicode` pre-pass that the reader documents) are counted only.
    fn rejection_judged(self) -> bool {
        matches!(self, Atom::Indent | Atom::Crlf | Atom::KeyRev | Atom::Trailing)
    }
}

/// may this quoted text be written bare? (the classic OpenStep bare-word set minus the characters
/// Glyphs.app itself always quotes: letters, digits, `_` and `.` only)
fn unquotable(s: &str) -> bool {
    !s.is_empty() && s.bytes().all(|b| b.is_ascii_alphanumeric() || b == b'_' || b == b'.')
}

struct Printer {
    atoms: Vec<Atom>,
    out: String,
}

impl Printer {
    fn has(&self, a: Atom) -> bool {
        self.atoms.contains(&a)
    }
    fn tok(&mut self, t: &Tok) {
        match t {
            Tok::Bare(s) => {
                if self.has(Atom::QuoteMax) {
                    self.out.push('"');
                    self.out.push_str(s);
                    self.out.push('"');
                } else {
                    self.out.push_str(s);
                }
            }
            Tok::Quoted(s) => {
                if self.has(Atom::QuoteMin) && unquotable(s) {
                    self.out.push_str(s);
                } else {
                    self.out.push('"');
                    self.out.push_str(s);
                    self.out.push('"');
                }
            }
            Tok::Data(s) => self.out.push_str(s),
        }
    }
    fn nl(&mut self, depth: usize) {
        if self.has(Atom::Oneline) {
            self.out.push(' ');
            return;
        }
        if self.has(Atom::Trailing) {
            self.out.push_str(" \t ");
        }
        if self.has(Atom::Crlf) {
            self.out.push('\r');
        }
        self.out.push('\n');
        if self.has(Atom::Indent) {
            for _ in 0..depth {
                self.out.push_str("\t  ");
            }
        }
    }
    fn node(&mut self, n: &Node, depth: usize) {
        match n {
            Node::Scalar(t) => self.tok(t),
            Node::Array { items, inline: true } => {
                let sp = self.has(Atom::InlineSpaces);
                self.out.push('(');
                if sp {
                    self.out.push(' ');
                }
                for (i, v) in items.iter().enumerate() {
                    if i > 0 {
                        self.out.push_str(if sp { " , " } else { "," });
                    }
                    self.node(v, depth + 1);
                }
                if sp {
                    self.out.push(' ');
                }
                self.out.push(')');
            }
            Node::Array { items, inline: false } => {
                self.out.push('(');
                for (i, v) in items.iter().enumerate() {
                    self.nl(depth + 1);
                    self.node(v, depth + 1);
                    if i + 1 < items.len() {
                        self.out.push(',');
                    }
                }
                self.nl(depth);
                self.out.push(')');
            }
            Node::Dict(d) => {
                self.out.push('{');
                let order: Vec<usize> = if self.has(Atom::KeyRev) {
                    (0..d.len()).rev().collect()
                } else {
                    (0..d.len()).collect()
                };
                for i in order {
                    let (k, v) = &d[i];
                    self.nl(depth + 1);
                    self.tok(k);
                    self.out.push_str(" = ");
                    self.node(v, depth + 1);
                    self.out.push(';');
                }
                self.nl(depth);
                self.out.push('}');
            }
        }
    }
}

fn reprint(tree: &Node, atoms: &[Atom]) -> String {
    let mut p = Printer { atoms: atoms.to_vec(), out: String::new() };
    p.node(tree, 0);
    p.nl(0);
    let mut s = p.out;
    if atoms.contains(&Atom::CrlfAll) {
        s = s.replace("\r\n", "\n").replace('\n', "\r\n");
    }
    s
}

fn variant_name(atoms: &[Atom]) -> String {
    if atoms.is_empty() {
        "canonical".into()
    } else {
        atoms.iter().map(|a| a.name()).collect::<Vec<_>>().join("+")
    }
}

fn all_variants() -> Vec<Vec<Atom>> {
    let mut v: Vec<Vec<Atom>> = vec![vec![]];
    for a in ATOMS {
        v.push(vec![a]);
    }
    for (i, a) in ATOMS.iter().enumerate() {
        for b in &ATOMS[i + 1..] {
            if a.compatible(*b) {
                v.push(vec![*a, *b]);
            }
        }
    }
    v
}

/// `/* c */` after the first token: the reader has no comment syntax (counted, not judged)
fn with_comment(text: &str) -> String {
    match text.find('{') {
        Some(i) => format!("{} /* c */{}", &text[..=i], &text[i + 1..]),
        None => text.to_string(),
    }
}

// ------------------------------------------------------------------------------------------------
// generated designs

fn rect_layer(adv: f64, x0: f64, y0: f64, x1: f64, y1: f64) -> Layer {
    Layer { advance: adv, contours: vec![shapes::rect(x0, y0, x1, y1)], ..Default::default() }
}

#[derive(Debug, Clone, Copy, PartialEq)]
struct Toggles {
    axes: usize, // 0,1,2
    composite: bool,
    anchors: bool,
    kerning: u8, // 0 none, 1 glyph pair, 2 group pair (+glyph pair)
    intermediate: bool,
    features: bool,
    nonexport: bool,
    order: bool,
    curves: bool,
    axis_map: bool,
    instances: bool,
    odd_names: bool,
}

impl Toggles {
    fn name(&self) -> String {
        format!(
            "ax{}{}{}k{}{}{}{}{}{}{}{}{}",
            self.axes,
            if self.composite { "C" } else { "" },
            if self.anchors { "A" } else { "" },
            self.kerning,
            if self.intermediate { "I" } else { "" },
            if self.features { "F" } else { "" },
            if self.nonexport { "X" } else { "" },
            if self.order { "O" } else { "" },
            if self.curves { "Q" } else { "" },
            if self.axis_map { "M" } else { "" },
            if self.instances { "N" } else { "" },
            if self.odd_names { "W" } else { "" },
        )
    }
}

fn gen_design(t: &Toggles) -> Design {
    let mut axes = vec![];
    let mut locs: Vec<Vec<f64>> = vec![vec![]];
    if t.axes >= 1 {
        let mut a = Axis::new("wght", "Weight", 400.0, 400.0, 700.0);
        if t.axis_map {
            // user 400..700 -> design 80..200, bent at 500
            a.map = vec![(400.0, 80.0), (500.0, 100.0), (700.0, 200.0)];
        }
        let (lo, hi) = (a.design_min(), a.design_max());
        axes.push(a);
        locs = vec![vec![lo], vec![hi]];
    }
    if t.axes >= 2 {
        axes.push(Axis::new("wdth", "Width", 50.0, 100.0, 100.0));
        let (lo, hi) = (locs[0][0], locs[1][0]);
        // default is wght lo / wdth 100
        locs = vec![vec![lo, 100.0], vec![hi, 100.0], vec![lo, 50.0], vec![hi, 50.0]];
    }
    let mut d = Design::skeleton(&format!("Gen {}", t.name()), axes, locs.clone());
    let nm = locs.len();
    let hi0 = if t.axes >= 1 { d.axes[0].design_max() } else { 0.0 };
    // a per-master "boldness" 0..3 so that all masters differ
    let bold: Vec<f64> = locs
        .iter()
        .map(|l| {
            let w = if t.axes >= 1 && l[0] == hi0 { 1.0 } else { 0.0 };
            let n = if t.axes >= 2 && l[1] == 50.0 { 2.0 } else { 0.0 };
            w + n
        })
        .collect();
    let k = |m: usize| -> f64 { bold[m] };
    let a_name = if t.odd_names { "A-1" } else { "A" };
    let mut ga = Glyph::new(a_name, &[0x41]);
    let mut gb = Glyph::new("B", &[0x42, 0x62]);
    let mut gacc = Glyph::new("acutecomb", &[0x301]);
    let mut gcomp = Glyph::new("Aacute", &[0xC1]);
    let mut ghid = Glyph::new("_part.hidden", &[]);
    let mut gsp = Glyph::new("space", &[0x20]);
    let mut gq = Glyph::new("O", &[0x4F]);
    let mut ginf = Glyph::new("infinity", &[0x221E]);
    for m in 0..nm {
        let b = k(m);
        let mut la = rect_layer(600.0 + 20.0 * b, 50.0, 0.0, 250.0 + 30.0 * b, 700.0);
        la.contours.push(shapes::triangle(300.0, 0.0, 200.0 + 10.0 * b, 500.0));
        if t.anchors {
            la.anchors.push(Anchor { name: "top".into(), x: 150.0 + 15.0 * b, y: 700.0 });
            la.anchors.push(Anchor { name: "bottom".into(), x: 150.0 + 15.0 * b, y: 0.0 });
        }
        ga.layers.insert(m, la);
        gb.layers.insert(m, rect_layer(500.0 + 40.0 * b, 40.0, -10.0, 300.0 + 25.0 * b, 710.0));
        let mut lacc = rect_layer(0.0, -60.0 - 5.0 * b, 720.0, 60.0 + 5.0 * b, 800.0);
        if t.anchors {
            lacc.anchors.push(Anchor { name: "_top".into(), x: 0.0, y: 700.0 });
        }
        gacc.layers.insert(m, lacc);
        gcomp.layers.insert(
            m,
            Layer {
                advance: 600.0 + 20.0 * b,
                components: vec![Component::at(a_name, 0.0, 0.0), Component::at("acutecomb", 150.0 + 15.0 * b, 30.0)],
                ..Default::default()
            },
        );
        ghid.layers.insert(m, rect_layer(300.0, 0.0, 0.0, 100.0 + 10.0 * b, 100.0));
        gsp.layers.insert(m, Layer { advance: 250.0 + 10.0 * b, ..Default::default() });
        let mut lq = Layer { advance: 700.0, ..Default::default() };
        lq.contours.push(shapes::cubic_blob(350.0, 350.0, 300.0 + 10.0 * b));
        lq.contours.push(shapes::quad_blob(350.0, 350.0, 100.0 + 5.0 * b));
        // transformed components: scale, 90 degree rotation (a skewed matrix has no Glyphs 3 spelling)
        lq.components.push(Component { base: "B".into(), xform: [0.5, 0.0, 0.0, 0.25, 10.0, 20.0 + b] });
        lq.components.push(Component { base: "B".into(), xform: [0.0, 1.0, -1.0, 0.0, 600.0, 0.0] });
        gq.layers.insert(m, lq);
        ginf.layers.insert(m, rect_layer(800.0, 10.0, 200.0, 790.0 - b, 400.0));
    }
    if t.intermediate && t.axes >= 1 {
        // a sparse layer half-way along the first axis, hosted by the default master, for A only
        let (lo, hi) = (d.axes[0].design_min(), d.axes[0].design_max());
        let mut loc = d.masters[d.default_master].loc.clone();
        loc[0] = (lo + hi) / 2.0;
        let li = d.add_layer_master(d.default_master, loc);
        let mut la = rect_layer(640.0, 50.0, 0.0, 300.0, 700.0);
        la.contours.push(shapes::triangle(300.0, 0.0, 202.0, 500.0));
        if t.anchors {
            la.anchors.push(Anchor { name: "top".into(), x: 170.0, y: 700.0 });
            la.anchors.push(Anchor { name: "bottom".into(), x: 170.0, y: 0.0 });
        }
        ga.layers.insert(li, la);
    }
    d.glyphs.push(gsp);
    d.glyphs.push(ga);
    d.glyphs.push(gb);
    if t.composite {
        d.glyphs.push(gacc);
        d.glyphs.push(gcomp);
    }
    if t.nonexport {
        ghid.export = false;
        d.glyphs.push(ghid);
    }
    if t.curves {
        d.glyphs.push(gq);
    }
    if t.odd_names {
        d.glyphs.push(ginf);
    }
    if t.kerning > 0 {
        for m in 0..nm {
            let b = k(m);
            let ms = &mut d.masters[m];
            ms.kerning.insert((a_name.to_string(), "B".into()), -40.0 - 10.0 * b);
            if t.kerning > 1 {
                ms.groups.insert("public.kern1.Agrp".into(), vec![a_name.to_string()]);
                ms.groups.insert("public.kern2.Bgrp".into(), vec!["B".into()]);
                ms.kerning.insert(("public.kern1.Agrp".into(), "public.kern2.Bgrp".into()), -25.0 + 5.0 * b);
                ms.kerning.insert(("B".into(), "public.kern2.Bgrp".into()), 12.0 + b);
            }
        }
    }
    if t.features {
        d.features_fea = Some(format!(
            "languagesystem DFLT dflt;\nlanguagesystem latn dflt;\n\nfeature ss01 {{\n    sub {a_name} by B;\n}} ss01;\n"
        ));
    }
    if t.order {
        let mut o: Vec<String> = d.glyphs.iter().map(|g| g.name.clone()).collect();
        o.reverse();
        d.glyph_order = Some(o);
    }
    if t.instances && t.axes >= 1 {
        let mk = |style: &str, u: f64, d: &Design| Instance {
            family: None,
            style: style.into(),
            ps_name: None,
            user_loc: d.axes.iter().enumerate().map(|(i, a)| if i == 0 { u } else { a.default }).collect(),
        };
        let i1 = mk("Regular", 400.0, &d);
        let i2 = mk("Medium", 500.0, &d);
        let i3 = mk("Bold", 700.0, &d);
        d.instances = vec![i1, i2, i3];
    }
    d
}

fn design_list(tier: Tier) -> Vec<Toggles> {
    let base = Toggles {
        axes: 0,
        composite: false,
        anchors: false,
        kerning: 0,
        intermediate: false,
        features: false,
        nonexport: false,
        order: false,
        curves: false,
        axis_map: false,
        instances: false,
        odd_names: false,
    };
    let mut v = vec![
        base,
        Toggles { axes: 1, composite: true, anchors: true, kerning: 1, ..base },
        Toggles { axes: 1, composite: true, anchors: true, kerning: 1, intermediate: true, ..base },
        Toggles { axes: 2, kerning: 2, axis_map: true, instances: true, ..base },
        Toggles { axes: 0, kerning: 2, features: true, nonexport: true, order: true, ..base },
        Toggles { axes: 1, curves: true, odd_names: true, composite: true, ..base },
        Toggles { axes: 1, features: true, kerning: 2, nonexport: true, order: true, intermediate: true, anchors: true, composite: true, instances: true, ..base },
        Toggles { axes: 0, curves: true, odd_names: true, anchors: true, composite: true, ..base },
    ];
    if tier == Tier::Thorough {
        // the full product of the toggles that interact with containers / quoting / ordering
        v.clear();
        for axes in 0..3usize {
            for bits in 0..128u32 {
                let b = |i: u32| bits & (1 << i) != 0;
                v.push(Toggles {
                    axes,
                    composite: b(0),
                    anchors: b(0),
                    kerning: if b(1) { 2 } else if b(2) { 1 } else { 0 },
                    intermediate: b(3) && axes > 0,
                    features: b(2),
                    nonexport: b(4),
                    order: b(4),
                    curves: b(5),
                    axis_map: b(6) && axes > 0,
                    instances: b(6) && axes > 0,
                    odd_names: b(5),
                });
            }
        }
        v.dedup();
        let mut seen = BTreeSet::new();
        v.retain(|t| seen.insert(t.name()));
    }
    v
}

// ------------------------------------------------------------------------------------------------
// UFO designs

#[derive(Debug, Clone, Copy)]
struct UfoCase {
    nglyphs: usize, // 1..3
    kerning: u8,    // 0,1,2
    features: bool,
    lib: u8, // 0 none, 1 skipExport (a non-export glyph), 2 glyphOrder, 3 categories + postscriptNames + a private key,
    // 4 / 5 public.glyphOrder followed by the ufo2ft filters key (flattenComponents / decomposeTransformedComponents) and a nested, transformed composite
    /// thorough only: a composite glyph with anchors / extra fontinfo entries
    composite: bool,
    info: bool,
}

fn ufo_cases(tier: Tier) -> Vec<UfoCase> {
    let mut v = vec![];
    let extra: &[(bool, bool)] = match tier {
        Tier::Quick => &[(false, false)],
        Tier::Thorough => &[(false, false), (true, false), (false, true), (true, true)],
    };
    for nglyphs in 1..=3 {
        for kerning in 0..3u8 {
            for features in [false, true] {
                for lib in 0..6u8 {
                    for (composite, info) in extra {
                        v.push(UfoCase { nglyphs, kerning, features, lib, composite: *composite, info: *info });
                    }
                }
            }
        }
    }
    v
}

fn ufo_design(c: &UfoCase) -> Design {
    // norad cannot load a designspace whose sources have no <dimension>, so (as the repo's static
    // fixtures do) the design has one point axis; the lone UFO is the same master written alone
    let mut d = Design::skeleton(
        &format!("U{}{}{}{}{}{}", c.nglyphs, c.kerning, c.features as u8, c.lib, c.composite as u8, c.info as u8),
        vec![Axis::new("wght", "Weight", 400.0, 400.0, 400.0)],
        vec![vec![400.0]],
    );
    let names = ["A", "B", "acutecomb"];
    let cps = [0x41u32, 0x42, 0x301];
    for i in 0..c.nglyphs {
        let mut g = Glyph::new(names[i], &[cps[i]]);
        g.layers.insert(0, rect_layer(500.0 + 50.0 * i as f64, 20.0, 0.0, 300.0 + 10.0 * i as f64, 600.0 + i as f64));
        d.glyphs.push(g);
    }
    if c.kerning >= 1 {
        let second = names[(c.nglyphs - 1).min(1)];
        d.masters[0].kerning.insert(("A".into(), second.into()), -30.0);
        if c.kerning >= 2 {
            d.masters[0].groups.insert("public.kern1.L".into(), vec!["A".into()]);
            d.masters[0].groups.insert("public.kern2.R".into(), vec![second.into()]);
            d.masters[0].kerning.insert(("public.kern1.L".into(), "public.kern2.R".into()), -55.0);
        }
    }
    if c.features {
        let tgt = names[c.nglyphs - 1];
        d.features_fea = Some(format!("languagesystem DFLT dflt;\nfeature ss01 {{ sub A by {tgt}; }} ss01;\n"));
    }
    if c.composite {
        d.glyph_mut("A").unwrap().layers.get_mut(&0).unwrap().anchors.push(Anchor { name: "top".into(), x: 160.0, y: 600.0 });
        let mut g = Glyph::new("Agrave", &[0xC0]);
        g.layers.insert(
            0,
            Layer { advance: 500.0, components: vec![Component::at("A", 0.0, 0.0), Component::at("A", 20.0, 30.0)], ..Default::default() },
        );
        d.glyphs.push(g);
    }
    if c.info {
        d.masters[0].info.extra.push(("openTypeOS2TypoLineGap".into(), plist::Plist::Int(90)));
        d.masters[0].info.extra.push(("openTypeNameDesigner".into(), plist::Plist::s("D. Signer")));
        d.masters[0].info.extra.push(("versionMajor".into(), plist::Plist::Int(2)));
        d.masters[0].info.extra.push(("versionMinor".into(), plist::Plist::Int(5)));
    }
    match c.lib {
        1 => {
            let mut g = Glyph::new("hidden", &[]);
            g.export = false;
            g.layers.insert(0, rect_layer(100.0, 0.0, 0.0, 50.0, 50.0));
            d.glyphs.push(g);
            d.write_skip_export = true;
        }
        2 => {
            let mut o: Vec<String> = d.glyphs.iter().map(|g| g.name.clone()).collect();
            o.reverse();
            d.glyph_order = Some(o);
        }
        3 => {
            for (i, g) in d.glyphs.iter().enumerate() {
                d.categories.insert(g.name.clone(), if g.name == "acutecomb" { "mark" } else { "base" }.into());
                d.postscript_names.insert(g.name.clone(), format!("uni{:04X}", cps[i.min(2)]));
            }
            d.lib_extra.push(("com.example.private".into(), plist::Plist::s("x")));
        }
        4 | 5 => {
            // a compile flag requested by the source itself, in a lib key that FOLLOWS a public.* key in the
            // file (dgen writes public.* keys first), plus glyphs on which the flag changes the bytes
            let o: Vec<String> = d.glyphs.iter().map(|g| g.name.clone()).collect();
            d.glyph_order = Some(o);
            let mut inner = Glyph::new("inner", &[0x61]);
            inner.layers.insert(
                0,
                Layer { advance: 400.0, components: vec![Component { base: "A".into(), xform: [0.5, 0.0, 0.0, 0.5, 10.0, 20.0] }], ..Default::default() },
            );
            let mut outer = Glyph::new("outer", &[0x62]);
            outer.layers.insert(0, Layer { advance: 450.0, components: vec![Component::at("inner", 30.0, 0.0), Component::at("A", 200.0, 0.0)], ..Default::default() });
            d.glyphs.push(inner);
            d.glyphs.push(outer);
            let name = if c.lib == 4 { "flattenComponents" } else { "decomposeTransformedComponents" };
            d.lib_extra.push((
                "com.github.googlei18n.ufo2ft.filters".into(),
                plist::Plist::Array(vec![plist::Plist::Dict(vec![("name".into(), plist::Plist::s(name)), ("pre".into(), plist::Plist::Bool(true))])]),
            ));
        }
        _ => {}
    }
    d
}

// ------------------------------------------------------------------------------------------------
// bookkeeping

/// Violation classes. A class is a route pair (or a reformatting variant); its key carries the
/// differing tables of the smallest failing case, so that the number of keys stays small.
#[derive(Default)]
struct Classes(BTreeMap<String, (u64, String, String, Value, usize)>);

impl Classes {
    fn add(&mut self, group: &str, tables: &str, what: String, replay: Value, size: usize) {
        match self.0.get_mut(group) {
            Some(e) => {
                e.0 += 1;
                if size < e.4 {
                    e.1 = tables.to_string();
                    e.2 = what;
                    e.3 = replay;
                    e.4 = size;
                }
            }
            None => {
                self.0.insert(group.to_string(), (1, tables.to_string(), what, replay, size));
            }
        }
    }
    fn report(self, rep: &mut Reporter) {
        for (group, (n, tables, what, replay, _)) in self.0 {
            rep.violation(&format!("{group}:{tables}"), &format!("{what} [{n} case(s) in this class]"), replay);
        }
    }
}

#[derive(Default)]
struct Stats {
    evaluations: u64,
    compares: u64,
    both_fail: u64,
    nondet: Vec<String>,
    fonts: BTreeSet<u64>,
    refused_sources: BTreeSet<String>,
    pairs_subsumed: u64,
    samples: Vec<String>,
    cli_skipped_for_time: u64,
    rejected: BTreeMap<String, u64>,
    rejected_samples: Vec<String>,
    changed_text: BTreeMap<String, u64>,
    unchanged_text: BTreeMap<String, u64>,
    canonical_roundtrip_exact: u64,
    reformat_sources: u64,
    reformat_skipped: Vec<String>,
    comment_rejected: u64,
    comment_accepted_same: u64,
    comment_accepted_diff: u64,
    route_counts: BTreeMap<String, u64>,
}

/// compare two outcomes; `rerun` re-executes the two routes to test individual repeatability
fn judge(
    a_name: &str,
    a: &Out,
    b_name: &str,
    b: &Out,
    rerun: &dyn Fn() -> (Out, Out),
) -> Option<(String, String, bool)> {
    // -> (table key, detail, nondeterministic)
    if a == b {
        return None;
    }
    let (key, detail) = match (a, b) {
        (Out::Font(x), Out::Font(y)) => table_diff(x, y),
        (Out::Fail(_), Out::Fail(_)) => return None, // messages may differ; both refuse
        _ => ("outcome".to_string(), format!("{a_name}: {} | {b_name}: {}", a.brief(), b.brief())),
    };
    let mut nondet = false;
    for _ in 0..3 {
        let (a2, b2) = rerun();
        let same = |x: &Out, y: &Out| match (x, y) {
            (Out::Fail(_), Out::Fail(_)) => true,
            _ => x == y,
        };
        if !same(&a2, a) || !same(&b2, b) {
            nondet = true;
            break;
        }
    }
    Some((key, detail, nondet))
}

struct Source {
    label: String,
    /// how to rebuild it in a replay
    origin: Value,
    file: PathBuf,
    pkg: Option<PathBuf>,
    has_include: bool,
}

struct Ctx {
    stamp_cli: String,
    stamp_lib: String,
    /// after this instant the CLI route of fixtures that have no package twin is skipped (quick tier)
    cli_deadline: Option<std::time::Instant>,
    /// leave the product binary's thread pool at its default size (thorough tier)
    default_pool: bool,
}

impl Ctx {
    /// CLI bytes made comparable with library bytes
    fn norm_cli(&self, o: &Out) -> Out {
        if self.stamp_cli == self.stamp_lib {
            return o.clone();
        }
        match o {
            Out::Font(b) => match blank_stamp(b, &self.stamp_cli, &self.stamp_lib) {
                Some(nb) => Out::Font(nb),
                None => o.clone(),
            },
            f => f.clone(),
        }
    }
}

fn run_route(route: &str, s: &Source, text: &str) -> Out {
    match route {
        "cli-file" => cli(&s.file),
        "lib-path" => lib_path(&s.file),
        "lib-mem" => lib_mem(text),
        "cli-pkg" => cli(s.pkg.as_ref().unwrap()),
        "lib-pkg" => lib_path(s.pkg.as_ref().unwrap()),
        _ => Out::Fail(format!("unknown route {route}")),
    }
}

/// The checksum-bearing bytes differ when the stamp is rewritten; compare CLI and library modulo
/// table checksums by comparing tables instead of whole files in that case.
fn eq_cli_lib(ctx: &Ctx, cli_out: &Out, lib_out: &Out) -> bool {
    if ctx.stamp_cli == ctx.stamp_lib {
        return cli_out == lib_out;
    }
    match (ctx.norm_cli(cli_out), lib_out) {
        (Out::Font(a), Out::Font(b)) => {
            let (ta, tb) = (tables(&a), tables(b));
            ta.len() == tb.len()
                && ta.iter().all(|(t, x)| {
                    tb.get(t).is_some_and(|y| {
                        if t == "head" && x.len() == y.len() && x.len() >= 12 {
                            x[..8] == y[..8] && x[12..] == y[12..]
                        } else {
                            x == y
                        }
                    })
                })
        }
        (Out::Fail(_), Out::Fail(_)) => true,
        _ => false,
    }
}

fn route_case(ctx: &Ctx, s: &Source, st: &Mutex<Stats>, cl: &Mutex<Classes>) {
    let text = std::fs::read_to_string(&s.file).unwrap_or_default();
    let mut routes: Vec<&str> = vec!["lib-path"];
    let optional_cli = s.pkg.is_none() && s.origin.get("fixture").is_some();
    if optional_cli && ctx.cli_deadline.is_some_and(|d| std::time::Instant::now() > d) {
        st.lock().unwrap().cli_skipped_for_time += 1;
    } else {
        routes.push("cli-file");
    }
    if !s.has_include {
        routes.push("lib-mem");
    }
    if s.pkg.is_some() {
        routes.push("lib-pkg");
        routes.push("cli-pkg");
    }
    let outs: BTreeMap<&str, Out> = routes.iter().map(|r| (*r, run_route(r, s, &text))).collect();
    {
        let mut g = st.lock().unwrap();
        g.evaluations += routes.len() as u64;
        for r in &routes {
            *g.route_counts.entry(r.to_string()).or_default() += 1;
        }
        for o in outs.values() {
            if let Out::Font(b) = o {
                g.fonts.insert(vcore::hash64(b));
            }
        }
        if g.samples.len() < 8 && (s.pkg.is_some() || g.samples.len() < 4) {
            g.samples.push(format!(
                "{}: {}",
                s.label,
                outs.iter().map(|(r, o)| format!("{r} -> {}", o.brief())).collect::<Vec<_>>().join("; ")
            ));
        }
    }
    // pairs: library routes among themselves, CLI routes among themselves, CLI vs library
    let mut pairs: Vec<(&str, &str)> = vec![];
    if routes.contains(&"cli-file") {
        pairs.push(("cli-file", "lib-path"));
    }
    if !s.has_include {
        pairs.push(("lib-mem", "lib-path"));
    }
    if s.pkg.is_some() {
        pairs.push(("lib-pkg", "lib-path"));
        pairs.push(("cli-pkg", "cli-file"));
        pairs.push(("cli-pkg", "lib-pkg"));
    }
    for (ra, rb) in pairs {
        let (a, b) = (&outs[ra], &outs[rb]);
        let cross = ra.starts_with("cli") != rb.starts_with("cli");
        st.lock().unwrap().compares += 1;
        if let (Out::Fail(m), Out::Fail(_)) = (a, b) {
            let mut g = st.lock().unwrap();
            g.both_fail += 1;
            g.refused_sources.insert(format!("{}: {}", s.label, m.chars().take(140).collect::<String>()));
            continue;
        }
        let equal = if cross { eq_cli_lib(ctx, a, b) } else { a == b };
        if equal {
            continue;
        }
        let an = if cross { ctx.norm_cli(a) } else { a.clone() };
        let verdict = judge(ra, &an, rb, b, &|| {
            let a2 = run_route(ra, s, &text);
            (if cross { ctx.norm_cli(&a2) } else { a2 }, run_route(rb, s, &text))
        });
        let Some((tkey, detail, nondet)) = verdict else { continue };
        if nondet {
            st.lock().unwrap().nondet.push(format!("{} ({ra} vs {rb})", s.label));
            continue;
        }
        cl.lock().unwrap().add(
            &format!("route-diff:{ra}-vs-{rb}"),
            &tkey,
            format!("{}: {ra} and {rb} give different results: {detail}", s.label),
            json!({"kind": "route", "origin": s.origin, "route_a": ra, "route_b": rb, "tables": detail}),
            text.len(),
        );
    }
}

fn reformat_case(label: &str, text: &str, only: Option<&[Atom]>, st: &Mutex<Stats>, cl: &Mutex<Classes>) -> bool {
    let mut failed = false;
    let tree = match parse_plist(text) {
        Ok(t) => t,
        Err(e) => {
            st.lock().unwrap().reformat_skipped.push(format!("{label}: own parser: {e}"));
            return false;
        }
    };
    let base = lib_mem(text);
    {
        let mut g = st.lock().unwrap();
        g.evaluations += 1;
        g.reformat_sources += 1;
        if let Out::Font(b) = &base {
            g.fonts.insert(vcore::hash64(b));
        }
    }
    let variants: Vec<Vec<Atom>> = match only {
        Some(a) => vec![a.to_vec()],
        None => all_variants(),
    };
    let mut seen: BTreeMap<u64, Out> = BTreeMap::new();
    // atoms that already failed alone on this source: pairs containing them add nothing
    let mut bad_atoms: BTreeSet<Atom> = BTreeSet::new();
    for atoms in &variants {
        let name = variant_name(atoms);
        if atoms.len() == 2 && atoms.iter().any(|a| bad_atoms.contains(a)) {
            st.lock().unwrap().pairs_subsumed += 1;
            continue;
        }
        let vt = reprint(&tree, atoms);
        if vt == text {
            let mut g = st.lock().unwrap();
            *g.unchanged_text.entry(name.clone()).or_default() += 1;
            if atoms.is_empty() {
                g.canonical_roundtrip_exact += 1;
            }
            continue;
        }
        *st.lock().unwrap().changed_text.entry(name.clone()).or_default() += 1;
        // the variant must still say the same thing to an independent reader: re-parse and compare
        // modulo the transformation (guards the harness, not fontc)
        let h = vcore::hash64(vt.as_bytes());
        let out = match seen.get(&h) {
            Some(o) => o.clone(),
            None => {
                let o = lib_mem(&vt);
                st.lock().unwrap().evaluations += 1;
                seen.insert(h, o.clone());
                o
            }
        };
        st.lock().unwrap().compares += 1;
        match (&base, &out) {
            (Out::Fail(_), Out::Fail(_)) => {
                st.lock().unwrap().both_fail += 1;
            }
            (Out::Font(_), Out::Fail(m)) => {
                let judged = atoms.iter().all(|a| a.rejection_judged());
                {
                    let mut g = st.lock().unwrap();
                    *g.rejected.entry(name.clone()).or_default() += 1;
                    if g.rejected_samples.len() < 12 {
                        g.rejected_samples.push(format!("{label} [{name}]: {}", m.chars().take(120).collect::<String>()));
                    }
                }
                if judged {
                    failed = true;
                    if atoms.len() == 1 { bad_atoms.extend(atoms.iter().copied()); }
                    cl.lock().unwrap().add(
                        &format!("reformat-diff:{name}"),
                        "rejected",
                        format!("{label}: the {name} variant is rejected ({m}) while the original compiles"),
                        json!({"kind": "reformat", "label": label, "text": text, "variant": name}),
                        text.len(),
                    );
                }
            }
            (a, b) if a == b => {}
            (a, b) => {
                let (tkey, detail) = match (a, b) {
                    (Out::Font(x), Out::Font(y)) => table_diff(x, y),
                    _ => ("outcome".into(), format!("original: {} | variant: {}", a.brief(), b.brief())),
                };
                // repeatability of the in-memory route on both texts
                let stable = (0..3).all(|_| lib_mem(text) == base && lib_mem(&vt) == out);
                if !stable {
                    st.lock().unwrap().nondet.push(format!("{label} (reformat {name})"));
                    continue;
                }
                failed = true;
                if atoms.len() == 1 { bad_atoms.extend(atoms.iter().copied()); }
                cl.lock().unwrap().add(
                    &format!("reformat-diff:{name}"),
                    &tkey,
                    format!("{label}: reformatting ({name}) changes the output: {detail}"),
                    json!({"kind": "reformat", "label": label, "text": text, "variant": name, "tables": detail}),
                    text.len(),
                );
            }
        }
    }
    if only.is_none() {
        // comment probe
        let ct = with_comment(text);
        let o = lib_mem(&ct);
        let mut g = st.lock().unwrap();
        g.evaluations += 1;
        match (&base, &o) {
            (Out::Fail(_), _) => {}
            (Out::Font(_), Out::Fail(_)) => g.comment_rejected += 1,
            (a, b) if a == b => g.comment_accepted_same += 1,
            _ => g.comment_accepted_diff += 1,
        }
    }
    failed
}

/// (i)/(ii): lone UFO vs designspace of one; returns true when it fails
fn ufo_case(c: &UfoCase, with_cli: bool, ctx: &Ctx, st: &Mutex<Stats>, cl: &Mutex<Classes>, info: &Mutex<(u64, u64)>) -> bool {
    let d = ufo_design(c);
    let sc = Scratch::new("c20ufo");
    let ufo = d.write_single_ufo(&sc.join("lone")).unwrap();
    let ds = d.write_designspace(&sc.join("ds")).unwrap();
    let a = lib_path(&ufo);
    let b = lib_path(&ds);
    let mut failed = false;
    {
        let mut g = st.lock().unwrap();
        g.evaluations += 2;
        g.compares += 1;
        for o in [&a, &b] {
            if let Out::Font(x) = o {
                g.fonts.insert(vcore::hash64(x));
            }
        }
        *g.route_counts.entry("ufo-lone".into()).or_default() += 1;
        *g.route_counts.entry("ufo-designspace".into()).or_default() += 1;
    }
    let sub = if c.lib == 1 { "ii-key-in-both" } else { "i-no-key" };
    let mut cmp = |ra: &str, a: &Out, rb: &str, b: &Out, cross: bool| {
        let equal = if cross { eq_cli_lib(ctx, a, b) } else { a == b };
        if equal || matches!((a, b), (Out::Fail(_), Out::Fail(_))) {
            return;
        }
        let (tkey, detail) = match (a, b) {
            (Out::Font(x), Out::Font(y)) => table_diff(x, y),
            _ => ("outcome".into(), format!("{ra}: {} | {rb}: {}", a.brief(), b.brief())),
        };
        failed = true;
        cl.lock().unwrap().add(
            &format!("route-diff:{ra}-vs-{rb}:{sub}"),
            &tkey,
            format!("{}: {ra} and {rb} differ: {detail}", d.family),
            json!({"kind": "ufo", "design": d, "sub": sub, "route_a": ra, "route_b": rb, "tables": detail}),
            d.glyphs.len(),
        );
    };
    cmp("ufo-lone", &a, "ufo-designspace", &b, false);
    if with_cli {
        let ca = cli(&ufo);
        let cb = cli(&ds);
        st.lock().unwrap().evaluations += 2;
        st.lock().unwrap().compares += 2;
        cmp("cli-ufo-lone", &ca, "ufo-lone", &a, true);
        cmp("cli-ufo-designspace", &cb, "ufo-designspace", &b, true);
    }
    if c.lib == 1 {
        // (iii) the exemption itself, counted: key only in the UFO lib
        let xml = d.designspace_xml();
        let stripped = match (xml.find("  <lib>"), xml.find("  </lib>\n")) {
            (Some(i), Some(j)) => format!("{}{}", &xml[..i], &xml[j + "  </lib>\n".len()..]),
            _ => xml.clone(),
        };
        std::fs::write(&ds, stripped).unwrap();
        let b3 = lib_path(&ds);
        let mut g = info.lock().unwrap();
        g.0 += 1;
        if b3 != a {
            g.1 += 1;
        }
    }
    failed
}

// ------------------------------------------------------------------------------------------------
// writer validation: UFO front end vs Glyphs front end on the same Design

/// development aid: line diff of the decoded OS/2, post, head, GDEF, GPOS tables
fn debug_table_diff(x: &[u8], y: &[u8]) {
    use skrifa::raw::{FontRef, TableProvider};
    let dump = |b: &[u8]| -> Vec<(String, String)> {
        let f = FontRef::new(b).unwrap();
        let mut v = vec![];
        if let Ok(t) = f.os2() { v.push(("OS/2".to_string(), format!("{t:#?}"))); }
        if let Ok(t) = f.post() { v.push(("post".to_string(), format!("{t:#?}"))); }
        if let Ok(t) = f.head() { v.push(("head".to_string(), format!("{t:#?}"))); }
        if let Ok(t) = f.gdef() { v.push(("GDEF".to_string(), format!("{t:#?}"))); }
        if let Ok(t) = f.gpos() { v.push(("GPOS".to_string(), format!("{t:#?}"))); }
        v
    };
    let (dx, dy) = (dump(x), dump(y));
    for (tag, tx) in &dx {
        let ty = dy.iter().find(|(t, _)| t == tag).map(|(_, s)| s.clone()).unwrap_or_default();
        if *tx == ty { continue; }
        println!("--- {tag}");
        let (lx, ly): (Vec<&str>, Vec<&str>) = (tx.lines().collect(), ty.lines().collect());
        if lx.len() == ly.len() {
            for (p, q) in lx.iter().zip(&ly) {
                if p != q { println!("  ufo: {}\n  gly: {}", p.trim(), q.trim()); }
            }
        } else {
            println!("ufo:\n{tx}\nglyphs:\n{ty}");
        }
    }
    for (tag, ty) in &dy {
        if !dx.iter().any(|(t, _)| t == tag) { println!("--- {tag} only in glyphs:\n{ty}"); }
    }
}

fn validate_one(t: &Toggles) -> Value {
    let mut d = gen_design(t);
    if d.glyph_order.is_none() {
        // without an explicit order the UFO front end sorts by name and the Glyphs one keeps file order
        d.glyph_order = Some(d.glyphs.iter().map(|g| g.name.clone()).collect());
    }
    let sc = Scratch::new("c20val");
    let ds = if d.axes.is_empty() {
        d.write_single_ufo(&sc.join("u")).unwrap()
    } else {
        d.write_designspace(&sc.join("u")).unwrap()
    };
    let g3 = d.write_glyphs3(&sc.join("g")).unwrap();
    let a = lib_path(&ds);
    let b = lib_path(&g3);
    let g2 = d.to_glyphs2().map(|t| lib_mem(&t));
    // the Glyphs front end propagates anchors into composites by default; switch that off to compare
    // the layout tables as well
    let noprop = lib_mem(&d.to_glyphs3().replacen(
        "customParameters = (\n",
        "customParameters = (\n{\nname = \"Propagate Anchors\";\nvalue = 0;\n},\n",
        1,
    ));
    let cmp = |x: &Out, y: &Out| -> Value {
        match (x, y) {
            (Out::Font(x), Out::Font(y)) => {
                let (tx, ty) = (tables(x), tables(y));
                let tags: BTreeSet<&String> = tx.keys().chain(ty.keys()).collect();
                let mut same = vec![];
                let mut diff = vec![];
                for tg in tags {
                    match (tx.get(tg), ty.get(tg)) {
                        (Some(p), Some(q)) if p == q => same.push(tg.trim().to_string()),
                        (Some(p), Some(q)) => diff.push(format!("{}({}/{})", tg.trim(), p.len(), q.len())),
                        (Some(p), None) => diff.push(format!("{}({}/absent)", tg.trim(), p.len())),
                        (None, Some(q)) => diff.push(format!("{}(absent/{})", tg.trim(), q.len())),
                        _ => {}
                    }
                }
                json!({"same": same.join(" "), "differ": diff.join(" ")})
            }
            _ => json!({"a": x.brief(), "b": y.brief()}),
        }
    };
    if std::env::var("C20_VERBOSE").is_ok() {
        if let (Out::Font(x), Out::Font(y)) = (&a, &b) {
            debug_table_diff(x, y);
        }
    }
    json!({
        "design": t.name(),
        "unrepresentable": d.glyphs_unrepresentable(),
        "ufo_vs_glyphs3": cmp(&a, &b),
        "ufo_vs_glyphs3_without_anchor_propagation": cmp(&a, &noprop),
        "glyphs3_vs_glyphs2": g2.as_ref().map(|g| cmp(&b, g)),
    })
}

// ------------------------------------------------------------------------------------------------

fn fixture_sources() -> Vec<Source> {
    fn walk(dir: &Path, out: &mut Vec<PathBuf>) {
        let Ok(rd) = std::fs::read_dir(dir) else { return };
        let mut es: Vec<PathBuf> = rd.filter_map(|e| e.ok().map(|e| e.path())).collect();
        es.sort();
        for p in es {
            if p.is_dir() {
                if p.extension().is_some_and(|e| e == "glyphspackage" || e == "ufo") {
                    continue;
                }
                walk(&p, out);
            } else if p.extension().is_some_and(|e| e == "glyphs") {
                out.push(p);
            }
        }
    }
    let mut files = vec![];
    walk(&Path::new(vcore::REPO).join("resources/testdata"), &mut files);
    files
        .into_iter()
        .map(|f| {
            let pkg = f.with_extension("glyphspackage");
            let text = std::fs::read_to_string(&f).unwrap_or_default();
            Source {
                label: f.strip_prefix(vcore::REPO).unwrap_or(&f).display().to_string(),
                origin: json!({"fixture": f}),
                pkg: pkg.is_dir().then_some(pkg),
                has_include: text.contains("include("),
                file: f,
            }
        })
        .collect()
}

/// materialise the generated design in its three source forms under `root`
fn generated_sources(t: &Toggles, root: &Path) -> Vec<Source> {
    let d = gen_design(t);
    let mut v = vec![];
    let dir3 = root.join(format!("{}-g3", t.name()));
    let f3 = d.write_glyphs3(&dir3).unwrap();
    let p3 = d.write_glyphspackage(&dir3).unwrap();
    v.push(Source {
        label: format!("generated {} (Glyphs 3)", t.name()),
        origin: json!({"design": d, "form": "glyphs3"}),
        file: f3,
        pkg: Some(p3),
        has_include: false,
    });
    if let Some(t2) = d.to_glyphs2() {
        let dir2 = root.join(format!("{}-g2", t.name()));
        std::fs::create_dir_all(&dir2).unwrap();
        let f2 = dir2.join("design.glyphs");
        std::fs::write(&f2, t2).unwrap();
        v.push(Source {
            label: format!("generated {} (Glyphs 2)", t.name()),
            origin: json!({"design": d, "form": "glyphs2"}),
            file: f2,
            pkg: None,
            has_include: false,
        });
    }
    v
}

/// The oracle must see a difference where there is one: (a) a package whose `order.plist` is removed
/// (glyphs then load in name order, not file order), (b) a re-print that reverses the `glyphs` list.
fn selftest() -> Value {
    let base = Toggles {
        axes: 1, composite: false, anchors: false, kerning: 1, intermediate: false, features: false,
        nonexport: false, order: false, curves: false, axis_map: false, instances: false, odd_names: false,
    };
    let d = gen_design(&base);
    let sc = Scratch::new("c20self");
    let f = d.write_glyphs3(sc.path()).unwrap();
    let p = d.write_glyphspackage(sc.path()).unwrap();
    let whole = lib_path(&f);
    if lib_path(&p) != whole {
        vcore::machinery_error("self-test: file and package of the base design differ");
    }
    std::fs::remove_file(p.join("order.plist")).unwrap();
    let a = match (&whole, &lib_path(&p)) {
        (Out::Font(x), Out::Font(y)) if x != y => table_diff(x, y).1,
        (x, y) => vcore::machinery_error(&format!("self-test (a) saw no difference: {} / {}", x.brief(), y.brief())),
    };
    let text = d.to_glyphs3();
    let mut tree = parse_plist(&text).unwrap_or_else(|e| vcore::machinery_error(&format!("self-test parse: {e}")));
    if let Node::Dict(top) = &mut tree {
        for (k, v) in top.iter_mut() {
            if *k == Tok::Bare("glyphs".into()) {
                if let Node::Array { items, .. } = v {
                    items.reverse();
                }
            }
        }
    }
    let b = match (&lib_mem(&text), &lib_mem(&reprint(&tree, &[]))) {
        (Out::Font(x), Out::Font(y)) if x != y => table_diff(x, y).1,
        (x, y) => vcore::machinery_error(&format!("self-test (b) saw no difference: {} / {}", x.brief(), y.brief())),
    };
    json!({"package_without_order_plist": a, "glyph_list_reversed": b})
}

fn versions() -> Ctx {
    let mut cmd = vcore::fontc_cmd(&vcore::fontc_bin(), None);
    cmd.arg("--version");
    let r = vcore::run_proc(&mut cmd, 20_000, None);
    if r.code != Some(0) {
        vcore::machinery_error(&format!("product binary {:?} --version: {}", vcore::fontc_bin(), r.summary()));
    }
    let stamp_cli = r.stdout.trim().strip_prefix("fontc ").unwrap_or(r.stdout.trim()).to_string();
    Ctx { stamp_cli, stamp_lib: fontc::version(), cli_deadline: None, default_pool: false }
}

fn replay(path: &Path, ctx: &Ctx) -> ! {
    let bad = |m: &str| -> ! { vcore::machinery_error(&format!("replay {path:?}: {m}")) };
    let s = std::fs::read_to_string(path).unwrap_or_else(|e| bad(&e.to_string()));
    let v: Value = serde_json::from_str(&s).unwrap_or_else(|e| bad(&e.to_string()));
    let r = v.get("replay").unwrap_or(&v);
    let st = Mutex::new(Stats::default());
    let cl = Mutex::new(Classes::default());
    let sc = Scratch::new("c20replay");
    match r.get("kind").and_then(|k| k.as_str()) {
        Some("route") => {
            let origin = &r["origin"];
            let src = if let Some(f) = origin.get("fixture").and_then(|f| f.as_str()) {
                let f = PathBuf::from(f);
                let pkg = f.with_extension("glyphspackage");
                let text = std::fs::read_to_string(&f).unwrap_or_default();
                Source {
                    label: f.display().to_string(),
                    origin: origin.clone(),
                    pkg: pkg.is_dir().then_some(pkg),
                    has_include: text.contains("include("),
                    file: f,
                }
            } else {
                let d: Design = serde_json::from_value(origin["design"].clone()).unwrap_or_else(|e| bad(&e.to_string()));
                let dir = sc.join("src");
                if origin["form"] == "glyphs2" {
                    std::fs::create_dir_all(&dir).unwrap();
                    let f = dir.join("design.glyphs");
                    std::fs::write(&f, d.to_glyphs2().unwrap_or_else(|| bad("not expressible in Glyphs 2"))).unwrap();
                    Source { label: "generated (Glyphs 2)".into(), origin: origin.clone(), file: f, pkg: None, has_include: false }
                } else {
                    let f = d.write_glyphs3(&dir).unwrap();
                    let p = d.write_glyphspackage(&dir).unwrap();
                    Source { label: "generated (Glyphs 3)".into(), origin: origin.clone(), file: f, pkg: Some(p), has_include: false }
                }
            };
            route_case(ctx, &src, &st, &cl);
        }
        Some("reformat") => {
            let text = r["text"].as_str().unwrap_or_else(|| bad("no text"));
            let name = r["variant"].as_str().unwrap_or_else(|| bad("no variant"));
            let atoms: Vec<Atom> = if name == "canonical" {
                vec![]
            } else {
                name.split('+').map(|n| Atom::from_name(n).unwrap_or_else(|| bad("unknown variant"))).collect()
            };
            reformat_case(r["label"].as_str().unwrap_or("replay"), text, Some(&atoms), &st, &cl);
        }
        Some("ufo") => {
            let d: Design = serde_json::from_value(r["design"].clone()).unwrap_or_else(|e| bad(&e.to_string()));
            let ufo = d.write_single_ufo(&sc.join("lone")).unwrap();
            let ds = d.write_designspace(&sc.join("ds")).unwrap();
            let (a, b) = (lib_path(&ufo), lib_path(&ds));
            let (ca, cb) = (cli(&ufo), cli(&ds));
            println!("ufo-lone: {}\nufo-designspace: {}\ncli-ufo-lone: {}\ncli-ufo-designspace: {}", a.brief(), b.brief(), ca.brief(), cb.brief());
            let ok = (a == b || matches!((&a, &b), (Out::Fail(_), Out::Fail(_)))) && eq_cli_lib(ctx, &ca, &a) && eq_cli_lib(ctx, &cb, &b);
            for (n, x, y) in [("ufo-lone vs ufo-designspace", &a, &b), ("cli-ufo-lone vs ufo-lone", &ca, &a), ("cli-ufo-designspace vs ufo-designspace", &cb, &b)] {
                if let (Out::Font(x), Out::Font(y)) = (x, y) {
                    if x != y {
                        println!("{n}: {}", table_diff(x, y).1);
                    }
                }
            }
            println!("replay: the case {}", if ok { "no longer fails" } else { "still fails" });
            drop(sc);
            vcore::cleanup_scratch();
            std::process::exit(if ok { 0 } else { 1 });
        }
        _ => bad("unknown replay kind"),
    }
    let classes = cl.into_inner().unwrap();
    let fails = !classes.0.is_empty();
    for (k, (_, tables, what, _, _)) in &classes.0 {
        println!("{k}:{tables}: {what}");
    }
    let g = st.into_inner().unwrap();
    if !g.nondet.is_empty() {
        println!("not repeatable on its own (C01): {:?}", g.nondet);
    }
    println!("replay: the case {}", if fails { "still fails" } else { "no longer fails" });
    drop(sc);
    vcore::cleanup_scratch();
    std::process::exit(if fails { 1 } else { 0 })
}

fn main() {
    // before any thread exists
    unsafe { std::env::set_var("SOURCE_DATE_EPOCH", "1700000000") };
    unsafe { std::env::remove_var("RUST_LOG") };
    let args = vcore::parse_args();
    // compiler panics are caught and compared as outcomes; the harness's own must stay visible
    std::panic::set_hook(Box::new(|info| {
        if let Some(l) = info.location() {
            if l.file().contains("/verif/") || l.file().starts_with("checks/") || l.file().starts_with("dgen/") || l.file().starts_with("vcore/") {
                eprintln!("harness panic: {info}");
            }
        }
    }));
    if !vcore::fontc_bin().is_file() {
        vcore::machinery_error(&format!("product binary {:?} is missing (run ./check C20 ...)", vcore::fontc_bin()));
    }
    let mut ctx = versions();
    if let Some(p) = &args.replay {
        replay(p, &ctx);
    }
    if let Some(i) = args.rest.iter().position(|a| a == "dump") {
        // c20 dump <n> [2]: print the Glyphs text of the n-th quick design
        let n: usize = args.rest.get(i + 1).and_then(|s| s.parse().ok()).unwrap_or(0);
        let d = gen_design(&design_list(Tier::Quick)[n]);
        if args.rest.get(i + 2).map(|s| s.as_str()) == Some("2") {
            print!("{}", d.to_glyphs2().unwrap_or_default());
        } else {
            print!("{}", d.to_glyphs3());
        }
        return;
    }
    if args.rest.iter().any(|a| a == "validate-writer") {
        for t in design_list(Tier::Quick) {
            println!("{}", serde_json::to_string_pretty(&validate_one(&t)).unwrap());
        }
        vcore::cleanup_scratch();
        return;
    }
    let mut rep = Reporter::new("C20", "exploration", &args);
    if args.tier == Tier::Quick {
        ctx.cli_deadline = Some(std::time::Instant::now() + std::time::Duration::from_secs(32));
    } else {
        ctx.default_pool = true;
        DEFAULT_POOL.store(true, std::sync::atomic::Ordering::Relaxed);
    }
    let ctx = ctx;
    let threads = vcore::ncores();
    let self_test = selftest();
    let st = Mutex::new(Stats::default());
    let cl = Mutex::new(Classes::default());

    // ---- sources
    let root = Scratch::new("c20gen");
    let mut sources = fixture_sources();
    let n_fixtures = sources.len();
    let n_pairs = sources.iter().filter(|s| s.pkg.is_some()).count();
    let designs = design_list(args.tier);
    for t in &designs {
        sources.extend(generated_sources(t, root.path()));
    }
    let n_generated = sources.len() - n_fixtures;
    // package pairs and generated sources first: their CLI routes are never skipped
    sources.sort_by_key(|s| s.pkg.is_none() && s.origin.get("fixture").is_some());

    // ---- 1. routes
    vcore::par_for(sources.len(), threads, |i| route_case(&ctx, &sources[i], &st, &cl));
    let after_routes = rep.elapsed_s();

    // ---- 2. reformatting
    let texts: Vec<(String, String)> = sources
        .iter()
        .filter(|s| !s.has_include)
        .map(|s| (s.label.clone(), std::fs::read_to_string(&s.file).unwrap_or_default()))
        .collect();
    vcore::par_for(texts.len(), threads, |i| {
        reformat_case(&texts[i].0, &texts[i].1, None, &st, &cl);
    });
    let after_reformat = rep.elapsed_s();

    // ---- 3. UFO routes
    let ucases = ufo_cases(args.tier);
    let info = Mutex::new((0u64, 0u64));
    vcore::par_for(ucases.len(), threads, |i| {
        ufo_case(&ucases[i], i % 5 == 0, &ctx, &st, &cl, &info);
    });

    // ---- writer validation summary (non-vacuity of the generated sources: the Glyphs form and the
    //      UFO form of a design agree on outlines / metrics / cmap)
    let val: Vec<Value> = design_list(Tier::Quick).iter().map(validate_one).collect();

    // ---- report
    let g = st.into_inner().unwrap();
    cl.into_inner().unwrap().report(&mut rep);
    let variants = all_variants();
    rep.set("evaluations", g.evaluations);
    rep.set("compares", g.compares);
    rep.set("sources", json!({"fixtures": n_fixtures, "fixture_file_package_pairs": n_pairs, "generated_source_files": n_generated, "generated_designs": designs.len(), "ufo_designs": ucases.len()}));
    rep.set("routes_run", json!(g.route_counts));
    rep.set("distinct_nontrivial", g.fonts.len());
    rep.set("rule", "number of distinct font binaries produced over all routes/variants (each belongs to a source that was compiled through >= 2 routes or >= 1 text-changing variant)");
    rep.set("both_routes_refuse", g.both_fail);
    rep.set("sources_refused_on_every_route", json!(g.refused_sources));
    rep.set("reformat", json!({
        "sources": g.reformat_sources,
        "variants_per_source": variants.len(),
        "variant_names": variants.iter().map(|v| variant_name(v)).collect::<Vec<_>>(),
        "changed_text": g.changed_text,
        "left_text_unchanged": g.unchanged_text,
        "canonical_reprint_is_byte_exact": g.canonical_roundtrip_exact,
        "rejected_by_reader": g.rejected,
        "rejected_samples": g.rejected_samples,
        "skipped": g.reformat_skipped,
        "comment_probe": {"rejected": g.comment_rejected, "accepted_same_font": g.comment_accepted_same, "accepted_other_font": g.comment_accepted_diff},
    }));
    let (n3, d3) = *info.lock().unwrap();
    rep.set("ufo", json!({
        "cases": ucases.len(),
        "i_without_skipExport_key": ucases.iter().filter(|c| c.lib != 1).count(),
        "ii_key_in_ufo_and_designspace": ucases.iter().filter(|c| c.lib == 1).count(),
        "iii_key_only_in_ufo_counted": n3,
        "iii_of_which_differ_as_documented": d3,
    }));
    rep.set("not_repeatable_sources", json!(g.nondet));
    rep.set("version_stamp", json!({"cli": ctx.stamp_cli, "library": ctx.stamp_lib}));
    rep.set("writer_validation", json!(val));
    rep.set("selftest_differences_seen", self_test);
    rep.set("timing_s", json!({"routes": after_routes, "reformat": after_reformat - after_routes}));
    rep.set("samples", json!(g.samples));
    rep.set(
        "sources_with_include_kept_off_the_memory_route",
        json!(sources.iter().filter(|s| s.has_include).map(|s| s.label.clone()).collect::<Vec<_>>()),
    );
    rep.set("cli_route_skipped_for_time", g.cli_skipped_for_time);
    rep.set("exhaustive", g.cli_skipped_for_time == 0);
    if g.cli_skipped_for_time > 0 {
        rep.assume(&format!(
            "time cap: the quick tier stops starting product-binary runs for fixtures without a package twin 32 s after start; {} of {} such fixtures were compared through the library routes only in this run (the thorough tier has no cap)",
            g.cli_skipped_for_time,
            n_fixtures - n_pairs
        ));
    }
    if ctx.stamp_cli != ctx.stamp_lib {
        rep.assume(&format!(
            "the product binary stamps version '{}' and the harness library '{}' into the name table; CLI-vs-library comparisons are made table by table after rewriting exactly that stamp (head.checkSumAdjustment ignored)",
            ctx.stamp_cli, ctx.stamp_lib
        ));
    }
    rep.assume(if ctx.default_pool { "product-binary runs use the default thread pool" } else { "product-binary runs are given RAYON_NUM_THREADS=2 (16 run side by side); the thorough tier uses the default pool" });
    rep.assume("the product binary is built with rayon and without cfg(fontc_verif); the library routes run the norayon build with the (dormant) hooks compiled in; both must give the same bytes and are compared directly");
    rep.assume("sources whose feature code uses include() are not sent through the in-memory route or reformatted: an in-memory source has no include root by design");
    rep.assume("quote-max quotes every bare scalar and key (numbers included); quote-min unquotes every quoted scalar/key made only of letters, digits, '_' and '.' (digit strings included)");
    rep.assume("a reformatted text that the reader refuses is a violation only for indent, crlf (outside strings), keyrev, trailing-ws and their pairs; refusals of quoting / one-line / CRLF-inside-strings variants are counted (rejected_by_reader)");
    rep.assume("a pair of routes whose individual outputs are not repeatable over 3 re-runs is reported under not_repeatable_sources (property C01), not as a route difference");
    rep.assume("UFO vs designspace: public.skipExportGlyphs is the only public.* key fontc takes from the designspace lib (glyphOrder, postscriptNames, openTypeCategories fallback, openTypeMeta are read from the default UFO's lib.plist on both routes)");
    drop(root);
    rep.finish()
}
